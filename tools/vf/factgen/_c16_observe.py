"""C16 facts from OBSERVED BEHAVIOUR: rdump.main / record_stream / iter_timestamped_records are run on purpose-built
probes (logging stubs put in place of RecordWriter, record_stream, RecordFieldRewriter, iter_timestamped_records,
RecordReader; probe records that log what is assigned to them) and the generated facts are read off the logs.

Everything here is finite: a table, a boolean, an order of side effects.  Fail closed (Unsupported) when the
observations do not fit any value the model can express."""
from __future__ import annotations

import argparse
import contextlib
import io
import itertools
import logging
import sys
from urllib.parse import parse_qsl, quote_plus, urlencode

from vf.factlib import Unsupported

PROBE_SRC = "/nonexistent/c16-probe-source.records"


class _Stop(Exception):
    pass


class PRec:
    """probe record: logs assignments"""

    def __init__(self, i, log):
        object.__setattr__(self, "i", i)
        object.__setattr__(self, "log", log)
        object.__setattr__(self, "_desc", PDesc(i))

    def __setattr__(self, k, v):
        self.log.append(("set", self.i, k, v))
        object.__setattr__(self, k, v)

    def __repr__(self):
        return "<probe %s>" % (self.i,)


class PDesc:
    def __init__(self, i):
        self.descriptor_hash = 1000 + (i if isinstance(i, int) else 0)
        self.name = "probe/%s" % (i,)

    def definition(self):
        return "RecordDescriptor(probe)"

    def __repr__(self):
        return "<probe descriptor>"


@contextlib.contextmanager
def _patched(pairs):
    """pairs: (module, name, value).  Missing names are skipped (the caller checks the stubs were used)."""
    saved = []
    try:
        for mod, name, val in pairs:
            if hasattr(mod, name):
                saved.append((mod, name, getattr(mod, name)))
                setattr(mod, name, val)
        yield
    finally:
        for mod, name, val in reversed(saved):
            setattr(mod, name, val)


@contextlib.contextmanager
def _quiet():
    old_out, old_err = sys.stdout, sys.stderr
    out = io.StringIO()
    sys.stdout, sys.stderr = out, io.StringIO()
    logging.disable(logging.CRITICAL)
    try:
        yield out
    finally:
        sys.stdout, sys.stderr = old_out, old_err
        logging.disable(logging.NOTSET)


def run_main(argv, records=None, writer_fails_at=None, expand=None, real_stream=False):
    """rdump.main(argv) with logging stubs.  Returns dict(log, uri, rc, exc, selector, stdout)."""
    import flow.record
    import flow.record.base
    import flow.record.stream
    from flow.record.tools import rdump
    log = []
    info = dict(uri=None, selector=None, n_writer=0, rw_args=None)

    class PWriter:
        def __init__(self):
            self.n = 0

        def write(self, rec):
            self.n += 1
            if writer_fails_at is not None and self.n == writer_fails_at:
                log.append(("write-raises", getattr(rec, "i", rec)))
                raise RuntimeError("probe: writer fails")
            log.append(("write", getattr(rec, "i", rec)))

        def flush(self):
            log.append(("flush",))

        def close(self):
            log.append(("close",))

        def __exit__(self, *a):
            log.append(("exit",))

        def __enter__(self):
            return self

    def p_writer(uri=None, *a, **k):
        info["uri"] = uri
        info["n_writer"] += 1
        log.append(("open-writer", uri))
        return PWriter()

    def p_stream(sources, selector=None):
        info["selector"] = type(selector).__name__
        log.append(("stream", tuple(sources)))
        for r in (records or []):
            log.append(("yield", r.i))
            yield r

    class PRewriter:
        def __init__(self, fields=None, exclude=None, expression=None):
            info["rw_args"] = (list(fields or []), list(exclude or []), expression)
            log.append(("rewriter-made", list(fields or []), list(exclude or []), expression))

        def rewrite(self, rec):
            log.append(("rewrite", rec.i, getattr(rec, "_source", None), getattr(rec, "_classification", None)))
            return rec

    def p_expand(rec):
        log.append(("expand", rec.i))
        return list(expand(rec)) if expand else [rec]

    mods = [rdump, flow.record, flow.record.base, flow.record.stream]
    pairs = [(m, "RecordWriter", p_writer) for m in mods]
    pairs += [(m, "RecordFieldRewriter", PRewriter) for m in mods]
    pairs += [(m, "iter_timestamped_records", p_expand) for m in mods]
    if not real_stream:
        pairs += [(m, "record_stream", p_stream) for m in mods]
    rc, exc = None, None
    with _quiet() as out, _patched(pairs):
        try:
            rc = rdump.main(list(argv))
        except SystemExit as e:
            rc = "exit:%s" % (e.code,)
        except Exception as e:  # noqa
            exc = e
        stdout = out.getvalue()
    return dict(log=log, uri=info["uri"], rc=rc, exc=exc, selector=info["selector"], n_writer=info["n_writer"],
                rw_args=info["rw_args"], stdout=stdout)


# ------------------------------------------------------------------------------------------------------
# the live argparse parser

def live_parser():
    """rdump.main builds its parser inside main(): capture it by stopping parse_args"""
    from flow.record.tools import rdump
    got = {}
    orig = argparse.ArgumentParser.parse_args

    def stop(self, *a, **k):
        got["parser"] = self
        raise _Stop()

    argparse.ArgumentParser.parse_args = stop
    try:
        with _quiet():
            try:
                rdump.main([PROBE_SRC])
            except _Stop:
                pass
    finally:
        argparse.ArgumentParser.parse_args = orig
    if "parser" not in got:
        raise Unsupported("rdump.main does not call ArgumentParser.parse_args")
    return got["parser"]


def parser_facts():
    p = live_parser()
    acts = {}
    for a in p._actions:
        for o in a.option_strings:
            acts[o] = a
    out = {}
    for opt, want_default in (("--skip", True), ("--suffix-length", True), ("--count", False), ("--split", False)):
        a = acts.get(opt)
        if a is None:
            raise Unsupported("rdump has no option %s" % opt)
        if a.type is not int or a.nargs is not None or type(a).__name__ != "_StoreAction":
            raise Unsupported("rdump option %s is not a plain type=int option" % opt)
        if want_default:
            if not (isinstance(a.default, int) and not isinstance(a.default, bool) and 0 <= a.default <= 1000):
                raise Unsupported("default of %s is %r, not a small natural number" % (opt, a.default))
            out[opt] = a.default
        elif a.default is not None:
            raise Unsupported("%s has the default %r" % (opt, a.default))
    m = acts.get("--mode")
    if m is None or not m.choices:
        raise Unsupported("rdump has no --mode option with choices")
    out["modes"] = list(m.choices)
    return out


# ------------------------------------------------------------------------------------------------------
# the URI side

def query_of(u):
    u = u.split("#", 1)[0]
    return u.split("?", 1)[1] if "?" in u else ""


def model_mode_uri(join, base, live):
    q = urlencode(live)
    has_q = bool(query_of(base))
    if join == "JoinParen":
        return base + ("&" if has_q else "?") + q
    return base + ("&" if has_q else "?" + q)


def model_split_uri(pfx_noscheme, pfx_scheme, keys, uri, n, length):
    u = (pfx_scheme if "://" in uri else pfx_noscheme) + uri
    target = u.split("#", 1)[0].split("?", 1)[0]
    d = {}
    for item in query_of(u).split("&"):
        if "=" in item:
            k, v = item.split("=", 1)
            if v:
                from urllib.parse import unquote_plus
                d[unquote_plus(k)] = unquote_plus(v)
    d[keys[0]] = str(n)
    d[keys[1]] = str(length)
    return target + "?" + urlencode(d)


def uri_facts(modes):
    PF, PX, PQ = "pf,a b", "px", "{pq}"
    obs = {}
    for mode in [None] + list(modes):
        for f, x, q in itertools.product((None, PF), (None, PX), (None, PQ)):
            argv = [PROBE_SRC]
            if mode is not None:
                argv += ["-m", mode]
            if f:
                argv += ["-F", f]
            if x:
                argv += ["-X", x]
            if q:
                argv += ["-f", q]
            r = run_main(argv)
            if r["uri"] is None or r["n_writer"] != 1 or not isinstance(r["uri"], str):
                raise Unsupported("rdump %s: RecordWriter was called %d times (exc=%r)" % (" ".join(argv[1:]), r["n_writer"], r["exc"]))
            obs[(mode, f, x, q)] = r["uri"]
    # base URIs: with no parameter the joiner adds a bare separator
    base = {}
    for mode in [None] + list(modes):
        u = obs[(mode, None, None, None)]
        if not u or u[-1] not in "?&":
            raise Unsupported("rdump -m %s without -F/-X/-f opens the writer with %r: no trailing separator" % (mode, u))
        b = u[:-1]
        if (u[-1] == "&") != bool(query_of(b)):
            raise Unsupported("rdump -m %s: separator %r does not fit the URI %r" % (mode, u[-1], b))
        base[mode] = b
    # parameter names, order, source option: from the default mode with all three given
    u = obs[(None, PF, PX, PQ)]
    b = base[None]
    if not u.startswith(b) or len(u) <= len(b):
        raise Unsupported("URI with parameters %r does not extend %r" % (u, b))
    items = u[len(b) + 1:].split("&")
    qparams = []
    vals = {quote_plus(PF): "QFields", quote_plus(PX): "QExclude", quote_plus(PQ): "QFormat"}
    for it in items:
        if "=" not in it:
            continue
        k, v = it.split("=", 1)
        if v in vals:
            qparams.append((k, vals[v]))
    if sorted(q for _, q in qparams) != ["QExclude", "QFields", "QFormat"]:
        raise Unsupported("the query parameters could not be identified in %r" % u)
    src_val = {"QFields": 1, "QExclude": 2, "QFormat": 3}
    # which joining rule explains every observation
    fits = []
    for join in ("JoinParen", "JoinUnparen"):
        ok = True
        for (mode, f, x, q), got in obs.items():
            opt = (mode, f, x, q)
            live = [(k, opt[src_val[s]]) for k, s in qparams if opt[src_val[s]]]
            if model_mode_uri(join, base[mode], live) != got:
                ok = False
                break
        if ok:
            fits.append(join)
    if not fits:
        raise Unsupported("no joining rule explains the observed writer URIs, e.g. -m %s -F %s -> %r" % (
            modes[0], PF, obs[(modes[0], PF, None, None)]))
    out = dict(default_uri=base[None], table=[(m, base[m]) for m in modes], qparams=qparams, join=fits[0], join_ambiguous=len(fits) > 1)
    # -w: verbatim
    for w in ("plain.records", "jsonfile://x.json?descriptors=true"):
        r = run_main([PROBE_SRC, "-w", w, "-F", PF, "-m", modes[0]])
        if r["uri"] != w:
            raise Unsupported("rdump -w %s opens the writer with %r" % (w, r["uri"]))
    # --split
    N, L = 7, 5
    r1 = run_main([PROBE_SRC, "-w", "WPATH.records", "--split", str(N), "--suffix-length", str(L)])
    r2 = run_main([PROBE_SRC, "-w", "sch://WPATH.records", "--split", str(N), "--suffix-length", str(L)])
    for r in (r1, r2):
        if not isinstance(r["uri"], str) or "WPATH.records" not in r["uri"] or "?" not in r["uri"]:
            raise Unsupported("rdump --split opens the writer with %r" % (r["uri"],))
    out["split_noscheme"] = r1["uri"][:r1["uri"].index("WPATH.records")]
    out["split_scheme"] = r2["uri"][:r2["uri"].index("sch://WPATH.records")] if "sch://WPATH.records" in r2["uri"] else None
    if out["split_scheme"] is None:
        raise Unsupported("rdump --split with a scheme URI opens the writer with %r" % (r2["uri"],))
    q = parse_qsl(query_of(r1["uri"]), keep_blank_values=True)
    kn = [k for k, v in q if v == str(N)]
    kl = [k for k, v in q if v == str(L)]
    if len(q) != 2 or len(kn) != 1 or len(kl) != 1 or q[0][0] != kn[0]:
        raise Unsupported("rdump --split: query %r is not <count key>=%d&<suffix key>=%d" % (q, N, L))
    out["split_keys"] = (kn[0], kl[0])
    rd = run_main([PROBE_SRC, "-w", "WPATH.records", "--split", str(N)])
    pf = parser_facts()
    for w, n, length, got in (("WPATH.records", N, L, r1["uri"]), ("sch://WPATH.records", N, L, r2["uri"]),
                              ("WPATH.records", N, pf["--suffix-length"], rd["uri"])):
        want = model_split_uri(out["split_noscheme"], out["split_scheme"], out["split_keys"], w, n, length)
        if want != got:
            raise Unsupported("rdump -w %s --split %d: writer URI %r, the model says %r" % (w, n, got, want))
    for w in ("sch://WPATH.records?a=1&count=3", "WPATH.records?b=x+y"):
        r = run_main([PROBE_SRC, "-w", w, "--split", str(N), "--suffix-length", str(L)])
        want = model_split_uri(out["split_noscheme"], out["split_scheme"], out["split_keys"], w, N, L)
        if r["uri"] != want:
            raise Unsupported("rdump -w %s --split %d: writer URI %r, the model says %r" % (w, N, r["uri"], want))
    r = run_main([PROBE_SRC, "-m", modes[0], "--split", str(N)])
    if r["rc"] != "exit:2" or r["n_writer"] != 0:
        raise Unsupported("--split without -w is not a usage error (rc=%r)" % (r["rc"],))
    r = run_main([PROBE_SRC, "-w", "WPATH.records", "--split", "0"])
    if r["uri"] != "WPATH.records":
        raise Unsupported("--split 0 is not ignored: writer URI %r" % (r["uri"],))
    return out


# ------------------------------------------------------------------------------------------------------
# the record side of main()

def _writes(log):
    return [e[1] for e in log if e[0] == "write"]


def model_window(guard, expr, skip, count, n):
    stop = None
    if count is not None and (count != 0 if guard == "GuardTruthy" else True):
        stop = count + skip if expr == "StopCountPlusSkip" else count
    return [i for i in range(n) if i >= skip and (stop is None or i < stop)]


def record_facts():
    out = {}
    K = 9

    def recs(log):
        return [PRec(i, log) for i in range(K)]

    # the window
    grid = {}
    for skip in (None, 0, 1, 3, 20):
        for count in (None, 0, 1, 2, 5):
            lg = []
            argv = [PROBE_SRC]
            if skip is not None:
                argv += ["--skip", str(skip)]
            if count is not None:
                argv += ["--count", str(count)]
            r = run_main(argv, records=recs(lg))
            if r["exc"] is not None or r["rc"] not in (None, 0):
                raise Unsupported("rdump %s on probe records: rc=%r exc=%r" % (" ".join(argv[1:]), r["rc"], r["exc"]))
            grid[(skip, count)] = _writes(r["log"])
    pf = parser_facts()
    fits = [(g, e) for g in ("GuardTruthy", "GuardNotNone") for e in ("StopCountPlusSkip", "StopCountOnly")
            if all(model_window(g, e, pf["--skip"] if s is None else s, c, K) == w for (s, c), w in grid.items())]
    if len(fits) != 1:
        raise Unsupported("the skip/count window of rdump fits %d of the model's stop expressions; e.g. --skip 1 --count 2 writes %r, "
                          "--skip 1 --count 0 writes %r" % (len(fits), grid[(1, 2)], grid[(1, 0)]))
    out["stop_guard"], out["stop_expr"] = fits[0]
    # the engine
    r1 = run_main([PROBE_SRC, "-s", "r.x == 1"], records=[])
    r2 = run_main([PROBE_SRC, "-s", "r.x == 1", "-n"], records=[])
    sel = (r1["selector"], r2["selector"])
    if sel == ("CompiledSelector", "Selector"):
        out["compile_flag"] = "FlagNotNoCompile"
    elif sel == ("Selector", "CompiledSelector"):
        out["compile_flag"] = "FlagNoCompile"
    else:
        raise Unsupported("selector classes handed to record_stream without / with -n: %r" % (sel,))
    # which options install the rewriter, with which arguments
    cond = []
    for name, argv, want in (("CFields", ["-F", "a,b"], (["a", "b"], [], None)), ("CExclude", ["-X", "c"], ([], ["c"], None)),
                             ("CExpr", ["-E", "q = 1"], ([], [], "q = 1"))):
        lg = []
        r = run_main([PROBE_SRC] + argv, records=recs(lg))
        made = [e for e in r["log"] if e[0] == "rewriter-made"]
        used = [e for e in r["log"] if e[0] == "rewrite"]
        if made and len(used) == K:
            if tuple(made[0][1:]) != want:
                raise Unsupported("rdump %s builds RecordFieldRewriter%r" % (" ".join(argv), tuple(made[0][1:])))
            cond.append(name)
        elif used:
            raise Unsupported("rdump %s rewrites %d of %d records" % (" ".join(argv), len(used), K))
    lg = []
    r = run_main([PROBE_SRC], records=recs(lg))
    if any(e[0] == "rewrite" for e in r["log"]):
        raise Unsupported("rdump without -F/-X/-E rewrites records")
    out["rewriter_cond"] = cond
    # overrides: guards and order relative to the rewriter
    guards = []
    for field, optname in (("_source", "--record-source"), ("_classification", "--record-classification")):
        lg = []
        r = run_main([PROBE_SRC, optname, "V"], records=recs(lg))
        sets = [e for e in lg if e[0] == "set"]
        if [(e[1], e[2], e[3]) for e in sets] != [(i, field, "V") for i in range(K)]:
            raise Unsupported("rdump %s V assigns %r" % (optname, sets[:3]))
        lg = []
        r = run_main([PROBE_SRC, optname, ""], records=recs(lg))
        n_empty = len([e for e in lg if e[0] == "set"])
        if n_empty == K:
            guards.append((field, "GuardNotNone"))
        elif n_empty == 0:
            guards.append((field, "GuardTruthy"))
        else:
            raise Unsupported("rdump %s '' assigns %d of %d records" % (optname, n_empty, K))
        lg = []
        run_main([PROBE_SRC], records=recs(lg))
        if any(e[0] == "set" for e in lg):
            raise Unsupported("rdump without overrides assigns attributes of the records")
    out["override_guards"] = guards
    lg = []
    r = run_main([PROBE_SRC, "--record-source", "S", "--record-classification", "C", "-X", "zz"], records=recs(lg))
    seen = [e for e in r["log"] if e[0] == "rewrite"]
    if len(seen) != K:
        raise Unsupported("order probe: %d rewrites" % len(seen))
    if all(e[2] == "S" and e[3] == "C" for e in seen):
        out["order"] = "OverrideThenRewrite"
    elif all(e[2] is None and e[3] is None for e in seen) and len([e for e in lg if e[0] == "set"]) == 2 * K:
        out["order"] = "RewriteThenOverride"
    else:
        raise Unsupported("overrides on both sides of the rewriter: %r" % (seen[0],))
    # each record is processed completely before the next one is fetched, and written after the rewrite
    lg = []
    r = run_main([PROBE_SRC, "-X", "zz"], records=recs(lg))
    ev = [(e[0], e[1]) for e in r["log"] if e[0] in ("yield", "rewrite", "write")]
    if ev != [x for i in range(K) for x in (("yield", i), ("rewrite", i), ("write", i))]:
        raise Unsupported("per-record order is not fetch, rewrite, write: %r" % (ev[:6],))
    # --multi-timestamp
    lg = []
    r = run_main([PROBE_SRC, "--multi-timestamp"], records=recs(lg), expand=lambda rec: ["%da" % rec.i, "%db" % rec.i])
    w = _writes(r["log"])
    if w == [x for i in range(K) for x in ("%da" % i, "%db" % i)]:
        out["multi"] = "MultiExpandOnly"
    elif w == [x for i in range(K) for x in ("%da" % i, "%db" % i, i)]:
        out["multi"] = "MultiExpandAndOriginal"
    else:
        raise Unsupported("--multi-timestamp writes %r" % (w[:6],))
    lg = []
    r = run_main([PROBE_SRC], records=recs(lg), expand=lambda rec: ["x"])
    if any(e[0] == "expand" for e in r["log"]) or _writes(r["log"]) != list(range(K)):
        raise Unsupported("without --multi-timestamp the records are expanded / not written as they are")
    # -l writes nothing and counts
    lg = []
    r = run_main([PROBE_SRC, "-l", "--count", "4"], records=recs(lg))
    if _writes(r["log"]) or "Processed 4 records" not in r["stdout"]:
        raise Unsupported("-l writes records or does not report the number processed: %r" % (r["stdout"][-60:],))
    # the writer is flushed and closed when a write raises
    lg = []
    r = run_main([PROBE_SRC], records=recs(lg), writer_fails_at=3)
    if r["exc"] is None:
        raise Unsupported("an exception of the writer does not leave rdump.main")
    kinds = [e[0] for e in r["log"]]
    after = kinds[kinds.index("write-raises"):]
    out["finally_exit"] = "exit" in after or ("flush" in after and "close" in after)
    lg = []
    r = run_main([PROBE_SRC], records=recs(lg))
    kinds = [e[0] for e in r["log"]]
    if not ("exit" in kinds or ("flush" in kinds and "close" in kinds)):
        raise Unsupported("the writer is not flushed and closed at the end of a normal run")
    return out


# ------------------------------------------------------------------------------------------------------
# record_stream

def stream_facts():
    import flow.record.stream as st
    log = []

    class PReader:
        def __init__(self, src, selector=None, **kw):
            self.src = src
            log.append(("open", src))
            if src.startswith("open-io"):
                raise IOError("probe: cannot open")
            if src.startswith("open-other"):
                raise EOFError("probe: cannot open")

        def __iter__(self):
            for i in range(3):
                if i == 2 and self.src.startswith("iter-io"):
                    raise IOError("probe: read error")
                if i == 2 and self.src.startswith("iter-other"):
                    raise ValueError("probe: bad frame")
                log.append(("read", self.src, i))
                yield (self.src, i)

        def close(self):
            log.append(("close", self.src))

        def __repr__(self):
            return "<probe reader>"

    def behaviour(bad):
        del log[:]
        got, exc = [], None
        with _quiet(), _patched([(st, "RecordReader", PReader)]):
            try:
                for r in st.record_stream(["good-a", bad, "good-b"], None):
                    # laziness: a record is handed out before the next one is read
                    got.append((r, len([e for e in log if e[0] == "read"])))
            except Exception as e:  # noqa
                exc = e
        recs = [r for r, _ in got]
        lazy = all(n == k + 1 for k, (_, n) in enumerate(got))
        before = [("good-a", i) for i in range(3)]
        prefix = [(bad, 0), (bad, 1)] if bad.startswith("iter") else []
        after = [("good-b", i) for i in range(3)]
        if exc is not None and recs == before + prefix:
            return "Propagate", True, lazy
        if exc is None and recs == before + prefix + after:
            return "Continue", True, lazy
        if exc is None and recs == before + prefix:
            return "Stop", True, lazy
        if exc is None and recs == before + after and prefix:
            return "Continue", False, lazy
        raise Unsupported("record_stream over [good, %s, good] yields %r (exception %r)" % (bad, recs, exc))

    res = {k: behaviour(k) for k in ("open-io", "iter-io", "open-other", "iter-other")}
    if res["open-io"][0] != res["iter-io"][0]:
        raise Unsupported("record_stream treats an IOError while opening (%s) and while reading (%s) a source differently" % (
            res["open-io"][0], res["iter-io"][0]))
    if res["open-other"][0] != res["iter-other"][0]:
        raise Unsupported("record_stream treats a non-IOError exception while opening (%s) and while reading (%s) a source differently" % (
            res["open-other"][0], res["iter-other"][0]))
    per_record = res["iter-io"][1] and res["iter-other"][1]
    if res["iter-io"][1] != res["iter-other"][1]:
        raise Unsupported("record_stream keeps the intact prefix for one exception class only")
    if not all(v[2] for v in res.values()):
        per_record = False
    # a selector is handed to the reader
    seen = []

    class SReader(PReader):
        def __init__(self, src, selector=None, **kw):
            seen.append(selector)
            PReader.__init__(self, src, selector)

    marker = object()
    with _quiet(), _patched([(st, "RecordReader", SReader)]):
        list(st.record_stream(["good-a"], marker))
    if seen != [marker]:
        raise Unsupported("record_stream does not hand its selector to RecordReader")
    return dict(handlers=[("IOError", res["iter-io"][0]), ("Exception", res["iter-other"][0])], yield_per_record=per_record)


# ------------------------------------------------------------------------------------------------------
# iter_timestamped_records

def expand_facts():
    import datetime as dt

    from flow.record import RecordDescriptor
    from flow.record.base import iter_timestamped_records
    D = RecordDescriptor("probe/expand", [("datetime", "d1"), ("string", "s"), ("datetime", "d2")])
    g = dt.datetime(2001, 2, 3, 4, 5, 6, tzinfo=dt.timezone.utc)
    r = D(d1=dt.datetime(2010, 1, 1, tzinfo=dt.timezone.utc), s="x", d2=dt.datetime(2011, 1, 1, tzinfo=dt.timezone.utc),
          _source="SRC", _classification="CLS", _generated=g)
    outs = list(iter_timestamped_records(r))
    if len(outs) != 2:
        raise Unsupported("iter_timestamped_records yields %d records for two datetime fields" % len(outs))
    copied = []
    for name, val in (("_source", "SRC"), ("_classification", "CLS"), ("_generated", g)):
        flags = [getattr(o, name) == val for o in outs]
        if all(flags):
            copied.append(name)
        elif any(flags):
            raise Unsupported("iter_timestamped_records keeps %s for some expanded records only" % name)
    # a record type that itself has fields called ts / ts_description is expanded like any other: one record per
    # datetime field, in field order, ts_description naming the field
    for fields in ([("datetime", "ts"), ("string", "ts_description"), ("datetime", "d1"), ("varint", "n")],
                   [("varint", "n"), ("datetime", "d1"), ("string", "ts_description"), ("datetime", "ts")],
                   [("string", "ts"), ("datetime", "d1")]):
        T = RecordDescriptor("probe/ts", fields)
        kw = {}
        for i, (t, n) in enumerate(fields):
            kw[n] = dt.datetime(2000 + i, 1, 1, tzinfo=dt.timezone.utc) if t == "datetime" else ("own" if t == "string" else 1)
        o = list(iter_timestamped_records(T(_generated=g, **kw)))
        want = [(n, kw[n]) for t, n in fields if t == "datetime"]
        got = [(getattr(x, "ts_description", None), getattr(x, "ts", None)) for x in o]
        if got != want:
            raise Unsupported("iter_timestamped_records on a record type with the fields %r yields (ts_description, ts) = %r, "
                              "expected one record per datetime field: %r" % (fields, got, want))
    N = RecordDescriptor("probe/plain", [("string", "s")])
    p = N(s="y", _source="SRC", _generated=g)
    o2 = list(iter_timestamped_records(p))
    if len(o2) != 1 or o2[0] is not p:
        raise Unsupported("iter_timestamped_records does not yield a record without datetime fields as it is")
    return copied


def writes_independent_of_output(modes):
    """the sequence of writes is the same whatever -m / -w / -f / --split / --suffix-length say"""
    K = 6
    base = None
    variants = [[]] + [["-m", m] for m in modes] + [["-w", "x.records"], ["-w", "jsonfile://x.json"], ["-f", "{a}"],
                                                    ["-w", "x.records", "--split", "2", "--suffix-length", "3"]]
    for extra in variants:
        lg = []
        r = run_main([PROBE_SRC, "--skip", "1", "--count", "4", "--record-source", "S", "-X", "zz"] + extra,
                     records=[PRec(i, lg) for i in range(K)])
        ev = [e for e in r["log"] if e[0] in ("yield", "rewrite", "write")] + [e for e in lg if e[0] == "set"]
        if base is None:
            base = ev
        elif ev != base:
            raise Unsupported("the writes of rdump depend on %s: %r instead of %r" % (" ".join(extra), ev[:4], base[:4]))
