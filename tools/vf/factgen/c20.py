"""C20 facts: layout constants of the csvfile / line / text adapters and of normalize_fieldname -> coq/gen/Gen_text.v.

The writers' facts are OBSERVED (factgen/_c20_observe.py): every layout parameter is read off the bytes the real
writer produces on probe records and must predict a second battery exactly (fail closed otherwise).  The `ast`
recognisers of this file are CROSS-CHECKS: they inline private helper methods one level, resolve module constants and
tolerate renamed locals; when they recognise the source and it CONTRADICTS the observation the translator fails closed,
when they merely do not recognise a spelling the observation is used and a note is written into the generated file.
Only what cannot be observed here (the newline= argument of the CSV file) rests on the source alone."""
from __future__ import annotations

import ast
import copy
import inspect
import re
import sys
import textwrap

from vf.factgen import _c20_observe as observe

from vf.coqlit import cbool
from vf.factlib import GEN, HEADER, Unsupported, write_if_changed


def ctext(s: str) -> str:
    """text literal = list of code points"""
    if s == "":
        return "[]"
    return "[" + "; ".join(str(ord(ch)) for ch in s) + "]"


def ctlist(items) -> str:
    items = list(items)
    return "[" + "; ".join(items) + "]" if items else "[]"


def _fn_ast(fn):
    src = textwrap.dedent(inspect.getsource(fn))
    node = ast.parse(src).body[0]
    if not isinstance(node, (ast.FunctionDef,)):
        raise Unsupported("not a def: %r" % fn)
    return node


class _Subst(ast.NodeTransformer):
    def __init__(self, env):
        self.env = env

    def visit_Name(self, node):
        if isinstance(node.ctx, ast.Load) and node.id in self.env:
            return copy.deepcopy(self.env[node.id])
        return node


class _Inliner(ast.NodeTransformer):
    """replaces a statement `self._helper(args)` by the helper's body (parameters substituted), one level"""

    def __init__(self, methods, current):
        self.methods, self.current = methods, current

    def visit_Expr(self, node):
        c = node.value
        if not (isinstance(c, ast.Call) and isinstance(c.func, ast.Attribute) and isinstance(c.func.value, ast.Name)
                and c.func.value.id == "self" and c.func.attr in self.methods and c.func.attr != self.current):
            return node
        h = self.methods[c.func.attr]
        params = [a.arg for a in h.args.args][1:]
        if h.args.vararg or h.args.kwarg or h.args.kwonlyargs or any(isinstance(a, ast.Starred) for a in c.args) \
                or any(k.arg is None for k in c.keywords) or len(c.args) > len(params):
            return node
        env = dict(zip(params, c.args))
        env.update({k.arg: k.value for k in c.keywords})
        if set(env) != set(params):
            return node
        body = [copy.deepcopy(st) for st in h.body]
        if body and isinstance(body[0], ast.Expr) and isinstance(body[0].value, ast.Constant) and isinstance(body[0].value.value, str):
            body = body[1:]
        if any(isinstance(n, ast.Return) for st in body for n in ast.walk(st)):
            return node
        assigned = {t.id for st in body for n in ast.walk(st) if isinstance(n, ast.Assign) for t in n.targets if isinstance(t, ast.Name)}
        if assigned & set(params):
            return node
        return [_Subst(env).visit(st) for st in body] or [ast.Pass()]


def _method_ast(cls, name):
    """(the method with private helper statements inlined, the helper methods it calls in expression position)"""
    cdef = ast.parse(textwrap.dedent(inspect.getsource(cls))).body[0]
    methods = {n.name: n for n in cdef.body if isinstance(n, ast.FunctionDef)}
    if name not in methods:
        raise Unsupported("%s has no method %s of its own" % (cls.__name__, name))
    fn = _Inliner(methods, name).visit(copy.deepcopy(methods[name]))
    ast.fix_missing_locations(fn)
    helpers = []
    for c in _calls(fn):
        if isinstance(c.func, ast.Attribute) and isinstance(c.func.value, ast.Name) and c.func.value.id == "self" \
                and c.func.attr in methods and c.func.attr != name and methods[c.func.attr] not in helpers:
            helpers.append(methods[c.func.attr])
    return fn, helpers


def _resolve_str(node, module):
    """a str constant, or a module-level name bound to a str"""
    if _const_str(node):
        return node.value
    if isinstance(node, ast.Name) and isinstance(getattr(module, node.id, None), str):
        return getattr(module, node.id)
    return None


def _calls(node):
    return [n for n in ast.walk(node) if isinstance(n, ast.Call)]


def _const_str(n):
    return isinstance(n, ast.Constant) and isinstance(n.value, str)


def _kw(call, name):
    for k in call.keywords:
        if k.arg == name:
            return k.value
    return None


def _errors_arg(call, where, positional_index=None):
    """the `errors` argument of an open()/encode() call: None (absent -> strict) or a str constant"""
    if any(k.arg is None for k in call.keywords):
        raise Unsupported("%s: **kwargs in call" % where)
    v = _kw(call, "errors")
    if v is None and positional_index is not None and len(call.args) > positional_index:
        v = call.args[positional_index]
    if v is None:
        return None
    if not _const_str(v):
        raise Unsupported("%s: errors argument is not a string constant" % where)
    return v.value


def _se(errors, where):
    if errors in (None, "strict"):
        return False
    if errors == "surrogateescape":
        return True
    raise Unsupported("%s: error handler %r is not modelled" % (where, errors))


def _encoding_ok(call, where, positional_index=None):
    v = _kw(call, "encoding")
    if v is None and positional_index is not None and len(call.args) > positional_index:
        v = call.args[positional_index]
    if v is None:
        return
    if not (_const_str(v) and v.value.lower().replace("_", "-") in ("utf-8", "utf8")):
        raise Unsupported("%s: encoding other than UTF-8" % where)


# ------------------------------------------------------------------------------------------
# csvfile

def _ast_csv_facts():
    import locale

    from flow.record.adapter import csvfile
    W = csvfile.CsvfileWriter
    init, _ = _method_ast(W, "__init__")
    params = [a.arg for a in init.args.args]
    # open(path, "w", newline="") : which encoder the text file uses
    opens = [c for c in _calls(init) if isinstance(c.func, ast.Name) and c.func.id == "open"]
    if len(opens) != 1:
        raise Unsupported("CsvfileWriter.__init__: expected exactly one open() call, found %d" % len(opens))
    op = opens[0]
    mode = op.args[1] if len(op.args) > 1 else _kw(op, "mode")
    if not (_const_str(mode) and mode.value in ("w", "wt")):
        raise Unsupported("CsvfileWriter.__init__: open() mode is not text write")
    nl = _kw(op, "newline")
    if nl is None and len(op.args) > 5:
        nl = op.args[5]
    if not (_const_str(nl) and nl.value == ""):
        raise Unsupported("CsvfileWriter.__init__: file is not opened with newline='' (the csv module's line "
                          "terminators would be translated)")
    _encoding_ok(op, "CsvfileWriter open()", 3)
    if _kw(op, "encoding") is None and len(op.args) <= 3:
        # default encoding of text files in this environment
        if locale.getpreferredencoding(False).lower().replace("_", "-") not in ("utf-8", "utf8"):
            raise Unsupported("default text encoding is not UTF-8 in this environment")
    csv_se = _se(_errors_arg(op, "CsvfileWriter open()", 4), "CsvfileWriter open()")

    # self.lineterminator = lineterminator or "<default>"
    default = None
    for n in ast.walk(init):
        if isinstance(n, ast.BoolOp) and isinstance(n.op, ast.Or) and len(n.values) == 2 \
                and isinstance(n.values[0], ast.Name) and n.values[0].id == "lineterminator" \
                and _resolve_str(n.values[1], csvfile) is not None:
            if default is not None:
                raise Unsupported("CsvfileWriter.__init__: two defaults for lineterminator")
            default = _resolve_str(n.values[1], csvfile)
    if default is None:
        if "lineterminator" in params:
            # a plain default value of the parameter
            defaults = dict(zip(reversed(params), reversed(init.args.defaults)))
            dv = defaults.get("lineterminator")
            if dv is not None and _resolve_str(dv, csvfile) is not None:
                default = _resolve_str(dv, csvfile)
        if default is None:
            raise Unsupported("CsvfileWriter.__init__: default line terminator not found")

    # for r, n in (("\\r", "\r"), ...): x = x.replace(r, n)  -- in __init__ or in a module-level / private helper it calls
    # (one level); the table may be a literal, a module constant, a dict (.items()).  None = not recognised.
    mod = ast.parse(inspect.getsource(csvfile))
    modfns = {n.name: n for n in mod.body if isinstance(n, ast.FunctionDef)}
    scope = [init] + [modfns[c.func.id] for c in _calls(init) if isinstance(c.func, ast.Name) and c.func.id in modfns]

    def pairs_of(it):
        val = None
        if isinstance(it, ast.Call) and isinstance(it.func, ast.Attribute) and it.func.attr == "items" and not it.args \
                and isinstance(it.func.value, ast.Name):
            val = getattr(csvfile, it.func.value.id, None)
            val = list(val.items()) if isinstance(val, dict) else None
        elif isinstance(it, ast.Name):
            val = getattr(csvfile, it.id, None)
            val = list(val.items()) if isinstance(val, dict) else list(val) if isinstance(val, (tuple, list)) else None
        elif isinstance(it, (ast.Tuple, ast.List)):
            try:
                val = list(ast.literal_eval(it))
            except Exception:
                val = None
        elif isinstance(it, ast.Dict):
            try:
                val = list(ast.literal_eval(it).items())
            except Exception:
                val = None
        if val is None or not all(isinstance(p, tuple) and len(p) == 2 and all(isinstance(x, str) for x in p) for p in val):
            return None
        return val

    repl = None
    loops = 0
    for fn in scope:
        for n in ast.walk(fn):
            if isinstance(n, ast.For) and any(isinstance(c.func, ast.Attribute) and c.func.attr == "replace" for c in _calls(n)):
                loops += 1
                tgt = n.target
                rc = [c for c in _calls(n) if isinstance(c.func, ast.Attribute) and c.func.attr == "replace"]
                if isinstance(tgt, ast.Tuple) and len(tgt.elts) == 2 and all(isinstance(e, ast.Name) for e in tgt.elts) \
                        and len(rc) == 1 and len(rc[0].args) == 2 and all(isinstance(x, ast.Name) for x in rc[0].args) \
                        and [x.id for x in rc[0].args] == [tgt.elts[0].id, tgt.elts[1].id]:
                    repl = pairs_of(n.iter)
    if loops != 1 or (repl is not None and any(old == "" for old, _ in repl)):
        repl = None          # no loop found / several / a spelling this recogniser does not follow: NOT recognised

    # write(): csv.DictWriter(fp, rdict, lineterminator=...) and the test guarding writeheader()
    wr, _ = _method_ast(W, "write")
    rparam = wr.args.args[1].arg
    dws = [c for c in _calls(wr) if (isinstance(c.func, ast.Attribute) and c.func.attr == "DictWriter")
           or (isinstance(c.func, ast.Name) and c.func.id == "DictWriter")]
    if len(dws) != 1:
        raise Unsupported("CsvfileWriter.write: expected exactly one csv.DictWriter(...) call")
    dw = dws[0]
    kws = sorted(k.arg or "**" for k in dw.keywords)
    if kws != ["lineterminator"] or len(dw.args) != 2:
        raise Unsupported("CsvfileWriter.write: csv.DictWriter is called with arguments other than "
                          "(fp, fieldnames, lineterminator=...): %s" % kws)
    lt = _kw(dw, "lineterminator")
    if not (isinstance(lt, ast.Attribute) and lt.attr == "lineterminator"):
        raise Unsupported("CsvfileWriter.write: lineterminator= is not self.lineterminator")
    # fieldnames argument must be the dict built by _asdict(fields=self.fields, exclude=self.exclude) of THIS record
    asd = [c for c in _calls(wr) if isinstance(c.func, ast.Attribute) and c.func.attr == "_asdict"]
    if len(asd) != 1 or not (isinstance(asd[0].func.value, ast.Name) and asd[0].func.value.id == rparam):
        raise Unsupported("CsvfileWriter.write: expected one %s._asdict(...) call" % rparam)
    akw = {k.arg: k.value for k in asd[0].keywords}
    if sorted(akw) != ["exclude", "fields"] or asd[0].args or \
            not all(isinstance(v, ast.Attribute) and isinstance(v.value, ast.Name) and v.value.id == "self" and v.attr == k
                    for k, v in akw.items()):
        raise Unsupported("CsvfileWriter.write: _asdict is not called with fields=self.fields, exclude=self.exclude")
    # the If that guards writeheader
    guard = None
    for n in ast.walk(wr):
        if isinstance(n, ast.If) and any(isinstance(c.func, ast.Attribute) and c.func.attr == "writeheader" for c in _calls(n)):
            guard = n
            break
    if guard is None:
        raise Unsupported("CsvfileWriter.write: no `if` guarding writeheader()")

    # local aliases: a name assigned exactly once in the method stands for its value
    assigned = {}
    for n in ast.walk(wr):
        if isinstance(n, ast.Assign) and len(n.targets) == 1 and isinstance(n.targets[0], ast.Name):
            assigned.setdefault(n.targets[0].id, []).append(n.value)
    alias = {k: v[0] for k, v in assigned.items() if len(v) == 1}

    def deref(x):
        seen = 0
        while isinstance(x, ast.Name) and x.id in alias and seen < 5:
            x = alias[x.id]
            seen += 1
        return x

    def is_self_desc(x):
        x = deref(x)
        return isinstance(x, ast.Attribute) and isinstance(x.value, ast.Name) and x.value.id == "self" and x.attr == "desc"

    def is_rec_desc(x):
        x = deref(x)
        return isinstance(x, ast.Attribute) and isinstance(x.value, ast.Name) and x.value.id == rparam and x.attr == "_desc"

    # the dictionary handed to DictWriter(...) and to writerow(...) is the _asdict(...) result of THIS record
    def is_rdict(x):
        return deref(x) is asd[0]

    if not is_rdict(dw.args[1]):
        raise Unsupported("CsvfileWriter.write: the DictWriter's field names are not this record's _asdict(...) result")
    # self.desc must be set to the record's descriptor under the guard
    sets = [n for n in ast.walk(guard) if isinstance(n, ast.Assign) and len(n.targets) == 1 and isinstance(n.targets[0], ast.Attribute)
            and isinstance(n.targets[0].value, ast.Name) and n.targets[0].value.id == "self" and n.targets[0].attr == "desc"]
    if len(sets) != 1 or not is_rec_desc(sets[0].value):
        raise Unsupported("CsvfileWriter.write: self.desc is not set to the record's descriptor under the guard")

    t = guard.test
    ok = False
    if isinstance(t, ast.BoolOp) and isinstance(t.op, ast.Or) and len(t.values) == 2:
        a, b = t.values
        first = (isinstance(a, ast.UnaryOp) and isinstance(a.op, ast.Not) and is_self_desc(a.operand)) or \
                (isinstance(a, ast.Compare) and len(a.ops) == 1 and isinstance(a.ops[0], ast.Is) and is_self_desc(a.left)
                 and isinstance(a.comparators[0], ast.Constant) and a.comparators[0].value is None)
        second = isinstance(b, ast.Compare) and len(b.ops) == 1 and isinstance(b.ops[0], ast.NotEq) and \
            ((is_self_desc(b.left) and is_rec_desc(b.comparators[0])) or (is_rec_desc(b.left) and is_self_desc(b.comparators[0])))
        ok = first and second
    elif isinstance(t, ast.Compare) and len(t.ops) == 1 and isinstance(t.ops[0], ast.NotEq) and \
            ((is_self_desc(t.left) and is_rec_desc(t.comparators[0])) or (is_rec_desc(t.left) and is_self_desc(t.comparators[0]))):
        ok = True          # None != desc is True as well
    if not ok:
        raise Unsupported("CsvfileWriter.write: the header is not guarded by `not self.desc or self.desc != %s._desc` "
                          "(line %d of the method)" % (rparam, guard.lineno))
    # the new writer and the header must be created inside the guard, the row written outside
    if not any(c is dw for c in _calls(guard)):
        raise Unsupported("CsvfileWriter.write: DictWriter is not created under the descriptor-change guard")
    rows = [c for c in _calls(wr) if isinstance(c.func, ast.Attribute) and c.func.attr == "writerow"]
    if len(rows) != 1 or any(c is rows[0] for c in _calls(guard)):
        raise Unsupported("CsvfileWriter.write: writerow() is not called exactly once, outside the guard")
    if len(rows[0].args) != 1 or not is_rdict(rows[0].args[0]):
        raise Unsupported("CsvfileWriter.write: writerow() is not given this record's _asdict(...) result")
    return dict(default=default, repl=repl, se=csv_se)


# ------------------------------------------------------------------------------------------
# line

def _ast_line_facts():
    from flow.record.adapter import line
    wr, helpers = _method_ast(line.LineWriter, "write")
    scope = [wr] + helpers
    S = "\x00COUNT\x00"

    def is_count(x):
        return isinstance(x, ast.Attribute) and x.attr == "count"

    def hdr_of_format_call(c):
        """<str>.format(count=self.count) / <str>.format(self.count) -> (pre, suf)"""
        if not (isinstance(c, ast.Call) and isinstance(c.func, ast.Attribute) and c.func.attr == "format"):
            return None
        recv = _resolve_str(c.func.value, line)
        if recv is None or not (any(is_count(a) for a in c.args) or any(is_count(k.value) for k in c.keywords)):
            return None
        if len(c.args) + len(c.keywords) != 1:
            return None
        try:
            txt = recv.format(*[S for _ in c.args], **{k.arg: S for k in c.keywords})
        except Exception:
            return None
        return tuple(txt.split(S)) if txt.count(S) == 1 else None

    hdr = vkey = tpl = None
    for fn in scope:
        for n in ast.walk(fn):
            if isinstance(n, ast.JoinedStr):
                vals = n.values
                shape = ["F" if isinstance(v, ast.FormattedValue) else "C" for v in vals]
                if any(isinstance(v, ast.FormattedValue) and (v.conversion != -1 or v.format_spec is not None) for v in vals):
                    raise Unsupported("LineWriter.write: f-string with conversion/format spec")
                fvs = [v.value for v in vals if isinstance(v, ast.FormattedValue)]
                if len(fvs) == 1 and is_count(fvs[0]):
                    got = ("".join(v.value for v in vals[:shape.index("F")]), "".join(v.value for v in vals[shape.index("F") + 1:]))
                    if hdr not in (None, got):
                        raise Unsupported("LineWriter.write: two block headers")
                    hdr = got
                elif shape == ["F", "C", "F", "C"] and isinstance(fvs[0], ast.Name) and isinstance(fvs[1], ast.Subscript):
                    if vkey is not None:
                        raise Unsupported("LineWriter.write: two verbose-key f-strings")
                    vkey = (vals[1].value, vals[3].value)
                elif fvs and all(isinstance(x, ast.Name) for x in fvs):
                    inst = "".join("7" if isinstance(v, ast.FormattedValue) else v.value for v in vals)
                    if tpl not in (None, inst):
                        raise Unsupported("LineWriter.write: two line templates")
                    tpl = inst
                else:
                    raise Unsupported("LineWriter.write: unrecognised f-string at line %d of the method" % n.lineno)
            elif isinstance(n, ast.Call):
                got = hdr_of_format_call(n)
                if got is not None:
                    if hdr not in (None, got):
                        raise Unsupported("LineWriter.write: two block headers")
                    hdr = got
                elif isinstance(n.func, ast.Attribute) and n.func.attr == "format" and _resolve_str(n.func.value, line) is not None \
                        and [k.arg for k in n.keywords] == ["width"] and not n.args:
                    inst = _resolve_str(n.func.value, line).format(width=7)
                    if tpl not in (None, inst):
                        raise Unsupported("LineWriter.write: two line templates")
                    tpl = inst
    if hdr is None or vkey is None or tpl is None:
        raise Unsupported("LineWriter.write: block header / verbose key / line template not found")
    m = re.fullmatch(r"\{:>7\}([^{}]*)\{\}([^{}]*)", tpl, re.S)
    if not m:
        raise Unsupported("LineWriter.write: line template %r is not `{:>width}<sep>{}<end>`" % tpl)
    sep, end = m.group(1), m.group(2)
    # <w> = max(len(k + types[k]) for k in rdict) + 3   /   max(len(k) for k in rdict)
    extra = None
    plain_width = False
    for fn in scope:
        for n in ast.walk(fn):
            if isinstance(n, ast.Assign) and len(n.targets) == 1 and isinstance(n.targets[0], ast.Name):
                v = n.value
                if isinstance(v, ast.BinOp) and isinstance(v.op, ast.Add) and isinstance(v.right, ast.Constant) \
                        and isinstance(v.right.value, int) and _is_max_len(v.left, concat=True):
                    if extra is not None:
                        raise Unsupported("LineWriter.write: two verbose width computations")
                    extra = v.right.value
                elif _is_max_len(v, concat=False):
                    plain_width = True
    if extra is None or not plain_width:
        raise Unsupported("LineWriter.write: width computations not found")
    # encodes: header .encode() ; lines <fmt>.format(label, value).encode(errors=...)
    line_se = None
    for fn in scope:
        for c in _calls(fn):
            if isinstance(c.func, ast.Attribute) and c.func.attr == "encode":
                _encoding_ok(c, "LineWriter encode()", 0)
                se = _se(_errors_arg(c, "LineWriter encode()", 1), "LineWriter encode()")
                inner = c.func.value
                if isinstance(inner, ast.Call) and isinstance(inner.func, ast.Attribute) and inner.func.attr == "format" \
                        and len(inner.args) == 2 and not inner.keywords and all(isinstance(a, ast.Name) for a in inner.args):
                    if line_se is not None:
                        raise Unsupported("LineWriter.write: two line encodes")
                    line_se = se
    if line_se is None:
        raise Unsupported("LineWriter.write: the field line's encode call not found")
    return dict(hdr=hdr, vkey=vkey, sep=sep, end=end, extra=extra, se=line_se)


def _is_max_len(v, concat):
    """max(len(k) for k in X)  /  max(len(k + T[k]) for k in X)"""
    if not (isinstance(v, ast.Call) and isinstance(v.func, ast.Name) and v.func.id == "max" and len(v.args) == 1
            and isinstance(v.args[0], ast.GeneratorExp) and len(v.args[0].generators) == 1):
        return False
    g = v.args[0]
    gen = g.generators[0]
    if gen.ifs or not isinstance(gen.target, ast.Name):
        return False
    k = gen.target.id
    e = g.elt
    if not (isinstance(e, ast.Call) and isinstance(e.func, ast.Name) and e.func.id == "len" and len(e.args) == 1):
        return False
    a = e.args[0]
    if concat:
        return (isinstance(a, ast.BinOp) and isinstance(a.op, ast.Add) and isinstance(a.left, ast.Name) and a.left.id == k
                and isinstance(a.right, ast.Subscript) and isinstance(a.right.slice, ast.Name) and a.right.slice.id == k)
    return isinstance(a, ast.Name) and a.id == k


# ------------------------------------------------------------------------------------------
# text

def _ast_text_facts():
    from flow.record.adapter import text
    repl = getattr(text, "REPLACE_LIST", None)
    cls_src = ast.parse(textwrap.dedent(inspect.getsource(text.TextWriter)))
    if not any(isinstance(n, ast.Name) and n.id == "REPLACE_LIST" for n in ast.walk(cls_src)) or not isinstance(repl, (list, tuple)):
        repl = None          # the table the writer uses is not (recognisably) this constant
    if repl is not None:
        repl = list(repl)
        if not all(isinstance(p, tuple) and len(p) == 2 and all(isinstance(x, str) for x in p) and p[0] != "" for p in repl):
            raise Unsupported("text.REPLACE_LIST is not a list of (non-empty str, str) pairs")
    wr, helpers = _method_ast(text.TextWriter, "write")
    scope = [wr] + helpers
    se = None
    end = None
    for fn in scope:
        for n in ast.walk(fn):
            if isinstance(n, ast.BinOp) and isinstance(n.op, ast.Add) and isinstance(n.right, ast.Constant) \
                    and isinstance(n.right.value, bytes) and isinstance(n.left, ast.Call) \
                    and isinstance(n.left.func, ast.Attribute) and n.left.func.attr == "encode":
                if end is not None:
                    raise Unsupported("TextWriter.write: two `encode(...) + b'..'` expressions")
                _encoding_ok(n.left, "TextWriter encode()", 0)
                se = _se(_errors_arg(n.left, "TextWriter encode()", 1), "TextWriter encode()")
                end = n.right.value.decode("latin-1")
    if end is None:
        raise Unsupported("TextWriter.write: `<text>.encode(...) + b'\\n'` not found")
    return dict(repl=repl, se=se, end=end)


# ------------------------------------------------------------------------------------------
# normalize_fieldname

def norm_facts():
    from flow.record import base
    fn = getattr(base.normalize_fieldname, "__wrapped__", base.normalize_fieldname)
    node = _fn_ast(fn)
    subs = [c for c in _calls(node) if isinstance(c.func, ast.Attribute) and c.func.attr == "sub"
            and isinstance(c.func.value, ast.Name) and c.func.value.id == "re"]
    if len(subs) != 1 or len(subs[0].args) != 3 or subs[0].keywords or not _const_str(subs[0].args[0]) or not _const_str(subs[0].args[1]):
        raise Unsupported("normalize_fieldname: expected one re.sub(<pattern>, <replacement>, name)")
    pat, rep = subs[0].args[0].value, subs[0].args[1].value
    if not (len(pat) >= 3 and pat[0] == "[" and pat[-1] == "]"):
        raise Unsupported("normalize_fieldname: pattern %r is not a character class" % pat)
    inner = pat[1:-1]
    if inner.startswith("^") or "\\" in inner or "[" in inner or "]" in inner or "-" in inner[1:-1]:
        raise Unsupported("normalize_fieldname: character class %r uses negation / escapes / ranges" % pat)
    if "\\" in rep:
        raise Unsupported("normalize_fieldname: replacement uses escapes")
    chars = sorted(set(inner))
    # cross-check the class live
    rx = re.compile(pat)
    for cp in list(range(0, 256)) + [0x2028, 0x10FFFF]:
        if bool(rx.fullmatch(chr(cp))) != (chr(cp) in chars):
            raise Unsupported("normalize_fieldname: character class read from the source differs from re's")
    # "x_" + field_name
    prefix = None
    for n in ast.walk(node):
        if isinstance(n, ast.BinOp) and isinstance(n.op, ast.Add) and _const_str(n.left) and isinstance(n.right, ast.Name):
            if prefix is not None:
                raise Unsupported("normalize_fieldname: two prefixes")
            prefix = n.left.value
    if prefix is None:
        raise Unsupported("normalize_fieldname: prefix not found")
    # the condition: empty, startswith("_"), [0].isdecimal()
    conds = [n for n in ast.walk(node) if isinstance(n, ast.BoolOp) and isinstance(n.op, ast.Or)]
    if len(conds) != 1 or len(conds[0].values) != 3:
        raise Unsupported("normalize_fieldname: prefix condition is not a three-way `or`")
    src = [ast.dump(v) for v in conds[0].values]
    has_empty = any(isinstance(v, ast.Compare) and isinstance(v.ops[0], ast.Eq) and isinstance(v.comparators[0], ast.Constant)
                    and v.comparators[0].value == 0 and "len" in ast.dump(v.left) for v in conds[0].values) or \
        any(isinstance(v, ast.UnaryOp) and isinstance(v.op, ast.Not) for v in conds[0].values)
    sw = [v for v in conds[0].values if isinstance(v, ast.Call) and isinstance(v.func, ast.Attribute) and v.func.attr == "startswith"
          and len(v.args) == 1 and _const_str(v.args[0])]
    dc = [v for v in conds[0].values if isinstance(v, ast.Call) and isinstance(v.func, ast.Attribute) and v.func.attr == "isdecimal"
          and isinstance(v.func.value, ast.Subscript) and isinstance(v.func.value.slice, ast.Constant) and v.func.value.slice.value == 0]
    if not has_empty or len(sw) != 1 or len(dc) != 1 or sw[0].args[0].value != "_":
        raise Unsupported("normalize_fieldname: prefix condition is not `empty or startswith('_') or [0].isdecimal()`: %s" % src)
    # reserved names are exempt: `if field_name not in RESERVED_FIELDS`
    ifs = [n for n in node.body if isinstance(n, ast.If)]
    if len(ifs) != 1 or not (isinstance(ifs[0].test, ast.Compare) and isinstance(ifs[0].test.ops[0], ast.NotIn)
                             and isinstance(ifs[0].test.comparators[0], ast.Name) and ifs[0].test.comparators[0].id == "RESERVED_FIELDS"):
        raise Unsupported("normalize_fieldname: not guarded by `if name not in RESERVED_FIELDS`")
    # decimal characters of this interpreter's Unicode database
    ranges = []
    for cp in range(0x110000):
        if chr(cp).isdecimal():
            if ranges and ranges[-1][1] == cp - 1:
                ranges[-1][1] = cp
            else:
                ranges.append([cp, cp])
    # RE_VALID_FIELD_NAME: <body><end anchor>; the anchor may be `$` (also matches before ONE trailing newline) or `\Z`
    vpat = base.RE_VALID_FIELD_NAME.pattern
    if vpat.endswith("\\Z"):
        vbody, vend_z = vpat[:-2], True
    elif vpat.endswith("$") and not vpat.endswith("\\$"):
        vbody, vend_z = vpat[:-1], False
    else:
        raise Unsupported("RE_VALID_FIELD_NAME %r does not end in `$` or `\\Z`" % vpat)
    if base.RE_VALID_FIELD_NAME.flags & (re.M | re.I | re.X | re.S):
        raise Unsupported("RE_VALID_FIELD_NAME is compiled with flags")
    # the anchor read from the text is the anchor the compiled pattern has
    if bool(base.RE_VALID_FIELD_NAME.match("a\n")) != (not vend_z) or not base.RE_VALID_FIELD_NAME.match("a"):
        raise Unsupported("RE_VALID_FIELD_NAME: end anchor behaves differently from its text")
    return dict(chars=chars, rep=rep, prefix=prefix, ranges=ranges, valid=vbody, valid_end_z=vend_z,
                reserved=list(base.RESERVED_FIELDS))


def _class_scope(cls, module):
    """all function bodies of the class plus the module-level private functions they call (one level)"""
    cdef = ast.parse(textwrap.dedent(inspect.getsource(cls))).body[0]
    fns = [n for n in cdef.body if isinstance(n, ast.FunctionDef)]
    mod = ast.parse(inspect.getsource(module))
    modfns = {n.name: n for n in mod.body if isinstance(n, ast.FunctionDef)}
    extra = []
    for fn in fns:
        for c in _calls(fn):
            if isinstance(c.func, ast.Name) and c.func.id in modfns and modfns[c.func.id] not in extra:
                extra.append(modfns[c.func.id])
    return fns + extra


def _ast_reader_facts():
    """what the source of CsvfileReader says (any method of the class, module-level helpers one level): the newline
    argument of open(), the size of the sample read for the dialect detection"""
    from flow.record.adapter import csvfile
    scope = _class_scope(csvfile.CsvfileReader, csvfile)
    opens = [c for fn in scope for c in _calls(fn) if isinstance(c.func, ast.Name) and c.func.id == "open"]
    if len(opens) != 1:
        raise Unsupported("CsvfileReader: expected one open() call")
    nl = _kw(opens[0], "newline")
    if nl is None and len(opens[0].args) > 5:
        nl = opens[0].args[5]
    newline = ("set", nl.value) if (nl is not None and isinstance(nl, ast.Constant)) else ("set", None) if nl is None else None
    reads = [c for fn in scope for c in _calls(fn) if isinstance(c.func, ast.Attribute) and c.func.attr == "read" and len(c.args) == 1
             and isinstance(c.args[0], ast.Constant) and isinstance(c.args[0].value, int)]
    if len(reads) != 1 or newline is None:
        raise Unsupported("CsvfileReader: sample size / newline argument not recognised")
    return dict(sample=int(reads[0].args[0].value), newline=newline)


def reader_facts(notes):
    """observed: files with a header of field names are read in the writer's dialect under normalised names, fields=
    replaces the header, the file is opened with newline='', <sample> characters go to the dialect detection"""
    obs = observe.observe_reader()
    try:
        src = _ast_reader_facts()
    except Unsupported as e:
        src = None
        notes.append("CsvfileReader: source shape not recognised (%s); observed behaviour used" % " ".join(str(e).split())[:160])
    for k in ("sample", "newline"):
        if obs.get(k) is None:
            if src is None:
                raise Unsupported("CsvfileReader: %s neither observable (the module does not call open()/read(n) through its "
                                  "own namespace) nor recognised in the source" % k)
            obs[k] = src[k]
            notes.append("CsvfileReader: %s not observable; read from the source" % k)
        elif src is not None and src[k] != obs[k]:
            raise Unsupported("CsvfileReader: the source says %s = %r but the reader behaves as %r" % (k, src[k], obs[k]))
    if obs["newline"] != ("set", ""):
        raise Unsupported("CsvfileReader: file is not opened with newline='' (%r)" % (obs["newline"],))
    return obs


def _cross_check(name, obs, recogniser, keys, notes):
    """observed facts vs what the source says: contradiction -> fail closed; not recognised -> note"""
    try:
        src = recogniser()
    except Unsupported as e:
        notes.append("%s: source shape not recognised (%s); observed behaviour used" % (name, " ".join(str(e).split())[:160]))
        return
    for k in keys:
        a, b = src.get(k), obs.get(k)
        if a is None:
            notes.append("%s: %s not recognised in the source; observed behaviour used" % (name, k))
            continue
        if k == "repl":
            a, b = sorted(a), sorted(b)
        if a != b:
            raise Unsupported("%s: the source says %s = %r but the writer behaves as %r" % (name, k, a, b))


def _csv_newline_check(obs, notes):
    """newline='' of the CSV output file: observed through a logging open() when the module calls open() through its own
    namespace, cross-checked with / else read from the source"""
    from flow.record.adapter import csvfile
    cdef = ast.parse(textwrap.dedent(inspect.getsource(csvfile.CsvfileWriter))).body[0]
    src = None
    for c in _calls(cdef):
        if isinstance(c.func, ast.Name) and c.func.id == "open":
            mode = c.args[1] if len(c.args) > 1 else _kw(c, "mode")
            if _const_str(mode) and "w" in mode.value:
                nl = _kw(c, "newline")
                if nl is None and len(c.args) > 5:
                    nl = c.args[5]
                val = ("set", nl.value) if isinstance(nl, ast.Constant) else ("set", None) if nl is None else None
                if val is None:
                    continue
                if src not in (None, val):
                    raise Unsupported("CsvfileWriter: two open() calls with different newline arguments")
                src = val
    seen = obs.get("newline")
    if seen is None and src is None:
        raise Unsupported("CsvfileWriter: the newline argument of the output file is neither observable nor recognised in the source")
    if seen is None:
        notes.append("CsvfileWriter: newline argument not observable; read from the source")
        seen = src
    elif src is not None and src != seen:
        raise Unsupported("CsvfileWriter: the source says newline=%r but the file is opened with %r" % (src, seen))
    if seen != ("set", ""):
        raise Unsupported("CsvfileWriter: the output file is not opened with newline='' (the csv module's line "
                          "terminators would be translated)")


def csv_facts(notes):
    obs = observe.observe_csv()
    _cross_check("CsvfileWriter", obs, _ast_csv_facts, ("default", "repl", "se"), notes)
    _csv_newline_check(obs, notes)
    return obs


def line_facts(notes):
    obs = observe.observe_line()
    _cross_check("LineWriter", obs, _ast_line_facts, ("hdr", "vkey", "sep", "end", "extra", "se"), notes)
    return obs


def text_facts(notes):
    obs = observe.observe_text()
    _cross_check("TextWriter", obs, _ast_text_facts, ("repl", "se", "end"), notes)
    return obs


def gen_text():
    notes = []
    c = csv_facts(notes)
    ln = line_facts(notes)
    tx = text_facts(notes)
    nm = norm_facts()
    rd = reader_facts(notes)
    rdo = rd
    pairs = lambda tbl: ctlist("(%s, %s)" % (ctext(a), ctext(b)) for a, b in tbl)  # noqa: E731
    out = HEADER
    out += "From Coq Require Import List Bool NArith.\nImport ListNotations.\nFrom FR Require Import Csv.\nOpen Scope N_scope.\n\n"
    out += "(* the writers' constants are read off the bytes the writers produce on probe records (factgen/_c20_observe.py) *)\n"
    for nt in notes:
        out += "(* note: %s *)\n" % nt.replace("*)", "* )").replace("(*", "( *").replace('"', "'")
    out += "(* flow/record/base.py RESERVED_FIELDS; adapter/csvfile.py CsvfileWriter; adapter/line.py LineWriter;\n"
    out += "   adapter/text.py TextWriter + REPLACE_LIST *)\n"
    out += "Definition gen_cfg : cfg := {|\n"
    out += "  g_reserved := %s;\n" % ctlist(ctext(k) for k in nm["reserved"])
    out += "  g_default_term := %s;\n" % ctext(c["default"])
    out += "  g_term_repl := %s;\n" % pairs(c["repl"])
    out += "  g_csv_se := %s;\n" % cbool(c["se"])
    out += "  g_hdr_pre := %s;\n  g_hdr_suf := %s;\n" % (ctext(ln["hdr"][0]), ctext(ln["hdr"][1]))
    out += "  g_line_sep := %s;\n  g_line_end := %s;\n" % (ctext(ln["sep"]), ctext(ln["end"]))
    out += "  g_vkey_mid := %s;\n  g_vkey_end := %s;\n" % (ctext(ln["vkey"][0]), ctext(ln["vkey"][1]))
    out += "  g_vwidth_extra := %d%%nat;\n" % ln["extra"]
    out += "  g_line_se := %s;\n" % cbool(ln["se"])
    out += "  g_text_repl := %s;\n" % pairs(tx["repl"])
    out += "  g_text_end := %s;\n" % ctext(tx["end"])
    out += "  g_text_se := %s\n|}.\n\n" % cbool(tx["se"])
    out += "(* DefaultMissing.__missing__(key) = <open> + key + <close> *)\n"
    out += "Definition gen_missing_open : text := %s.\nDefinition gen_missing_close : text := %s.\n\n" % (
        ctext(tx["missing"][0]), ctext(tx["missing"][1]))
    out += "(* base.normalize_fieldname *)\n"
    out += "Definition gen_ncfg : ncfg := {| n_chars := %s; n_sub := %s; n_prefix := %s |}.\n" % (
        ctlist(str(ord(ch)) for ch in nm["chars"]), ctext(nm["rep"]), ctext(nm["prefix"]))
    out += "(* base.RE_VALID_FIELD_NAME.pattern without its end anchor *)\n"
    out += "Definition gen_valid_field_name_body : text := %s.\n" % ctext(nm["valid"])
    out += "(* its end anchor: true = \\Z (end of text), false = $ (end of text, or before one trailing line feed) *)\n"
    out += "Definition gen_valid_field_name_end_is_Z : bool := %s.\n" % cbool(nm["valid_end_z"])
    out += "(* str.isdecimal of this interpreter (Unicode category Nd), as inclusive ranges *)\n"
    out += "Definition gen_decimal_ranges : list (N * N) :=\n  %s.\n" % ctlist("(%d, %d)" % (a, b) for a, b in nm["ranges"])
    out += "Definition gen_isdecimal : N -> bool := in_ranges gen_decimal_ranges.\n"
    out += "(* CsvfileReader: number of characters handed to csv.Sniffer *)\n"
    out += "Definition gen_sniff_sample : N := %d.\n" % rd["sample"]
    out += "(* observed on constructed files: a file whose first row consists of field names is read in the writer's dialect *)\n"
    out += "Definition gen_reader_excel_on_field_names : bool := %s.\n" % cbool(rdo["excel_on_names"])
    write_if_changed(GEN / "Gen_text.v", out)


GENERATORS = [gen_text]
