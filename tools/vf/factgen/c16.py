"""Facts for C16 (rdump output is the specified slice of the filtered input) -> coq/gen/Gen_rdump.v.

The facts are OBSERVED: vf/factgen/_c16_observe.py runs rdump.main, record_stream and iter_timestamped_records on
purpose-built probes (logging stubs in place of RecordWriter / record_stream / RecordFieldRewriter /
iter_timestamped_records / RecordReader, probe records that log assignments, the live argparse parser) and reads off

* the writer URI for every --mode x -F x -X x -f combination, with -w, with --split / --suffix-length: mode table,
  default URI, query parameter names / order / source option, the joining rule that explains all of them, split
  prefixes and keys, the usage error for --split without -w, `--split 0`;
* the skip/count window (which of the model's stop expressions explains the writes on a skip x count grid), the
  engine handed to record_stream with and without -n, which options install the rewriter and with which arguments,
  override guards and the order override / rewrite / write per record, what --multi-timestamp and -l write, that the
  writer is flushed and closed when a write raises, that the writes do not depend on the output options;
* record_stream: what an IOError / another exception while opening / reading a source does to the later sources,
  that the intact prefix is yielded lazily, that the selector reaches the reader;
* iter_timestamped_records: which reserved fields the expanded records take from the original;
* argparse defaults of --skip / --count / --split / --suffix-length and the --mode choices.

The `ast` recognisers below are a CROSS-CHECK: they follow private helpers called from main() one level and resolve
module constants; a recognised shape that contradicts the observation is a broken tie (Unsupported, fail closed), an
unrecognised spelling is only noted in the generated file.
"""
from __future__ import annotations

import ast
from pathlib import Path

from vf.coqlit import cbool, clist, cpair, cstr
from vf.factlib import GEN, HEADER, Unsupported, write_if_changed


def _dump(n):
    return ast.dump(n) if isinstance(n, ast.AST) else repr(n)


def _is_args(node, attr=None):
    """args.<attr>"""
    ok = isinstance(node, ast.Attribute) and isinstance(node.value, ast.Name) and node.value.id == "args"
    return ok and (attr is None or node.attr == attr)


def _const_str(n):
    return isinstance(n, ast.Constant) and isinstance(n.value, str)


def _call_name(call):
    if isinstance(call, ast.Call):
        if isinstance(call.func, ast.Name):
            return call.func.id
        if isinstance(call.func, ast.Attribute):
            return call.func.attr
    return None


class MainFacts:
    def __init__(self, tree, where):
        self.where = where
        self.main = None
        for n in tree.body:
            if isinstance(n, ast.FunctionDef) and n.name == "main":
                self.main = n
        if self.main is None:
            raise Unsupported("%s: no function main" % where)
        # single assignments to local names anywhere in main (except inside the try block's loop)
        self.assigns = {}
        for n in ast.walk(self.main):
            if isinstance(n, ast.Assign) and len(n.targets) == 1 and isinstance(n.targets[0], ast.Name):
                self.assigns.setdefault(n.targets[0].id, []).append(n.value)
            elif isinstance(n, (ast.AugAssign, ast.AnnAssign)) and isinstance(n.target, ast.Name):
                self.assigns.setdefault(n.target.id, []).append(None)

    def bad(self, node, what):
        raise Unsupported("%s line %s: %s" % (self.where, getattr(node, "lineno", "?"), what))

    def resolve(self, node, depth=0):
        """inline a local name that is assigned exactly once"""
        if isinstance(node, ast.Name) and depth < 6:
            vals = self.assigns.get(node.id)
            if vals and len(vals) == 1 and vals[0] is not None:
                return self.resolve(vals[0], depth + 1)
        return node

    def comma_split_of(self, node, attr):
        """args.<attr>.split(",") if args.<attr> else []"""
        node = self.resolve(node)
        ok = (isinstance(node, ast.IfExp) and _is_args(node.test, attr)
              and isinstance(node.body, ast.Call) and isinstance(node.body.func, ast.Attribute)
              and node.body.func.attr == "split" and _is_args(node.body.func.value, attr)
              and len(node.body.args) == 1 and _const_str(node.body.args[0]) and node.body.args[0].value == ","
              and isinstance(node.orelse, ast.List) and not node.orelse.elts)
        return ok

    # ---- argparse defaults
    def argparse_defaults(self):
        found = {}
        for n in ast.walk(self.main):
            if isinstance(n, ast.Call) and _call_name(n) == "add_argument":
                names = [a.value for a in n.args if _const_str(a)]
                kws = {k.arg: k.value for k in n.keywords}
                for opt in ("--skip", "--count", "--suffix-length", "--split"):
                    if opt in names:
                        found[opt] = kws
        out = {}
        for opt, want_default in (("--skip", True), ("--suffix-length", True), ("--count", False), ("--split", False)):
            kws = found.get(opt)
            if kws is None:
                raise Unsupported("%s: no add_argument(%r)" % (self.where, opt))
            t = kws.get("type")
            if not (isinstance(t, ast.Name) and t.id == "int"):
                raise Unsupported("%s: %s is not type=int" % (self.where, opt))
            if "action" in kws or "nargs" in kws or "const" in kws:
                raise Unsupported("%s: %s has action/nargs/const" % (self.where, opt))
            d = kws.get("default")
            if want_default:
                if not (isinstance(d, ast.Constant) and isinstance(d.value, int) and not isinstance(d.value, bool) and d.value >= 0):
                    raise Unsupported("%s: default of %s is not a natural number constant" % (self.where, opt))
                out[opt] = d.value
            else:
                if d is not None and not (isinstance(d, ast.Constant) and d.value is None):
                    raise Unsupported("%s: %s has a default other than None" % (self.where, opt))
        return out

    # ---- the record part
    def record_facts(self):
        out = {}
        tries = [s for s in self.main.body if isinstance(s, ast.Try)]
        if len(tries) != 1:
            raise Unsupported("%s: expected exactly one try statement at the top level of main, found %d" % (self.where, len(tries)))
        tr = tries[0]
        if tr.handlers or tr.orelse:
            self.bad(tr, "the try statement has except/else clauses")
        # finally: record_writer.__exit__()
        if not tr.body or not (isinstance(tr.body[0], ast.Assign) and len(tr.body[0].targets) == 1
                               and isinstance(tr.body[0].targets[0], ast.Name)
                               and isinstance(tr.body[0].value, ast.Call) and _call_name(tr.body[0].value) == "RecordWriter"
                               and len(tr.body[0].value.args) == 1 and isinstance(tr.body[0].value.args[0], ast.Name)
                               and tr.body[0].value.args[0].id == "uri" and not tr.body[0].value.keywords):
            self.bad(tr, "the try block does not start with <writer> = RecordWriter(uri)")
        wn = tr.body[0].targets[0].id
        fin = tr.finalbody
        out["finally_exit"] = (len(fin) == 1 and isinstance(fin[0], ast.Expr) and isinstance(fin[0].value, ast.Call)
                               and isinstance(fin[0].value.func, ast.Attribute)
                               and fin[0].value.func.attr in ("__exit__", "close")
                               and isinstance(fin[0].value.func.value, ast.Name) and fin[0].value.func.value.id == wn)
        if fin and not out["finally_exit"]:
            self.bad(fin[0], "unrecognised finally block")
        if out["finally_exit"] and fin[0].value.func.attr == "close":
            self.bad(fin[0], "finally calls close() without flush()")
        rest = tr.body[1:]
        after = []
        if not fin:
            # the writer may be closed after the loop instead (then an exception skips it)
            idx = self.main.body.index(tr)
            after = self.main.body[idx + 1:]
        if len(rest) != 1 or not isinstance(rest[0], ast.For):
            # tolerate `<writer>.__exit__()` right after the loop inside the try when there is no finally
            if len(rest) == 2 and isinstance(rest[0], ast.For) and not fin and ast.unparse(rest[1]) == "%s.__exit__()" % wn:
                rest = rest[:1]
            else:
                self.bad(tr, "the try block is not <writer> = RecordWriter(uri); for ...")
        loop = rest[0]
        if loop.orelse:
            self.bad(loop, "for ... else")
        # for count, rec in enumerate(record_iterator, start=1)
        it = self.resolve(loop.iter)
        if not (isinstance(it, ast.Call) and _call_name(it) == "enumerate" and len(it.args) == 1
                and isinstance(loop.target, ast.Tuple) and len(loop.target.elts) == 2
                and all(isinstance(e, ast.Name) for e in loop.target.elts)):
            self.bad(loop, "the loop is not `for <count>, <rec> in enumerate(<iterator>, ...)`")
        rec = loop.target.elts[1].id
        sl = self.resolve(it.args[0])
        # islice(record_stream(args.src, selector), args.skip, islice_stop)
        if not (isinstance(sl, ast.Call) and _call_name(sl) == "islice" and len(sl.args) == 3 and not sl.keywords):
            self.bad(loop, "the record iterator is not islice(<stream>, <start>, <stop>)")
        stream, start, stop = sl.args
        stream = self.resolve(stream)
        if not (isinstance(stream, ast.Call) and _call_name(stream) == "record_stream" and len(stream.args) == 2
                and not stream.keywords and _is_args(stream.args[0], "src")):
            self.bad(loop, "islice's first argument is not record_stream(args.src, <selector>)")
        if not _is_args(self.resolve(start), "skip"):
            self.bad(loop, "islice's start is not args.skip")
        out.update(self.stop_shape(self.resolve(stop), loop))
        # selector = make_selector(args.selector, not args.no_compile)
        ms = self.resolve(stream.args[1])
        if not (isinstance(ms, ast.Call) and _call_name(ms) == "make_selector" and 1 <= len(ms.args) <= 2
                and _is_args(ms.args[0], "selector")):
            self.bad(loop, "the selector is not make_selector(args.selector, ...)")
        flag = ms.args[1] if len(ms.args) == 2 else None
        for k in ms.keywords:
            if k.arg == "force_compiled" and flag is None:
                flag = k.value
            else:
                self.bad(loop, "make_selector keyword %s" % k.arg)
        flag = self.resolve(flag) if flag is not None else None
        if isinstance(flag, ast.UnaryOp) and isinstance(flag.op, ast.Not) and _is_args(flag.operand, "no_compile"):
            out["compile_flag"] = "FlagNotNoCompile"
        elif _is_args(flag, "no_compile"):
            out["compile_flag"] = "FlagNoCompile"
        else:
            self.bad(loop, "second argument of make_selector is neither `not args.no_compile` nor `args.no_compile`")
        # rewriter installation
        out["rewriter_cond"], rw = self.rewriter_facts()
        # loop body
        steps = []     # ("override", field, guard) | ("rewrite",)
        tail = None
        for st in loop.body:
            if tail is not None:
                self.bad(st, "statement after the write/list step")
            o = self.override_step(st, rec)
            if o:
                steps.append(o)
                continue
            if isinstance(st, ast.If) and isinstance(st.test, ast.Name) and st.test.id == rw and not st.orelse \
                    and len(st.body) == 1 and ast.unparse(st.body[0]) == "%s = %s.rewrite(%s)" % (rec, rw, rec):
                steps.append(("rewrite",))
                continue
            if isinstance(st, ast.If) and _is_args(st.test, "list") and st.orelse:
                tail = st
                continue
            self.bad(st, "unrecognised per-record step: %s" % ast.unparse(st)[:100])
        if tail is None:
            self.bad(loop, "no `if args.list: ... else: ...` step")
        kinds = [s[0] for s in steps]
        if kinds.count("rewrite") != 1:
            self.bad(loop, "the rewriter is applied %d times" % kinds.count("rewrite"))
        ri = kinds.index("rewrite")
        ovs = [s for s in steps if s[0] == "override"]
        if all(i < ri for i, s in enumerate(steps) if s[0] == "override"):
            out["order"] = "OverrideThenRewrite"
        elif all(i > ri for i, s in enumerate(steps) if s[0] == "override"):
            out["order"] = "RewriteThenOverride"
        else:
            self.bad(loop, "overrides on both sides of the rewriter")
        out["override_guards"] = [(f, g) for _, f, g in ovs]
        # list branch: must not write
        for n in ast.walk(ast.Module(body=tail.body, type_ignores=[])):
            if isinstance(n, ast.Attribute) and isinstance(n.value, ast.Name) and n.value.id == wn:
                self.bad(tail, "the list branch uses the writer")
        # write branch
        wb = tail.orelse
        write_rec = "%s.write(%s)" % (wn, rec)
        if len(wb) == 1 and isinstance(wb[0], ast.If) and _is_args(wb[0].test, "multi_timestamp"):
            m = wb[0]
            if not (len(m.orelse) == 1 and ast.unparse(m.orelse[0]) == write_rec):
                self.bad(m, "the non-multi-timestamp branch is not a single %s" % write_rec)
            out["multi"] = self.multi_shape(m.body, wn, rec, m)
        else:
            self.bad(tail, "the write branch is not `if args.multi_timestamp: ... else: %s`" % write_rec)
        # dataflow: which options the loop reads
        la = []
        for n in ast.walk(tr):
            if _is_args(n) and n.attr not in la:
                la.append(n.attr)
        out["loop_args"] = la
        # the rest of main after the try must not write
        for st in after:
            if any(isinstance(n, ast.Name) and n.id == wn for n in ast.walk(st)) and ast.unparse(st) != "%s.__exit__()" % wn:
                self.bad(st, "writer used after the try statement")
        return out

    def multi_shape(self, body, wn, rec, node):
        if not body or not isinstance(body[0], ast.For):
            self.bad(node, "multi-timestamp branch does not start with a for loop")
        f = body[0]
        if not (isinstance(f.target, ast.Name) and isinstance(f.iter, ast.Call) and _call_name(f.iter) == "iter_timestamped_records"
                and len(f.iter.args) == 1 and isinstance(f.iter.args[0], ast.Name) and f.iter.args[0].id == rec
                and len(f.body) == 1 and ast.unparse(f.body[0]) == "%s.write(%s)" % (wn, f.target.id) and not f.orelse):
            self.bad(f, "multi-timestamp loop is not `for x in iter_timestamped_records(%s): %s.write(x)`" % (rec, wn))
        if len(body) == 1:
            return "MultiExpandOnly"
        if len(body) == 2 and ast.unparse(body[1]) == "%s.write(%s)" % (wn, rec):
            return "MultiExpandAndOriginal"
        self.bad(node, "unrecognised multi-timestamp branch")

    def override_step(self, st, rec):
        """if args.record_source is not None: rec._source = args.record_source"""
        if not (isinstance(st, ast.If) and not st.orelse and len(st.body) == 1 and isinstance(st.body[0], ast.Assign)):
            return None
        a = st.body[0]
        if not (len(a.targets) == 1 and isinstance(a.targets[0], ast.Attribute) and isinstance(a.targets[0].value, ast.Name)
                and a.targets[0].value.id == rec and _is_args(a.value)):
            return None
        field, opt = a.targets[0].attr, a.value.attr
        want = {"_source": "record_source", "_classification": "record_classification"}
        if want.get(field) != opt:
            self.bad(st, "override sets %s from args.%s" % (field, opt))
        t = st.test
        if _is_args(t, opt):
            return ("override", field, "GuardTruthy")
        if isinstance(t, ast.Compare) and len(t.ops) == 1 and isinstance(t.ops[0], ast.IsNot) and _is_args(t.left, opt) \
                and isinstance(t.comparators[0], ast.Constant) and t.comparators[0].value is None:
            return ("override", field, "GuardNotNone")
        self.bad(st, "override guard not recognised")

    def stop_shape(self, stop, node):
        """(args.count + args.skip) if args.count else None"""
        if not (isinstance(stop, ast.IfExp) and isinstance(stop.orelse, ast.Constant) and stop.orelse.value is None):
            self.bad(node, "islice stop is not `<expr> if <guard> else None`: %s" % ast.unparse(stop)[:80])
        t = stop.test
        if _is_args(t, "count"):
            guard = "GuardTruthy"
        elif isinstance(t, ast.Compare) and len(t.ops) == 1 and isinstance(t.ops[0], ast.IsNot) and _is_args(t.left, "count") \
                and isinstance(t.comparators[0], ast.Constant) and t.comparators[0].value is None:
            guard = "GuardNotNone"
        else:
            self.bad(node, "islice stop guard not recognised: %s" % ast.unparse(t)[:80])
        e = stop.body
        if isinstance(e, ast.BinOp) and isinstance(e.op, ast.Add) and (
                (_is_args(e.left, "count") and _is_args(e.right, "skip")) or (_is_args(e.left, "skip") and _is_args(e.right, "count"))):
            expr = "StopCountPlusSkip"
        elif _is_args(e, "count"):
            expr = "StopCountOnly"
        else:
            self.bad(node, "islice stop expression not recognised: %s" % ast.unparse(e)[:80])
        return dict(stop_guard=guard, stop_expr=expr)

    def rewriter_facts(self):
        """record_field_rewriter = None
           if fields or fields_to_exclude or args.exec_expression:
               record_field_rewriter = RecordFieldRewriter(fields, fields_to_exclude, args.exec_expression)"""
        for st in self.main.body:
            if isinstance(st, ast.If) and len(st.body) == 1 and isinstance(st.body[0], ast.Assign) and not st.orelse \
                    and isinstance(st.body[0].value, ast.Call) and _call_name(st.body[0].value) == "RecordFieldRewriter":
                a = st.body[0]
                call = a.value
                if not (len(a.targets) == 1 and isinstance(a.targets[0], ast.Name)):
                    self.bad(st, "rewriter assignment target")
                rw = a.targets[0].id
                # the other assignment must be `= None`
                others = [v for v in self.assigns.get(rw, []) if v is not call]
                if not (len(others) == 1 and isinstance(others[0], ast.Constant) and others[0].value is None):
                    self.bad(st, "%s is not initialised to None exactly once" % rw)
                if call.keywords or len(call.args) != 3:
                    self.bad(st, "RecordFieldRewriter is not called with three positional arguments")

                def src_of(n):
                    if isinstance(n, ast.Name) and self.comma_split_of(n, "fields"):
                        return "CFields"
                    if isinstance(n, ast.Name) and self.comma_split_of(n, "exclude"):
                        return "CExclude"
                    if _is_args(n, "exec_expression"):
                        return "CExpr"
                    self.bad(st, "unrecognised rewriter operand: %s" % ast.unparse(n))
                if [src_of(x) for x in call.args] != ["CFields", "CExclude", "CExpr"]:
                    self.bad(st, "RecordFieldRewriter arguments are not (fields, exclude, expression)")
                t = st.test
                vals = t.values if isinstance(t, ast.BoolOp) and isinstance(t.op, ast.Or) else [t]
                return [src_of(v) for v in vals], rw
        raise Unsupported("%s: no `if ...: <rw> = RecordFieldRewriter(...)` statement" % self.where)


def stream_facts():
    import flow.record.stream as stream_mod
    where = "flow/record/stream.py record_stream"
    tree = ast.parse(Path(stream_mod.__file__).read_text())
    fn = None
    for n in tree.body:
        if isinstance(n, ast.FunctionDef) and n.name == "record_stream":
            fn = n
    if fn is None:
        raise Unsupported("%s: not found" % where)
    params = [a.arg for a in fn.args.args]
    if len(params) != 2:
        raise Unsupported("%s: expected (sources, selector)" % where)
    loops = [s for s in fn.body if isinstance(s, ast.For)]
    others = [s for s in fn.body if not isinstance(s, ast.For)]
    for s in others:
        # docstring / log.debug(...)
        if isinstance(s, ast.Expr) and (isinstance(s.value, ast.Constant) or (isinstance(s.value, ast.Call) and isinstance(s.value.func, ast.Attribute)
                                                                             and isinstance(s.value.func.value, ast.Name) and s.value.func.value.id == "log")):
            continue
        raise Unsupported("%s line %d: unrecognised statement" % (where, s.lineno))
    if len(loops) != 1:
        raise Unsupported("%s: expected one loop over the sources" % where)
    loop = loops[0]
    if not (isinstance(loop.target, ast.Name) and isinstance(loop.iter, ast.Name) and loop.iter.id == params[0] and not loop.orelse):
        raise Unsupported("%s: the loop is not `for <src> in %s`" % (where, params[0]))
    src = loop.target.id
    tries = [s for s in loop.body if isinstance(s, ast.Try)]
    if len(tries) != 1 or loop.body[-1] is not tries[0]:
        raise Unsupported("%s: the loop body does not end with its single try statement" % where)
    for s in loop.body[:-1]:
        # `if src in ("-", ""): print(...)` and `reader = "RecordReader"`
        if isinstance(s, ast.If) and not s.orelse and all(isinstance(b, ast.Expr) and _call_name(b.value) == "print" for b in s.body):
            continue
        if isinstance(s, ast.Assign) and isinstance(s.value, ast.Constant):
            continue
        raise Unsupported("%s line %d: unrecognised statement before the try" % (where, s.lineno))
    tr = tries[0]
    if tr.orelse or tr.finalbody:
        raise Unsupported("%s: try has else/finally" % where)
    # body: reader = RecordReader(src, selector=selector); for rec in reader: yield rec; reader.close()
    b = tr.body
    ok = (len(b) in (2, 3) and isinstance(b[0], ast.Assign) and isinstance(b[0].value, ast.Call)
          and _call_name(b[0].value) == "RecordReader" and len(b[0].value.args) == 1
          and isinstance(b[0].value.args[0], ast.Name) and b[0].value.args[0].id == src
          and [k.arg for k in b[0].value.keywords] == ["selector"]
          and isinstance(b[0].value.keywords[0].value, ast.Name) and b[0].value.keywords[0].value.id == params[1]
          and isinstance(b[0].targets[0], ast.Name))
    if not ok:
        raise Unsupported("%s: try body does not start with <reader> = RecordReader(<src>, selector=<selector>)" % where)
    rn = b[0].targets[0].id
    y = b[1]
    per_record = None
    if isinstance(y, ast.For) and isinstance(y.iter, ast.Name) and y.iter.id == rn and isinstance(y.target, ast.Name) \
            and len(y.body) == 1 and isinstance(y.body[0], ast.Expr) and isinstance(y.body[0].value, ast.Yield) \
            and isinstance(y.body[0].value.value, ast.Name) and y.body[0].value.value.id == y.target.id and not y.orelse:
        per_record = True
    elif isinstance(y, ast.Expr) and isinstance(y.value, ast.YieldFrom):
        v = y.value.value
        if isinstance(v, ast.Name) and v.id == rn:
            per_record = True
        elif isinstance(v, ast.Call) and _call_name(v) in ("list", "tuple") and len(v.args) == 1 and isinstance(v.args[0], ast.Name) and v.args[0].id == rn:
            per_record = False
    if per_record is None:
        raise Unsupported("%s: the records are not yielded by `for rec in <reader>: yield rec`" % where)
    if len(b) == 3 and ast.unparse(b[2]) != "%s.close()" % rn:
        raise Unsupported("%s: unrecognised statement after the yield loop" % where)
    handlers = []
    known = ("IOError", "OSError", "EnvironmentError", "Exception", "BaseException", "KeyboardInterrupt")
    for h in tr.handlers:
        if h.type is None:
            names = ["BaseException"]
        elif isinstance(h.type, ast.Name):
            names = [h.type.id]
        elif isinstance(h.type, ast.Tuple) and all(isinstance(e, ast.Name) for e in h.type.elts):
            names = [e.id for e in h.type.elts]
        else:
            raise Unsupported("%s line %d: except clause type" % (where, h.lineno))
        act = "Continue"
        for s in h.body:
            if isinstance(s, ast.Expr) and isinstance(s.value, ast.Call) and isinstance(s.value.func, ast.Attribute) \
                    and isinstance(s.value.func.value, ast.Name) and s.value.func.value.id == "log":
                continue
            if isinstance(s, (ast.Pass, ast.Continue)):
                continue
            if isinstance(s, ast.Raise):
                act = "Propagate"
                continue
            if isinstance(s, (ast.Break, ast.Return)):
                act = "Stop"
                continue
            raise Unsupported("%s line %d: unrecognised statement in except clause" % (where, s.lineno))
        for nme in names:
            if nme not in known:
                raise Unsupported("%s line %d: exception class %s is not modelled" % (where, h.lineno, nme))
            handlers.append((nme, act))
    return dict(handlers=handlers, yield_per_record=per_record)


def expand_facts():
    """flow/record/base.py iter_timestamped_records: which reserved fields the loop copies from the original record
    onto every expanded record, between `record = extend_record(ts_record, [record], ...)` and `yield record`."""
    import flow.record.base as base_mod
    where = "flow/record/base.py iter_timestamped_records"
    tree = ast.parse(Path(base_mod.__file__).read_text())
    fn = None
    for n in tree.body:
        if isinstance(n, ast.FunctionDef) and n.name == "iter_timestamped_records":
            fn = n
    if fn is None or len(fn.args.args) != 1:
        raise Unsupported("%s: not found / not one parameter" % where)
    param = fn.args.args[0].arg
    loops = [st for st in fn.body if isinstance(st, ast.For)]
    if len(loops) != 1 or fn.body[-1] is not loops[0] or loops[0].orelse:
        raise Unsupported("%s: the function does not end with its single for loop" % where)
    loop = loops[0]
    # names that hold the original record: the parameter before the loop rebinds it, and `x = <param>` before the loop
    orig = set()
    for st in fn.body[:-1]:
        if isinstance(st, ast.Assign) and len(st.targets) == 1 and isinstance(st.targets[0], ast.Name) \
                and isinstance(st.value, ast.Name) and st.value.id == param:
            orig.add(st.targets[0].id)
    body = loop.body
    if len(body) < 3:
        raise Unsupported("%s: loop body too short" % where)
    ext, yl = body[1], body[-1]
    if not (isinstance(ext, ast.Assign) and len(ext.targets) == 1 and isinstance(ext.targets[0], ast.Name)
            and isinstance(ext.value, ast.Call) and _call_name(ext.value) == "extend_record"):
        raise Unsupported("%s line %d: second statement of the loop is not <rec> = extend_record(...)" % (where, ext.lineno))
    rn = ext.targets[0].id
    if not (isinstance(yl, ast.Expr) and isinstance(yl.value, ast.Yield) and isinstance(yl.value.value, ast.Name)
            and yl.value.value.id == rn):
        raise Unsupported("%s line %d: the loop does not end with `yield %s`" % (where, yl.lineno, rn))
    if rn in orig:
        raise Unsupported("%s: the expanded record rebinds the name that holds the original" % where)
    copied = []
    for st in body[2:-1]:
        ok = (isinstance(st, ast.Assign) and len(st.targets) == 1 and isinstance(st.targets[0], ast.Attribute)
              and isinstance(st.targets[0].value, ast.Name) and st.targets[0].value.id == rn
              and isinstance(st.value, ast.Attribute) and isinstance(st.value.value, ast.Name)
              and st.value.value.id in orig and st.value.attr == st.targets[0].attr
              and st.targets[0].attr in ("_source", "_classification", "_generated"))
        if not ok:
            raise Unsupported("%s line %d: unrecognised statement between extend_record and yield: %s" % (
                where, st.lineno, ast.unparse(st)[:80]))
        if st.targets[0].attr not in copied:
            copied.append(st.targets[0].attr)
    return copied


# ------------------------------------------------------------------------------------------------------
# tolerant recognisers used only as a cross-check of the observed URI facts

def _scope_functions(tree, main):
    """main plus the module-level functions main calls by name (one level)"""
    fns = {n.name: n for n in tree.body if isinstance(n, ast.FunctionDef)}
    called = []
    for n in ast.walk(main):
        if isinstance(n, ast.Call) and isinstance(n.func, ast.Name) and n.func.id in fns and n.func.id != main.name:
            if fns[n.func.id] not in called:
                called.append(fns[n.func.id])
    return [main] + called


def _module_consts(tree):
    out = {}
    for n in tree.body:
        if isinstance(n, ast.Assign) and len(n.targets) == 1 and isinstance(n.targets[0], ast.Name):
            out[n.targets[0].id] = n.value
    return out


def uri_shapes(tree, main):
    """What the source says about the writer URI, as far as it is spelled in a known way: any subset of
    join / table / default_uri / split_noscheme / split_scheme / split_keys."""
    consts = _module_consts(tree)
    scope = _scope_functions(tree, main)
    nodes = [n for f in scope for n in ast.walk(f)]

    def val(n):
        if isinstance(n, ast.Name) and n.id in consts:
            return consts[n.id]
        return n

    def is_sep_test(t):
        return (isinstance(t, ast.Attribute) and t.attr == "query" and isinstance(t.value, ast.Call)
                and _call_name(t.value) == "urlparse" and len(t.value.args) == 1)

    out = {}
    joins = set()
    for n in nodes:
        if isinstance(n, ast.BinOp) and isinstance(n.op, ast.Add) and isinstance(n.left, ast.IfExp) and is_sep_test(n.left.test) \
                and _const_str(n.left.body) and _const_str(n.left.orelse) and (n.left.body.value, n.left.orelse.value) == ("&", "?"):
            joins.add("JoinParen")
        if isinstance(n, ast.IfExp) and is_sep_test(n.test) and _const_str(n.body) and n.body.value == "&" \
                and isinstance(n.orelse, ast.BinOp) and isinstance(n.orelse.op, ast.Add) and _const_str(n.orelse.left) \
                and n.orelse.left.value == "?":
            joins.add("JoinUnparen")
        if isinstance(n, ast.Assign) and isinstance(n.value, ast.IfExp) and is_sep_test(n.value.test) and _const_str(n.value.body) \
                and _const_str(n.value.orelse) and (n.value.body.value, n.value.orelse.value) == ("&", "?"):
            joins.add("JoinParen")      # the separator is computed on its own, then appended
    if len(joins) == 1:
        out["join"] = joins.pop()
    tables = []
    for n in nodes + list(consts.values()):
        n = val(n)
        if isinstance(n, ast.Dict) and n.keys and all(_const_str(k) for k in n.keys) and all(_const_str(v) and "://" in v.value for v in n.values):
            t = [(k.value, v.value) for k, v in zip(n.keys, n.values)]
            if t not in tables:
                tables.append(t)
    if len(tables) == 1:
        out["table"] = sorted(tables[0])
    defaults = set()
    for n in nodes:
        if isinstance(n, ast.BoolOp) and isinstance(n.op, ast.Or) and len(n.values) == 2 and _is_args(n.values[0], "writer") \
                and _const_str(val(n.values[1])):
            defaults.add(val(n.values[1]).value)
        if isinstance(n, ast.Call) and isinstance(n.func, ast.Attribute) and n.func.attr == "get" and len(n.args) == 2 \
                and _is_args(n.args[0], "mode") and _const_str(val(n.args[1])):
            defaults.add(val(n.args[1]).value)
    if len(defaults) == 1:
        out["default_uri"] = defaults.pop()

    def prefix_of(e):
        if isinstance(e, ast.JoinedStr) and len(e.values) == 2 and _const_str(e.values[0]) and isinstance(e.values[1], ast.FormattedValue):
            return e.values[0].value
        if isinstance(e, ast.BinOp) and isinstance(e.op, ast.Add) and _const_str(e.left):
            return e.left.value
        return None
    for n in nodes:
        if isinstance(n, ast.IfExp) and isinstance(n.test, ast.Compare) and len(n.test.ops) == 1 and _const_str(n.test.left) \
                and n.test.left.value == "://" and prefix_of(n.body) is not None and prefix_of(n.orelse) is not None:
            if isinstance(n.test.ops[0], ast.NotIn):
                out["split_noscheme"], out["split_scheme"] = prefix_of(n.body), prefix_of(n.orelse)
            elif isinstance(n.test.ops[0], ast.In):
                out["split_scheme"], out["split_noscheme"] = prefix_of(n.body), prefix_of(n.orelse)
        if isinstance(n, ast.Call) and isinstance(n.func, ast.Attribute) and n.func.attr == "update" and len(n.args) == 1 \
                and isinstance(n.args[0], ast.Dict) and len(n.args[0].keys) == 2 and all(_const_str(k) for k in n.args[0].keys):
            out["split_keys"] = (n.args[0].keys[0].value, n.args[0].keys[1].value)
    return out


def loop_args_of(main):
    """args.<x> read from the statement that opens the writer to the end of main()"""
    idx = None
    for i, st in enumerate(main.body):
        if any(isinstance(n, ast.Call) and _call_name(n) == "RecordWriter" for n in ast.walk(st)):
            idx = i
            break
    if idx is None:
        return None
    la = []
    for st in main.body[idx:]:
        for n in ast.walk(st):
            if _is_args(n) and n.attr not in la:
                la.append(n.attr)
    return la


def _handler_action(hs, exn):
    io_names = ("IOError", "OSError", "EnvironmentError", "Exception", "BaseException")
    other = ("Exception", "BaseException")
    for name, act in hs:
        if name in (io_names if exn == "io" else other):
            return act
    return "Propagate"


def gen_rdump():
    """Facts = OBSERVED behaviour of rdump.main / record_stream / iter_timestamped_records on probes
    (vf/factgen/_c16_observe.py); the ast recognisers are a cross-check: a recognised shape that contradicts the
    observation is a broken tie (Unsupported), an unrecognised spelling is noted in the generated file."""
    import flow.record.tools.rdump as rdump_mod
    from vf.factgen import _c16_observe as ob
    where = "flow/record/tools/rdump.py main"
    pf = ob.parser_facts()
    u = ob.uri_facts(pf["modes"])
    r = ob.record_facts()
    s = ob.stream_facts()
    em = ob.expand_facts()
    d = {"--skip": pf["--skip"], "--suffix-length": pf["--suffix-length"]}
    notes = []

    def contradiction(what, seen, observed):
        raise Unsupported("%s: the source spells %r but the observed behaviour is %r" % (what, seen, observed))

    def crosscheck(label, fn, pairs):
        """pairs: (key, observed value, normaliser)"""
        try:
            a = fn()
        except Unsupported as e:
            notes.append("%s: shape not recognised (%s); observed behaviour used" % (label, str(e)[:160]))
            return None
        for key, observed in pairs:
            if key in a and a[key] != observed:
                contradiction("%s / %s" % (label, key), a[key], observed)
        return a

    tree = ast.parse(Path(rdump_mod.__file__).read_text())
    loop_args = None
    try:
        mf = MainFacts(tree, where)
    except Unsupported as e:
        mf = None
        notes.append("rdump.main: %s; observed behaviour used" % e)
    if mf is not None:
        a = crosscheck("writer URI", lambda: uri_shapes(tree, mf.main),
                       [("join", u["join"]), ("table", sorted(u["table"])), ("default_uri", u["default_uri"]),
                        ("split_noscheme", u["split_noscheme"]), ("split_scheme", u["split_scheme"]), ("split_keys", u["split_keys"])])
        missing = [k for k in ("join", "table", "default_uri", "split_noscheme", "split_keys") if a is not None and k not in a]
        if missing:
            notes.append("writer URI: %s not recognised in the source; observed behaviour used" % ", ".join(missing))
        if a is not None and a.get("join") is None and u["join_ambiguous"]:
            notes.append("writer URI: no mode URI has a query, the two joining rules cannot be told apart")
        crosscheck("argparse defaults", mf.argparse_defaults, [("--skip", d["--skip"]), ("--suffix-length", d["--suffix-length"])])
        crosscheck("per-record steps of main", mf.record_facts,
                   [(k, r[k]) for k in ("stop_guard", "stop_expr", "compile_flag", "order", "rewriter_cond", "override_guards",
                                        "multi", "finally_exit")])
        loop_args = loop_args_of(mf.main)
    if loop_args is None:
        # the writes were observed to be the same for every output option (record_facts); nothing to list
        notes.append("rdump.main: the statement that opens the writer was not found; dataflow taken from the observed writes")
        loop_args = []
    ob.writes_independent_of_output(pf["modes"])

    def ast_stream():
        x = stream_facts()
        return dict(io=_handler_action(x["handlers"], "io"), other=_handler_action(x["handlers"], "other"), per=x["yield_per_record"])
    crosscheck("record_stream", ast_stream, [("io", s["handlers"][0][1]), ("other", s["handlers"][1][1]), ("per", s["yield_per_record"])])
    crosscheck("iter_timestamped_records", lambda: dict(copied=sorted(expand_facts())), [("copied", sorted(em))])

    for k, v in u["table"] + [("", u["default_uri"])]:
        if not all(32 <= ord(c) < 127 for c in k + v):
            raise Unsupported("%s: non-ASCII mode table entry" % where)
    out = HEADER
    out += "From Coq Require Import List Bool String NArith.\nImport ListNotations.\nFrom FR Require Import Rdump.\nOpen Scope string_scope.\n\n"
    out += "(* flow/record/tools/rdump.py main(), flow/record/stream.py record_stream(), flow/record/base.py\n"
    out += "   iter_timestamped_records(): OBSERVED on probes (logging stubs for RecordWriter / record_stream / RecordFieldRewriter /\n"
    out += "   iter_timestamped_records / RecordReader, probe records), cross-checked against the source's shape where recognised *)\n"
    for nte in notes:
        out += "(* note: %s *)\n" % nte.replace("*)", "* )").replace("(*", "( *")
    out += "Definition rdump_facts : facts :=\n  {|\n"
    fields = [
        ("f_default_uri", cstr(u["default_uri"])),
        ("f_mode_to_uri", clist([cpair(cstr(k), cstr(v)) for k, v in u["table"]], sep=";\n       ")),
        ("f_qparams", clist([cpair(cstr(k), q) for k, q in u["qparams"]])),
        ("f_join", u["join"]),
        ("f_stop_guard", r["stop_guard"]),
        ("f_stop_expr", r["stop_expr"]),
        ("f_default_skip", "%d%%nat" % d["--skip"]),
        ("f_default_suffix_length", "%d%%N" % d["--suffix-length"]),
        ("f_handlers", clist([cpair(cstr(n), a) for n, a in s["handlers"]])),
        ("f_yield_per_record", cbool(s["yield_per_record"])),
        ("f_finally_exit", cbool(r["finally_exit"])),
        ("f_order", r["order"]),
        ("f_rewriter_cond", clist(r["rewriter_cond"])),
        ("f_override_guards", clist([cpair(cstr(f), g) for f, g in r["override_guards"]])),
        ("f_compile_flag", r["compile_flag"]),
        ("f_multi", r["multi"]),
        ("f_split_noscheme", cstr(u["split_noscheme"])),
        ("f_split_scheme", cstr(u["split_scheme"])),
        ("f_split_keys", cpair(cstr(u["split_keys"][0]), cstr(u["split_keys"][1]))),
        ("f_loop_args", clist([cstr(a) for a in loop_args])),
        ("f_expand_meta", clist([cstr(a) for a in em])),
    ]
    out += ";\n".join("    %s := %s" % kv for kv in fields) + "\n  |}.\n"
    write_if_changed(GEN / "Gen_rdump.v", out)


GENERATORS = [gen_rdump]
