"""Facts for C16 (rdump output is the specified slice of the filtered input) -> coq/gen/Gen_rdump.v.

Everything here is a *shape* of flow/record/tools/rdump.py main() or flow/record/stream.py record_stream(), read
with `ast` (the parser is built inside main(), so nothing can be read from a live object):

* `uri = args.writer or <default>`, the `mode_to_uri` table, the query parameters (names, order, source option),
  the comprehension that drops empty values, and the joining rule of the `uri +=` statement -- parenthesised
  conditional (correct) versus `"&" if ... else "?" + query` (the precedence bug);
* the --split rewriting of the URI (prefixes, keys, the guard and the usage error);
* the islice stop expression and its guard, the arguments of islice / record_stream / make_selector;
* the per-record steps between `try:` and `finally:` (overrides, rewriter, list mode, multi-timestamp, write), their
  order, the condition under which the rewriter is installed, and that `record_writer.__exit__()` is the `finally`;
* argparse defaults of --skip / --count / --suffix-length;
* iter_timestamped_records (base.py): which reserved fields are copied from the original record onto each expanded
  record;
* record_stream: the loop over the sources, that records are yielded while the source is read, the `except`
  clauses in order and what each does with the loop (continue / stop / propagate).

Local variables are resolved through their (single) assignment, so renaming one is harmless.  Fail closed: any
statement the recognisers below do not know raises Unsupported.
"""
from __future__ import annotations

import ast
from pathlib import Path

from vf.coqlit import cbool, clist, cpair, cstr
from vf.factlib import GEN, HEADER, Unsupported, write_if_changed


def _dump(n):
    return ast.dump(n) if isinstance(n, ast.AST) else repr(n)


def _is_args(node, attr=None):
    """args.<attr>"""
    ok = isinstance(node, ast.Attribute) and isinstance(node.value, ast.Name) and node.value.id == "args"
    return ok and (attr is None or node.attr == attr)


def _const_str(n):
    return isinstance(n, ast.Constant) and isinstance(n.value, str)


def _call_name(call):
    if isinstance(call, ast.Call):
        if isinstance(call.func, ast.Name):
            return call.func.id
        if isinstance(call.func, ast.Attribute):
            return call.func.attr
    return None


class MainFacts:
    def __init__(self, tree, where):
        self.where = where
        self.main = None
        for n in tree.body:
            if isinstance(n, ast.FunctionDef) and n.name == "main":
                self.main = n
        if self.main is None:
            raise Unsupported("%s: no function main" % where)
        # single assignments to local names anywhere in main (except inside the try block's loop)
        self.assigns = {}
        for n in ast.walk(self.main):
            if isinstance(n, ast.Assign) and len(n.targets) == 1 and isinstance(n.targets[0], ast.Name):
                self.assigns.setdefault(n.targets[0].id, []).append(n.value)
            elif isinstance(n, (ast.AugAssign, ast.AnnAssign)) and isinstance(n.target, ast.Name):
                self.assigns.setdefault(n.target.id, []).append(None)

    def bad(self, node, what):
        raise Unsupported("%s line %s: %s" % (self.where, getattr(node, "lineno", "?"), what))

    def resolve(self, node, depth=0):
        """inline a local name that is assigned exactly once"""
        if isinstance(node, ast.Name) and depth < 6:
            vals = self.assigns.get(node.id)
            if vals and len(vals) == 1 and vals[0] is not None:
                return self.resolve(vals[0], depth + 1)
        return node

    # ---- option -> which command-line text
    def text_option(self, node):
        """args.fields / args.exclude / args.format"""
        node = self.resolve(node)
        for attr, q in (("fields", "QFields"), ("exclude", "QExclude"), ("format", "QFormat")):
            if _is_args(node, attr):
                return q
        self.bad(node, "query parameter value is not args.fields/args.exclude/args.format: %s" % _dump(node))

    def comma_split_of(self, node, attr):
        """args.<attr>.split(",") if args.<attr> else []"""
        node = self.resolve(node)
        ok = (isinstance(node, ast.IfExp) and _is_args(node.test, attr)
              and isinstance(node.body, ast.Call) and isinstance(node.body.func, ast.Attribute)
              and node.body.func.attr == "split" and _is_args(node.body.func.value, attr)
              and len(node.body.args) == 1 and _const_str(node.body.args[0]) and node.body.args[0].value == ","
              and isinstance(node.orelse, ast.List) and not node.orelse.elts)
        return ok

    # ---- the URI part
    def uri_facts(self):
        body = self.main.body
        out = {}
        idx = None
        for i, st in enumerate(body):
            if isinstance(st, ast.Assign) and len(st.targets) == 1 and isinstance(st.targets[0], ast.Name) \
                    and st.targets[0].id == "uri" and isinstance(st.value, ast.BoolOp) and isinstance(st.value.op, ast.Or):
                v = st.value
                if not (len(v.values) == 2 and _is_args(v.values[0], "writer") and _const_str(v.values[1])):
                    self.bad(st, "uri = ... is not `args.writer or <text>`")
                out["default_uri"] = v.values[1].value
                idx = i
                break
        if idx is None:
            raise Unsupported("%s: no `uri = args.writer or <text>` statement in main" % self.where)
        nxt = body[idx + 1]
        if not (isinstance(nxt, ast.If) and isinstance(nxt.test, ast.UnaryOp) and isinstance(nxt.test.op, ast.Not)
                and _is_args(nxt.test.operand, "writer") and not nxt.orelse):
            self.bad(nxt, "the statement after `uri = ...` is not `if not args.writer:`")
        table = qparams = None
        got_get = got_query = False
        join = None
        query_name = None
        table_name = qparams_name = None
        for st in nxt.body:
            if isinstance(st, ast.Assign) and len(st.targets) == 1 and isinstance(st.targets[0], ast.Name):
                tgt, v = st.targets[0].id, st.value
                if isinstance(v, ast.Dict) and all(_const_str(k) for k in v.keys) and all(_const_str(x) for x in v.values) and table is None and tgt != "uri":
                    table = [(k.value, x.value) for k, x in zip(v.keys, v.values)]
                    table_name = tgt
                    continue
                if isinstance(v, ast.Dict) and all(_const_str(k) for k in v.keys) and qparams is None and tgt != "uri":
                    qparams = [(k.value, self.text_option(x)) for k, x in zip(v.keys, v.values)]
                    qparams_name = tgt
                    continue
                if tgt == "uri" and isinstance(v, ast.Call) and isinstance(v.func, ast.Attribute) and v.func.attr == "get" \
                        and isinstance(v.func.value, ast.Name) and v.func.value.id == table_name and len(v.args) == 2 \
                        and _is_args(v.args[0], "mode") and isinstance(v.args[1], ast.Name) and v.args[1].id == "uri" \
                        and not v.keywords:
                    got_get = True
                    continue
                if isinstance(v, ast.Call) and _call_name(v) == "urlencode" and len(v.args) == 1 and not v.keywords and tgt != "uri":
                    c = v.args[0]
                    # {k: v for k, v in qparams.items() if v}
                    ok = (isinstance(c, ast.DictComp) and len(c.generators) == 1
                          and isinstance(c.generators[0].target, ast.Tuple) and len(c.generators[0].target.elts) == 2
                          and all(isinstance(e, ast.Name) for e in c.generators[0].target.elts))
                    if ok:
                        g = c.generators[0]
                        kn, vn = [e.id for e in g.target.elts]
                        ok = (isinstance(c.key, ast.Name) and c.key.id == kn and isinstance(c.value, ast.Name) and c.value.id == vn
                              and len(g.ifs) == 1 and isinstance(g.ifs[0], ast.Name) and g.ifs[0].id == vn
                              and isinstance(g.iter, ast.Call) and isinstance(g.iter.func, ast.Attribute)
                              and g.iter.func.attr == "items" and isinstance(g.iter.func.value, ast.Name)
                              and g.iter.func.value.id == qparams_name and not g.iter.args)
                    if not ok:
                        self.bad(st, "query is not urlencode({k: v for k, v in <qparams>.items() if v})")
                    got_query = True
                    query_name = tgt
                    continue
                if tgt == "uri" and isinstance(v, ast.BinOp) and isinstance(v.op, ast.Add) and join is None:
                    # uri = uri + X   /  uri = (uri + A) + B
                    join = self.join_shape(self.strip_uri(v, st), query_name, st)
                    continue
            if isinstance(st, ast.AugAssign) and isinstance(st.target, ast.Name) and st.target.id == "uri" \
                    and isinstance(st.op, ast.Add) and join is None:
                join = self.join_shape(st.value, query_name, st)
                continue
            self.bad(st, "unrecognised statement in the `if not args.writer:` block: %s" % ast.unparse(st)[:80])
        if table is None or qparams is None or not got_get or not got_query or join is None:
            self.bad(nxt, "the `if not args.writer:` block lacks one of: mode table, table lookup, query parameters, "
                          "urlencode, joining statement")
        out.update(table=table, qparams=qparams, join=join)
        # --split block
        sp = body[idx + 2]
        out.update(self.split_facts(sp))
        return out

    def strip_uri(self, binop, st):
        """`uri + X` -> X ;  `(uri + A) + B` -> BinOp(A + B) is NOT the same tree, so keep Python's own reading:
        (uri + A) + B appends A then B: equivalent to uri += (A) + B only when A is the conditional."""
        l, r = binop.left, binop.right
        if isinstance(l, ast.Name) and l.id == "uri":
            return r
        if isinstance(l, ast.BinOp) and isinstance(l.op, ast.Add) and isinstance(l.left, ast.Name) and l.left.id == "uri":
            return ast.BinOp(left=l.right, op=ast.Add(), right=r)
        self.bad(st, "uri = <expr> is not uri + ...")

    def _is_sep_test(self, test):
        """urlparse(uri).query"""
        return (isinstance(test, ast.Attribute) and test.attr == "query" and isinstance(test.value, ast.Call)
                and _call_name(test.value) == "urlparse" and len(test.value.args) == 1
                and isinstance(test.value.args[0], ast.Name) and test.value.args[0].id == "uri")

    def join_shape(self, rhs, query_name, st):
        def is_query(n):
            return isinstance(n, ast.Name) and n.id == query_name
        # (SEP if test else SEP2) + query
        if isinstance(rhs, ast.BinOp) and isinstance(rhs.op, ast.Add) and isinstance(rhs.left, ast.IfExp) and is_query(rhs.right):
            c = rhs.left
            if self._is_sep_test(c.test) and _const_str(c.body) and c.body.value == "&" and _const_str(c.orelse) and c.orelse.value == "?":
                return "JoinParen"
        # SEP if test else (SEP2 + query)
        if isinstance(rhs, ast.IfExp) and self._is_sep_test(rhs.test) and _const_str(rhs.body) and rhs.body.value == "&" \
                and isinstance(rhs.orelse, ast.BinOp) and isinstance(rhs.orelse.op, ast.Add) \
                and _const_str(rhs.orelse.left) and rhs.orelse.left.value == "?" and is_query(rhs.orelse.right):
            return "JoinUnparen"
        self.bad(st, "unrecognised joining rule: %s" % ast.unparse(st)[:100])

    def split_facts(self, sp):
        if not (isinstance(sp, ast.If) and _is_args(sp.test, "split") and not sp.orelse):
            self.bad(sp, "expected `if args.split:` after the `if not args.writer:` block")
        b = sp.body
        out = {}
        # if not args.writer: parser.error(...)
        g = b[0]
        if not (isinstance(g, ast.If) and isinstance(g.test, ast.UnaryOp) and isinstance(g.test.op, ast.Not)
                and _is_args(g.test.operand, "writer") and len(g.body) == 1 and isinstance(g.body[0], ast.Expr)
                and _call_name(g.body[0].value) == "error" and not g.orelse):
            self.bad(g, "--split without -w is not a parser.error")
        # uri = f"split://{uri}" if "://" not in uri else f"split+{uri}"
        st = b[1]

        def fprefix(js):
            if isinstance(js, ast.JoinedStr) and len(js.values) == 2 and _const_str(js.values[0]) \
                    and isinstance(js.values[1], ast.FormattedValue) and isinstance(js.values[1].value, ast.Name) \
                    and js.values[1].value.id == "uri" and js.values[1].conversion == -1 and js.values[1].format_spec is None:
                return js.values[0].value
            if isinstance(js, ast.BinOp) and isinstance(js.op, ast.Add) and _const_str(js.left) \
                    and isinstance(js.right, ast.Name) and js.right.id == "uri":
                return js.left.value
            self.bad(st, "split prefix expression: %s" % ast.unparse(js))
        ok = (isinstance(st, ast.Assign) and len(st.targets) == 1 and isinstance(st.targets[0], ast.Name) and st.targets[0].id == "uri"
              and isinstance(st.value, ast.IfExp) and isinstance(st.value.test, ast.Compare) and len(st.value.test.ops) == 1
              and _const_str(st.value.test.left) and st.value.test.left.value == "://"
              and isinstance(st.value.test.comparators[0], ast.Name) and st.value.test.comparators[0].id == "uri")
        if not ok:
            self.bad(st, "split URI prefixing statement not recognised")
        if isinstance(st.value.test.ops[0], ast.NotIn):
            out["split_noscheme"], out["split_scheme"] = fprefix(st.value.body), fprefix(st.value.orelse)
        elif isinstance(st.value.test.ops[0], ast.In):
            out["split_scheme"], out["split_noscheme"] = fprefix(st.value.body), fprefix(st.value.orelse)
        else:
            self.bad(st, "split URI prefix test")
        # parsed = urlparse(uri); query_dict = dict(parse_qsl(parsed.query)); query_dict.update({...});
        # query = urlencode(query_dict); uri = parsed.scheme + "://" + parsed.netloc + parsed.path + "?" + query
        src = [ast.unparse(x) for x in b[2:]]
        if len(b) != 7:
            self.bad(sp, "the --split block has %d statements, expected 7" % len(b))
        p, qd, upd, q, u = b[2:]
        ok = (isinstance(p, ast.Assign) and isinstance(p.value, ast.Call) and _call_name(p.value) == "urlparse"
              and len(p.value.args) == 1 and isinstance(p.value.args[0], ast.Name) and p.value.args[0].id == "uri"
              and not p.value.keywords)
        pn = p.targets[0].id if ok and isinstance(p.targets[0], ast.Name) else None
        ok = ok and pn is not None
        ok = ok and ast.unparse(qd.value if isinstance(qd, ast.Assign) else qd) == "dict(parse_qsl(%s.query))" % pn
        qdn = qd.targets[0].id if ok and isinstance(qd, ast.Assign) and isinstance(qd.targets[0], ast.Name) else None
        ok = ok and qdn is not None
        keys = None
        if ok and isinstance(upd, ast.Expr) and isinstance(upd.value, ast.Call) and isinstance(upd.value.func, ast.Attribute) \
                and upd.value.func.attr == "update" and isinstance(upd.value.func.value, ast.Name) and upd.value.func.value.id == qdn \
                and len(upd.value.args) == 1 and isinstance(upd.value.args[0], ast.Dict) and len(upd.value.args[0].keys) == 2:
            d = upd.value.args[0]
            if all(_const_str(k) for k in d.keys) and _is_args(d.values[0], "split") and _is_args(d.values[1], "suffix_length"):
                keys = (d.keys[0].value, d.keys[1].value)
        ok = ok and keys is not None
        ok = ok and isinstance(q, ast.Assign) and ast.unparse(q.value) == "urlencode(%s)" % qdn and isinstance(q.targets[0], ast.Name)
        if ok:
            qn = q.targets[0].id
            ok = isinstance(u, ast.Assign) and isinstance(u.targets[0], ast.Name) and u.targets[0].id == "uri" \
                and ast.unparse(u.value) == "%s.scheme + '://' + %s.netloc + %s.path + '?' + %s" % (pn, pn, pn, qn)
        if not ok:
            self.bad(sp, "the --split block is not the recognised urlparse/parse_qsl/update/urlencode/rebuild sequence: %s" % " ; ".join(src)[:300])
        out["split_keys"] = keys
        return out

    # ---- argparse defaults
    def argparse_defaults(self):
        found = {}
        for n in ast.walk(self.main):
            if isinstance(n, ast.Call) and _call_name(n) == "add_argument":
                names = [a.value for a in n.args if _const_str(a)]
                kws = {k.arg: k.value for k in n.keywords}
                for opt in ("--skip", "--count", "--suffix-length", "--split"):
                    if opt in names:
                        found[opt] = kws
        out = {}
        for opt, want_default in (("--skip", True), ("--suffix-length", True), ("--count", False), ("--split", False)):
            kws = found.get(opt)
            if kws is None:
                raise Unsupported("%s: no add_argument(%r)" % (self.where, opt))
            t = kws.get("type")
            if not (isinstance(t, ast.Name) and t.id == "int"):
                raise Unsupported("%s: %s is not type=int" % (self.where, opt))
            if "action" in kws or "nargs" in kws or "const" in kws:
                raise Unsupported("%s: %s has action/nargs/const" % (self.where, opt))
            d = kws.get("default")
            if want_default:
                if not (isinstance(d, ast.Constant) and isinstance(d.value, int) and not isinstance(d.value, bool) and d.value >= 0):
                    raise Unsupported("%s: default of %s is not a natural number constant" % (self.where, opt))
                out[opt] = d.value
            else:
                if d is not None and not (isinstance(d, ast.Constant) and d.value is None):
                    raise Unsupported("%s: %s has a default other than None" % (self.where, opt))
        return out

    # ---- the record part
    def record_facts(self):
        out = {}
        tries = [s for s in self.main.body if isinstance(s, ast.Try)]
        if len(tries) != 1:
            raise Unsupported("%s: expected exactly one try statement at the top level of main, found %d" % (self.where, len(tries)))
        tr = tries[0]
        if tr.handlers or tr.orelse:
            self.bad(tr, "the try statement has except/else clauses")
        # finally: record_writer.__exit__()
        if not tr.body or not (isinstance(tr.body[0], ast.Assign) and len(tr.body[0].targets) == 1
                               and isinstance(tr.body[0].targets[0], ast.Name)
                               and isinstance(tr.body[0].value, ast.Call) and _call_name(tr.body[0].value) == "RecordWriter"
                               and len(tr.body[0].value.args) == 1 and isinstance(tr.body[0].value.args[0], ast.Name)
                               and tr.body[0].value.args[0].id == "uri" and not tr.body[0].value.keywords):
            self.bad(tr, "the try block does not start with <writer> = RecordWriter(uri)")
        wn = tr.body[0].targets[0].id
        fin = tr.finalbody
        out["finally_exit"] = (len(fin) == 1 and isinstance(fin[0], ast.Expr) and isinstance(fin[0].value, ast.Call)
                               and isinstance(fin[0].value.func, ast.Attribute)
                               and fin[0].value.func.attr in ("__exit__", "close")
                               and isinstance(fin[0].value.func.value, ast.Name) and fin[0].value.func.value.id == wn)
        if fin and not out["finally_exit"]:
            self.bad(fin[0], "unrecognised finally block")
        if out["finally_exit"] and fin[0].value.func.attr == "close":
            self.bad(fin[0], "finally calls close() without flush()")
        rest = tr.body[1:]
        after = []
        if not fin:
            # the writer may be closed after the loop instead (then an exception skips it)
            idx = self.main.body.index(tr)
            after = self.main.body[idx + 1:]
        if len(rest) != 1 or not isinstance(rest[0], ast.For):
            # tolerate `<writer>.__exit__()` right after the loop inside the try when there is no finally
            if len(rest) == 2 and isinstance(rest[0], ast.For) and not fin and ast.unparse(rest[1]) == "%s.__exit__()" % wn:
                rest = rest[:1]
            else:
                self.bad(tr, "the try block is not <writer> = RecordWriter(uri); for ...")
        loop = rest[0]
        if loop.orelse:
            self.bad(loop, "for ... else")
        # for count, rec in enumerate(record_iterator, start=1)
        it = self.resolve(loop.iter)
        if not (isinstance(it, ast.Call) and _call_name(it) == "enumerate" and len(it.args) == 1
                and isinstance(loop.target, ast.Tuple) and len(loop.target.elts) == 2
                and all(isinstance(e, ast.Name) for e in loop.target.elts)):
            self.bad(loop, "the loop is not `for <count>, <rec> in enumerate(<iterator>, ...)`")
        rec = loop.target.elts[1].id
        sl = self.resolve(it.args[0])
        # islice(record_stream(args.src, selector), args.skip, islice_stop)
        if not (isinstance(sl, ast.Call) and _call_name(sl) == "islice" and len(sl.args) == 3 and not sl.keywords):
            self.bad(loop, "the record iterator is not islice(<stream>, <start>, <stop>)")
        stream, start, stop = sl.args
        stream = self.resolve(stream)
        if not (isinstance(stream, ast.Call) and _call_name(stream) == "record_stream" and len(stream.args) == 2
                and not stream.keywords and _is_args(stream.args[0], "src")):
            self.bad(loop, "islice's first argument is not record_stream(args.src, <selector>)")
        if not _is_args(self.resolve(start), "skip"):
            self.bad(loop, "islice's start is not args.skip")
        out.update(self.stop_shape(self.resolve(stop), loop))
        # selector = make_selector(args.selector, not args.no_compile)
        ms = self.resolve(stream.args[1])
        if not (isinstance(ms, ast.Call) and _call_name(ms) == "make_selector" and 1 <= len(ms.args) <= 2
                and _is_args(ms.args[0], "selector")):
            self.bad(loop, "the selector is not make_selector(args.selector, ...)")
        flag = ms.args[1] if len(ms.args) == 2 else None
        for k in ms.keywords:
            if k.arg == "force_compiled" and flag is None:
                flag = k.value
            else:
                self.bad(loop, "make_selector keyword %s" % k.arg)
        flag = self.resolve(flag) if flag is not None else None
        if isinstance(flag, ast.UnaryOp) and isinstance(flag.op, ast.Not) and _is_args(flag.operand, "no_compile"):
            out["compile_flag"] = "FlagNotNoCompile"
        elif _is_args(flag, "no_compile"):
            out["compile_flag"] = "FlagNoCompile"
        else:
            self.bad(loop, "second argument of make_selector is neither `not args.no_compile` nor `args.no_compile`")
        # rewriter installation
        out["rewriter_cond"], rw = self.rewriter_facts()
        # loop body
        steps = []     # ("override", field, guard) | ("rewrite",)
        tail = None
        for st in loop.body:
            if tail is not None:
                self.bad(st, "statement after the write/list step")
            o = self.override_step(st, rec)
            if o:
                steps.append(o)
                continue
            if isinstance(st, ast.If) and isinstance(st.test, ast.Name) and st.test.id == rw and not st.orelse \
                    and len(st.body) == 1 and ast.unparse(st.body[0]) == "%s = %s.rewrite(%s)" % (rec, rw, rec):
                steps.append(("rewrite",))
                continue
            if isinstance(st, ast.If) and _is_args(st.test, "list") and st.orelse:
                tail = st
                continue
            self.bad(st, "unrecognised per-record step: %s" % ast.unparse(st)[:100])
        if tail is None:
            self.bad(loop, "no `if args.list: ... else: ...` step")
        kinds = [s[0] for s in steps]
        if kinds.count("rewrite") != 1:
            self.bad(loop, "the rewriter is applied %d times" % kinds.count("rewrite"))
        ri = kinds.index("rewrite")
        ovs = [s for s in steps if s[0] == "override"]
        if all(i < ri for i, s in enumerate(steps) if s[0] == "override"):
            out["order"] = "OverrideThenRewrite"
        elif all(i > ri for i, s in enumerate(steps) if s[0] == "override"):
            out["order"] = "RewriteThenOverride"
        else:
            self.bad(loop, "overrides on both sides of the rewriter")
        out["override_guards"] = [(f, g) for _, f, g in ovs]
        # list branch: must not write
        for n in ast.walk(ast.Module(body=tail.body, type_ignores=[])):
            if isinstance(n, ast.Attribute) and isinstance(n.value, ast.Name) and n.value.id == wn:
                self.bad(tail, "the list branch uses the writer")
        # write branch
        wb = tail.orelse
        write_rec = "%s.write(%s)" % (wn, rec)
        if len(wb) == 1 and isinstance(wb[0], ast.If) and _is_args(wb[0].test, "multi_timestamp"):
            m = wb[0]
            if not (len(m.orelse) == 1 and ast.unparse(m.orelse[0]) == write_rec):
                self.bad(m, "the non-multi-timestamp branch is not a single %s" % write_rec)
            out["multi"] = self.multi_shape(m.body, wn, rec, m)
        else:
            self.bad(tail, "the write branch is not `if args.multi_timestamp: ... else: %s`" % write_rec)
        # dataflow: which options the loop reads
        la = []
        for n in ast.walk(tr):
            if _is_args(n) and n.attr not in la:
                la.append(n.attr)
        out["loop_args"] = la
        # the rest of main after the try must not write
        for st in after:
            if any(isinstance(n, ast.Name) and n.id == wn for n in ast.walk(st)) and ast.unparse(st) != "%s.__exit__()" % wn:
                self.bad(st, "writer used after the try statement")
        return out

    def multi_shape(self, body, wn, rec, node):
        if not body or not isinstance(body[0], ast.For):
            self.bad(node, "multi-timestamp branch does not start with a for loop")
        f = body[0]
        if not (isinstance(f.target, ast.Name) and isinstance(f.iter, ast.Call) and _call_name(f.iter) == "iter_timestamped_records"
                and len(f.iter.args) == 1 and isinstance(f.iter.args[0], ast.Name) and f.iter.args[0].id == rec
                and len(f.body) == 1 and ast.unparse(f.body[0]) == "%s.write(%s)" % (wn, f.target.id) and not f.orelse):
            self.bad(f, "multi-timestamp loop is not `for x in iter_timestamped_records(%s): %s.write(x)`" % (rec, wn))
        if len(body) == 1:
            return "MultiExpandOnly"
        if len(body) == 2 and ast.unparse(body[1]) == "%s.write(%s)" % (wn, rec):
            return "MultiExpandAndOriginal"
        self.bad(node, "unrecognised multi-timestamp branch")

    def override_step(self, st, rec):
        """if args.record_source is not None: rec._source = args.record_source"""
        if not (isinstance(st, ast.If) and not st.orelse and len(st.body) == 1 and isinstance(st.body[0], ast.Assign)):
            return None
        a = st.body[0]
        if not (len(a.targets) == 1 and isinstance(a.targets[0], ast.Attribute) and isinstance(a.targets[0].value, ast.Name)
                and a.targets[0].value.id == rec and _is_args(a.value)):
            return None
        field, opt = a.targets[0].attr, a.value.attr
        want = {"_source": "record_source", "_classification": "record_classification"}
        if want.get(field) != opt:
            self.bad(st, "override sets %s from args.%s" % (field, opt))
        t = st.test
        if _is_args(t, opt):
            return ("override", field, "GuardTruthy")
        if isinstance(t, ast.Compare) and len(t.ops) == 1 and isinstance(t.ops[0], ast.IsNot) and _is_args(t.left, opt) \
                and isinstance(t.comparators[0], ast.Constant) and t.comparators[0].value is None:
            return ("override", field, "GuardNotNone")
        self.bad(st, "override guard not recognised")

    def stop_shape(self, stop, node):
        """(args.count + args.skip) if args.count else None"""
        if not (isinstance(stop, ast.IfExp) and isinstance(stop.orelse, ast.Constant) and stop.orelse.value is None):
            self.bad(node, "islice stop is not `<expr> if <guard> else None`: %s" % ast.unparse(stop)[:80])
        t = stop.test
        if _is_args(t, "count"):
            guard = "GuardTruthy"
        elif isinstance(t, ast.Compare) and len(t.ops) == 1 and isinstance(t.ops[0], ast.IsNot) and _is_args(t.left, "count") \
                and isinstance(t.comparators[0], ast.Constant) and t.comparators[0].value is None:
            guard = "GuardNotNone"
        else:
            self.bad(node, "islice stop guard not recognised: %s" % ast.unparse(t)[:80])
        e = stop.body
        if isinstance(e, ast.BinOp) and isinstance(e.op, ast.Add) and (
                (_is_args(e.left, "count") and _is_args(e.right, "skip")) or (_is_args(e.left, "skip") and _is_args(e.right, "count"))):
            expr = "StopCountPlusSkip"
        elif _is_args(e, "count"):
            expr = "StopCountOnly"
        else:
            self.bad(node, "islice stop expression not recognised: %s" % ast.unparse(e)[:80])
        return dict(stop_guard=guard, stop_expr=expr)

    def rewriter_facts(self):
        """record_field_rewriter = None
           if fields or fields_to_exclude or args.exec_expression:
               record_field_rewriter = RecordFieldRewriter(fields, fields_to_exclude, args.exec_expression)"""
        for st in self.main.body:
            if isinstance(st, ast.If) and len(st.body) == 1 and isinstance(st.body[0], ast.Assign) and not st.orelse \
                    and isinstance(st.body[0].value, ast.Call) and _call_name(st.body[0].value) == "RecordFieldRewriter":
                a = st.body[0]
                call = a.value
                if not (len(a.targets) == 1 and isinstance(a.targets[0], ast.Name)):
                    self.bad(st, "rewriter assignment target")
                rw = a.targets[0].id
                # the other assignment must be `= None`
                others = [v for v in self.assigns.get(rw, []) if v is not call]
                if not (len(others) == 1 and isinstance(others[0], ast.Constant) and others[0].value is None):
                    self.bad(st, "%s is not initialised to None exactly once" % rw)
                if call.keywords or len(call.args) != 3:
                    self.bad(st, "RecordFieldRewriter is not called with three positional arguments")

                def src_of(n):
                    if isinstance(n, ast.Name) and self.comma_split_of(n, "fields"):
                        return "CFields"
                    if isinstance(n, ast.Name) and self.comma_split_of(n, "exclude"):
                        return "CExclude"
                    if _is_args(n, "exec_expression"):
                        return "CExpr"
                    self.bad(st, "unrecognised rewriter operand: %s" % ast.unparse(n))
                if [src_of(x) for x in call.args] != ["CFields", "CExclude", "CExpr"]:
                    self.bad(st, "RecordFieldRewriter arguments are not (fields, exclude, expression)")
                t = st.test
                vals = t.values if isinstance(t, ast.BoolOp) and isinstance(t.op, ast.Or) else [t]
                return [src_of(v) for v in vals], rw
        raise Unsupported("%s: no `if ...: <rw> = RecordFieldRewriter(...)` statement" % self.where)


def stream_facts():
    import flow.record.stream as stream_mod
    where = "flow/record/stream.py record_stream"
    tree = ast.parse(Path(stream_mod.__file__).read_text())
    fn = None
    for n in tree.body:
        if isinstance(n, ast.FunctionDef) and n.name == "record_stream":
            fn = n
    if fn is None:
        raise Unsupported("%s: not found" % where)
    params = [a.arg for a in fn.args.args]
    if len(params) != 2:
        raise Unsupported("%s: expected (sources, selector)" % where)
    loops = [s for s in fn.body if isinstance(s, ast.For)]
    others = [s for s in fn.body if not isinstance(s, ast.For)]
    for s in others:
        # docstring / log.debug(...)
        if isinstance(s, ast.Expr) and (isinstance(s.value, ast.Constant) or (isinstance(s.value, ast.Call) and isinstance(s.value.func, ast.Attribute)
                                                                             and isinstance(s.value.func.value, ast.Name) and s.value.func.value.id == "log")):
            continue
        raise Unsupported("%s line %d: unrecognised statement" % (where, s.lineno))
    if len(loops) != 1:
        raise Unsupported("%s: expected one loop over the sources" % where)
    loop = loops[0]
    if not (isinstance(loop.target, ast.Name) and isinstance(loop.iter, ast.Name) and loop.iter.id == params[0] and not loop.orelse):
        raise Unsupported("%s: the loop is not `for <src> in %s`" % (where, params[0]))
    src = loop.target.id
    tries = [s for s in loop.body if isinstance(s, ast.Try)]
    if len(tries) != 1 or loop.body[-1] is not tries[0]:
        raise Unsupported("%s: the loop body does not end with its single try statement" % where)
    for s in loop.body[:-1]:
        # `if src in ("-", ""): print(...)` and `reader = "RecordReader"`
        if isinstance(s, ast.If) and not s.orelse and all(isinstance(b, ast.Expr) and _call_name(b.value) == "print" for b in s.body):
            continue
        if isinstance(s, ast.Assign) and isinstance(s.value, ast.Constant):
            continue
        raise Unsupported("%s line %d: unrecognised statement before the try" % (where, s.lineno))
    tr = tries[0]
    if tr.orelse or tr.finalbody:
        raise Unsupported("%s: try has else/finally" % where)
    # body: reader = RecordReader(src, selector=selector); for rec in reader: yield rec; reader.close()
    b = tr.body
    ok = (len(b) in (2, 3) and isinstance(b[0], ast.Assign) and isinstance(b[0].value, ast.Call)
          and _call_name(b[0].value) == "RecordReader" and len(b[0].value.args) == 1
          and isinstance(b[0].value.args[0], ast.Name) and b[0].value.args[0].id == src
          and [k.arg for k in b[0].value.keywords] == ["selector"]
          and isinstance(b[0].value.keywords[0].value, ast.Name) and b[0].value.keywords[0].value.id == params[1]
          and isinstance(b[0].targets[0], ast.Name))
    if not ok:
        raise Unsupported("%s: try body does not start with <reader> = RecordReader(<src>, selector=<selector>)" % where)
    rn = b[0].targets[0].id
    y = b[1]
    per_record = None
    if isinstance(y, ast.For) and isinstance(y.iter, ast.Name) and y.iter.id == rn and isinstance(y.target, ast.Name) \
            and len(y.body) == 1 and isinstance(y.body[0], ast.Expr) and isinstance(y.body[0].value, ast.Yield) \
            and isinstance(y.body[0].value.value, ast.Name) and y.body[0].value.value.id == y.target.id and not y.orelse:
        per_record = True
    elif isinstance(y, ast.Expr) and isinstance(y.value, ast.YieldFrom):
        v = y.value.value
        if isinstance(v, ast.Name) and v.id == rn:
            per_record = True
        elif isinstance(v, ast.Call) and _call_name(v) in ("list", "tuple") and len(v.args) == 1 and isinstance(v.args[0], ast.Name) and v.args[0].id == rn:
            per_record = False
    if per_record is None:
        raise Unsupported("%s: the records are not yielded by `for rec in <reader>: yield rec`" % where)
    if len(b) == 3 and ast.unparse(b[2]) != "%s.close()" % rn:
        raise Unsupported("%s: unrecognised statement after the yield loop" % where)
    handlers = []
    known = ("IOError", "OSError", "EnvironmentError", "Exception", "BaseException", "KeyboardInterrupt")
    for h in tr.handlers:
        if h.type is None:
            names = ["BaseException"]
        elif isinstance(h.type, ast.Name):
            names = [h.type.id]
        elif isinstance(h.type, ast.Tuple) and all(isinstance(e, ast.Name) for e in h.type.elts):
            names = [e.id for e in h.type.elts]
        else:
            raise Unsupported("%s line %d: except clause type" % (where, h.lineno))
        act = "Continue"
        for s in h.body:
            if isinstance(s, ast.Expr) and isinstance(s.value, ast.Call) and isinstance(s.value.func, ast.Attribute) \
                    and isinstance(s.value.func.value, ast.Name) and s.value.func.value.id == "log":
                continue
            if isinstance(s, (ast.Pass, ast.Continue)):
                continue
            if isinstance(s, ast.Raise):
                act = "Propagate"
                continue
            if isinstance(s, (ast.Break, ast.Return)):
                act = "Stop"
                continue
            raise Unsupported("%s line %d: unrecognised statement in except clause" % (where, s.lineno))
        for nme in names:
            if nme not in known:
                raise Unsupported("%s line %d: exception class %s is not modelled" % (where, h.lineno, nme))
            handlers.append((nme, act))
    return dict(handlers=handlers, yield_per_record=per_record)


def expand_facts():
    """flow/record/base.py iter_timestamped_records: which reserved fields the loop copies from the original record
    onto every expanded record, between `record = extend_record(ts_record, [record], ...)` and `yield record`."""
    import flow.record.base as base_mod
    where = "flow/record/base.py iter_timestamped_records"
    tree = ast.parse(Path(base_mod.__file__).read_text())
    fn = None
    for n in tree.body:
        if isinstance(n, ast.FunctionDef) and n.name == "iter_timestamped_records":
            fn = n
    if fn is None or len(fn.args.args) != 1:
        raise Unsupported("%s: not found / not one parameter" % where)
    param = fn.args.args[0].arg
    loops = [st for st in fn.body if isinstance(st, ast.For)]
    if len(loops) != 1 or fn.body[-1] is not loops[0] or loops[0].orelse:
        raise Unsupported("%s: the function does not end with its single for loop" % where)
    loop = loops[0]
    # names that hold the original record: the parameter before the loop rebinds it, and `x = <param>` before the loop
    orig = set()
    for st in fn.body[:-1]:
        if isinstance(st, ast.Assign) and len(st.targets) == 1 and isinstance(st.targets[0], ast.Name) \
                and isinstance(st.value, ast.Name) and st.value.id == param:
            orig.add(st.targets[0].id)
    body = loop.body
    if len(body) < 3:
        raise Unsupported("%s: loop body too short" % where)
    ext, yl = body[1], body[-1]
    if not (isinstance(ext, ast.Assign) and len(ext.targets) == 1 and isinstance(ext.targets[0], ast.Name)
            and isinstance(ext.value, ast.Call) and _call_name(ext.value) == "extend_record"):
        raise Unsupported("%s line %d: second statement of the loop is not <rec> = extend_record(...)" % (where, ext.lineno))
    rn = ext.targets[0].id
    if not (isinstance(yl, ast.Expr) and isinstance(yl.value, ast.Yield) and isinstance(yl.value.value, ast.Name)
            and yl.value.value.id == rn):
        raise Unsupported("%s line %d: the loop does not end with `yield %s`" % (where, yl.lineno, rn))
    if rn in orig:
        raise Unsupported("%s: the expanded record rebinds the name that holds the original" % where)
    copied = []
    for st in body[2:-1]:
        ok = (isinstance(st, ast.Assign) and len(st.targets) == 1 and isinstance(st.targets[0], ast.Attribute)
              and isinstance(st.targets[0].value, ast.Name) and st.targets[0].value.id == rn
              and isinstance(st.value, ast.Attribute) and isinstance(st.value.value, ast.Name)
              and st.value.value.id in orig and st.value.attr == st.targets[0].attr
              and st.targets[0].attr in ("_source", "_classification", "_generated"))
        if not ok:
            raise Unsupported("%s line %d: unrecognised statement between extend_record and yield: %s" % (
                where, st.lineno, ast.unparse(st)[:80]))
        if st.targets[0].attr not in copied:
            copied.append(st.targets[0].attr)
    return copied


def gen_rdump():
    import flow.record.tools.rdump as rdump_mod
    where = "flow/record/tools/rdump.py main"
    tree = ast.parse(Path(rdump_mod.__file__).read_text())
    mf = MainFacts(tree, where)
    u = mf.uri_facts()
    d = mf.argparse_defaults()
    r = mf.record_facts()
    s = stream_facts()
    em = expand_facts()
    for k, v in u["table"] + [("", u["default_uri"])]:
        if not all(32 <= ord(c) < 127 for c in k + v):
            raise Unsupported("%s: non-ASCII mode table entry" % where)
    out = HEADER
    out += "From Coq Require Import List Bool String NArith.\nImport ListNotations.\nFrom FR Require Import Rdump.\nOpen Scope string_scope.\n\n"
    out += "(* flow/record/tools/rdump.py main() and flow/record/stream.py record_stream(): shapes read with ast *)\n"
    out += "Definition rdump_facts : facts :=\n  {|\n"
    fields = [
        ("f_default_uri", cstr(u["default_uri"])),
        ("f_mode_to_uri", clist([cpair(cstr(k), cstr(v)) for k, v in u["table"]], sep=";\n       ")),
        ("f_qparams", clist([cpair(cstr(k), q) for k, q in u["qparams"]])),
        ("f_join", u["join"]),
        ("f_stop_guard", r["stop_guard"]),
        ("f_stop_expr", r["stop_expr"]),
        ("f_default_skip", "%d%%nat" % d["--skip"]),
        ("f_default_suffix_length", "%d%%N" % d["--suffix-length"]),
        ("f_handlers", clist([cpair(cstr(n), a) for n, a in s["handlers"]])),
        ("f_yield_per_record", cbool(s["yield_per_record"])),
        ("f_finally_exit", cbool(r["finally_exit"])),
        ("f_order", r["order"]),
        ("f_rewriter_cond", clist(r["rewriter_cond"])),
        ("f_override_guards", clist([cpair(cstr(f), g) for f, g in r["override_guards"]])),
        ("f_compile_flag", r["compile_flag"]),
        ("f_multi", r["multi"]),
        ("f_split_noscheme", cstr(u["split_noscheme"])),
        ("f_split_scheme", cstr(u["split_scheme"])),
        ("f_split_keys", cpair(cstr(u["split_keys"][0]), cstr(u["split_keys"][1]))),
        ("f_loop_args", clist([cstr(a) for a in r["loop_args"]])),
        ("f_expand_meta", clist([cstr(a) for a in em])),
    ]
    if d["--skip"] > 1000:
        raise Unsupported("%s: default of --skip is %d" % (where, d["--skip"]))
    out += ";\n".join("    %s := %s" % kv for kv in fields) + "\n  |}.\n"
    write_if_changed(GEN / "Gen_rdump.v", out)


GENERATORS = [gen_rdump]
