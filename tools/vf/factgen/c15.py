"""Facts for C15 (record composition) -> coq/gen/Gen_compose.v.

The *shape* of a few statements is the fact (which name a value is read from, whether a guard is there,
in which order maps are chained); these are recognised on the `ast` of /repo's working tree with a small
pattern unifier, so that re-naming a local variable or re-spelling a reversal does not matter.  Tables
(RESERVED_FIELDS, TimestampRecord) are read from the imported module.  Fail closed: a statement in one of the
anchored functions that none of the patterns knows raises Unsupported.
"""
from __future__ import annotations

import ast
from pathlib import Path

from vf.coqlit import cbool, clist, cpair, cstr
from vf.factlib import GEN, HEADER, Unsupported, write_if_changed


# --------------------------------------------------------------------------------------------------
# pattern unifier: a pattern is Python source in which names starting with V_ stand for a (consistently
# bound) local name and names starting with E_ for an arbitrary expression.

def _pat(src, mode="stmt"):
    tree = ast.parse(src)
    if mode == "expr":
        return tree.body[0].value
    if mode == "stmt":
        return tree.body[0]
    return tree.body


def unify(pat, node, env):
    if isinstance(pat, ast.Name) and pat.id.startswith("V_"):
        if not isinstance(node, ast.Name):
            return False
        if pat.id in env:
            return env[pat.id] == node.id
        env[pat.id] = node.id
        return True
    if isinstance(pat, ast.Name) and pat.id.startswith("E_"):
        if not isinstance(node, ast.AST):
            return False
        d = ast.dump(node)
        if pat.id in env:
            return env[pat.id] == d
        env[pat.id] = d
        return True
    if isinstance(pat, ast.AST):
        if type(pat) is not type(node):
            return False
        for f in pat._fields:
            if f in ("ctx", "type_comment", "kind"):
                continue
            if not unify(getattr(pat, f, None), getattr(node, f, None), env):
                return False
        return True
    if isinstance(pat, list):
        if not isinstance(node, list) or len(pat) != len(node):
            return False
        return all(unify(p, n, env) for p, n in zip(pat, node))
    return pat == node


def match(src, node, env=None, mode="stmt"):
    """Unify; returns the (extended copy of the) environment or None."""
    e = dict(env or {})
    return e if unify(_pat(src, mode), node, e) else None


def match_any(srcs, node, env=None, mode="stmt"):
    for i, s in enumerate(srcs):
        e = match(s, node, env, mode)
        if e is not None:
            return i, e
    return None, None


def strip_doc(body):
    body = list(body)
    if body and isinstance(body[0], ast.Expr) and isinstance(body[0].value, ast.Constant) and isinstance(body[0].value.value, str):
        body = body[1:]
    return body


def find_def(tree, qual):
    parts = qual.split(".")
    body = tree.body
    node = None
    for p in parts:
        node = None
        for st in body:
            if isinstance(st, (ast.FunctionDef, ast.ClassDef)) and st.name == p:
                node = st
        if node is None:
            raise Unsupported("definition %s not found" % qual)
        body = node.body
    if not isinstance(node, ast.FunctionDef):
        raise Unsupported("%s is not a def" % qual)
    return node


def stores_in(stmts):
    """names assigned anywhere inside the statements"""
    out = set()
    for st in stmts:
        for n in ast.walk(st):
            if isinstance(n, ast.Name) and isinstance(n.ctx, (ast.Store, ast.Del)):
                out.add(n.id)
    return out


def params(fn):
    return [a.arg for a in fn.args.posonlyargs + fn.args.args]


def where(qual, node):
    return "%s line %d" % (qual, getattr(node, "lineno", 0))


REVERSALS = ["V_m[::-1]", "tuple(reversed(V_m))", "list(reversed(V_m))", "reversed(V_m)", "tuple(V_m[::-1])", "list(V_m[::-1])"]
EMPTY_MAPS = ["collections.OrderedDict()", "OrderedDict()", "dict()", "{}"]


# --------------------------------------------------------------------------------------------------
def merge_facts(tree):
    q = "merge_record_descriptors"
    fn = find_def(tree, q)
    ps = params(fn)
    if ps[:3] != ["descriptors", "replace", "name"]:
        raise Unsupported("%s parameters are %r" % (q, ps))
    body = strip_doc(fn.body)
    env = None
    # field_map = OrderedDict()
    _, env = match_any(["V_map = " + e for e in EMPTY_MAPS], body[0])
    if env is None:
        raise Unsupported("%s: first statement is not the creation of an empty (ordered) dict" % where(q, body[0]))
    loop = body[1]
    e2 = match("for V_desc in descriptors:\n    for V_ft, V_fn in V_desc.get_field_tuples():\n        pass", _shell(loop, 2), env)
    if e2 is None:
        raise Unsupported("%s: the double loop over descriptors / get_field_tuples() has another shape" % where(q, loop))
    env = e2
    inner = loop.body[0].body
    present = not_replace = in_map = False
    rest = inner
    if len(inner) == 2:
        g = inner[0]
        if not (isinstance(g, ast.If) and not g.orelse and len(g.body) == 1 and isinstance(g.body[0], ast.Continue)):
            raise Unsupported("%s: unrecognised statement before the assignment" % where(q, g))
        present = True
        conj = g.test.values if isinstance(g.test, ast.BoolOp) and isinstance(g.test.op, ast.And) else [g.test]
        for c in conj:
            if match("not replace", c, env, "expr") is not None and not not_replace:
                not_replace = True
            elif match("V_fn in V_map", c, env, "expr") is not None and not in_map:
                in_map = True
            else:
                raise Unsupported("%s: unrecognised conjunct in the skip test" % where(q, c))
        rest = inner[1:]
    if len(rest) != 1 or match("V_map[V_fn] = V_ft", rest[0], env) is None:
        raise Unsupported("%s: the loop body does not end in field_map[fname] = ftype" % where(q, inner[-1]))
    tail = body[2:]
    if len(tail) != 2:
        raise Unsupported("%s: expected the default of `name` and the return after the loop" % q)
    i, _ = match_any(["if name is None and descriptors:\n    name = descriptors[0].name",
                      "if name is None:\n    name = descriptors[0].name"], tail[0], env)
    if i is None:
        raise Unsupported("%s: default of `name` has another shape" % where(q, tail[0]))
    i, _ = match_any(["return RecordDescriptor(name, zip(V_map.values(), V_map.keys()))",
                      "return RecordDescriptor(name, [(V_t, V_n) for V_n, V_t in V_map.items()])",
                      "return RecordDescriptor(name, tuple((V_t, V_n) for V_n, V_t in V_map.items()))"], tail[1], env)
    if i is None:
        raise Unsupported("%s: the return statement has another shape" % where(q, tail[1]))
    return dict(present=present, not_replace=not_replace, in_map=in_map)


def _shell(loop, depth):
    """copy of nested for-loops down to `depth` with the innermost body replaced by `pass`"""
    if not isinstance(loop, ast.For) or loop.orelse:
        return loop
    if depth == 1:
        return ast.For(target=loop.target, iter=loop.iter, body=[ast.Pass()], orelse=[], type_comment=None)
    if len(loop.body) != 1:
        return loop
    return ast.For(target=loop.target, iter=loop.iter, body=[_shell(loop.body[0], depth - 1)], orelse=[], type_comment=None)


def extend_facts(tree):
    q = "extend_record"
    fn = find_def(tree, q)
    ps = params(fn)
    if ps[:4] != ["record", "other_records", "replace", "name"]:
        raise Unsupported("%s parameters are %r" % (q, ps))
    body = strip_doc(fn.body)
    if len(body) not in (5, 6):
        raise Unsupported("%s: %d statements, expected 5 or 6" % (q, len(body)))
    env = {}
    i, env = match_any(["V_recs = (record, *other_records)", "V_recs = [record, *other_records]",
                        "V_recs = [record] + list(other_records)", "V_recs = (record,) + tuple(other_records)"], body[0])
    if i is None:
        raise Unsupported("%s: the list of records has another shape" % where(q, body[0]))
    i, e = match_any(["V_descs = tuple(V_r._desc for V_r in V_recs)", "V_descs = tuple([V_r._desc for V_r in V_recs])"], body[1], env)
    if i is None:
        raise Unsupported("%s: the tuple of descriptors has another shape" % where(q, body[1]))
    env = {k: v for k, v in e.items() if k != "V_r"}
    i, e = match_any(["V_cls = merge_record_descriptors(V_descs, replace, name)",
                      "V_cls = merge_record_descriptors(V_descs, replace=replace, name=name)"], body[2], env)
    if i is None:
        raise Unsupported("%s: the call of merge_record_descriptors has another shape" % where(q, body[2]))
    env = e
    i, e = match_any(["V_maps = tuple(V_r._asdict() for V_r in V_recs)", "V_maps = [V_r._asdict() for V_r in V_recs]",
                      "V_maps = tuple([V_r._asdict() for V_r in V_recs])", "V_maps = list(V_r._asdict() for V_r in V_recs)"], body[3], env)
    if i is None:
        raise Unsupported("%s: the tuple of value maps has another shape" % where(q, body[3]))
    env = {k: v for k, v in e.items() if k != "V_r"}
    rev_replace = rev_keep = False
    if len(body) == 6:
        st = body[4]
        if not (isinstance(st, ast.If) and not st.orelse and len(st.body) == 1):
            raise Unsupported("%s: unrecognised statement" % where(q, st))
        env_m = dict(env)
        env_m["V_m"] = env["V_maps"]
        i, _ = match_any(["V_maps = " + r for r in REVERSALS], st.body[0], env_m)
        if i is None:
            raise Unsupported("%s: the conditional statement is not a reversal of the value maps" % where(q, st))
        if match("replace", st.test, env, "expr") is not None:
            rev_replace = True
        elif match("not replace", st.test, env, "expr") is not None:
            rev_keep = True
        else:
            raise Unsupported("%s: unrecognised condition of the reversal" % where(q, st))
    ret = body[-1]
    chain_in_order = None
    for cm in ("collections.ChainMap", "ChainMap"):
        if match("return V_cls.init_from_dict(%s(*V_maps))" % cm, ret, env) is not None:
            chain_in_order = True
        env_m = dict(env)
        env_m["V_m"] = env["V_maps"]
        for r in REVERSALS:
            if match("return V_cls.init_from_dict(%s(*%s))" % (cm, r), ret, env_m) is not None:
                chain_in_order = False
    if chain_in_order is None:
        raise Unsupported("%s: the return statement is not init_from_dict(ChainMap(*kv_maps))" % where(q, ret))
    return dict(rev_replace=rev_replace, rev_keep=rev_keep, chain_in_order=chain_in_order)


def init_facts(tree):
    q = "RecordDescriptor.init_from_dict"
    fn = find_def(tree, q)
    if params(fn)[:3] != ["self", "rdict", "raise_unknown"]:
        raise Unsupported("%s parameters are %r" % (q, params(fn)))
    body = strip_doc(fn.body)
    if match("return self.recordType(**rdict)", body[-1]) is None:
        raise Unsupported("%s: the return statement has another shape" % where(q, body[-1]))
    filters = False
    if len(body) == 2:
        i, _ = match_any([
            "if not raise_unknown:\n    rdict = {V_k: V_v for V_k, V_v in rdict.items() if V_k in self.recordType.__slots__}",
            "if not raise_unknown:\n    rdict = dict((V_k, V_v) for V_k, V_v in rdict.items() if V_k in self.recordType.__slots__)",
        ], body[0])
        if i is None:
            raise Unsupported("%s: unrecognised statement before the return" % where(q, body[0]))
        filters = True
    elif len(body) != 1:
        raise Unsupported("%s: %d statements" % (q, len(body)))
    q2 = "RecordDescriptor.init_from_record"
    fn2 = find_def(tree, q2)
    b2 = strip_doc(fn2.body)
    if len(b2) != 1 or match("return self.init_from_dict(record._asdict(), raise_unknown=raise_unknown)", b2[0]) is None:
        raise Unsupported("%s has another shape" % q2)
    return dict(filters=filters)


def _original_name(fn, loop, name, param):
    """Is `name` (read inside the loop) a name for the function's parameter `param` that the loop does not
    re-bind?  True / False (re-bound in the loop) / Unsupported."""
    if name in stores_in(loop.body) or name == _target_name(loop):
        return False
    pre = []
    for st in strip_doc(fn.body):
        if st is loop:
            break
        pre.append(st)
    if name == param:
        if param in stores_in(pre):
            raise Unsupported("parameter %r is re-bound before the loop" % param)
        return True
    # bound exactly once, by a top-level `name = param` before the loop, while param still is the argument
    for i, st in enumerate(pre):
        if name in stores_in([st]):
            if (isinstance(st, ast.Assign) and len(st.targets) == 1 and isinstance(st.targets[0], ast.Name)
                    and isinstance(st.value, ast.Name) and st.value.id == param
                    and param not in stores_in(pre[:i]) and name not in stores_in(pre[:i] + pre[i + 1:])):
                return True
            break
    raise Unsupported("cannot tell what %r is bound to" % name)


def _target_name(loop):
    return loop.target.id if isinstance(loop.target, ast.Name) else None


def inline_private_calls(tree, stmts):
    """follow calls to module-level helper functions one level: an expression statement `helper(a, b)` whose callee is a
    module-level def with plain positional parameters and a body of simple assignments is replaced by that body with the
    parameters substituted by the (name) arguments"""
    defs = {st.name: st for st in tree.body if isinstance(st, ast.FunctionDef)}
    out = []
    for st in stmts:
        call = st.value if isinstance(st, ast.Expr) and isinstance(st.value, ast.Call) else None
        fn = defs.get(call.func.id) if call is not None and isinstance(call.func, ast.Name) else None
        if fn is not None and not call.keywords and all(isinstance(a, ast.Name) for a in call.args) \
                and len(call.args) == len(fn.args.args) and not fn.args.vararg and not fn.args.kwarg \
                and all(isinstance(b, ast.Assign) for b in strip_doc(fn.body)):
            sub = {p.arg: a.id for p, a in zip(fn.args.args, call.args)}

            class Ren(ast.NodeTransformer):
                def visit_Name(self, node):
                    return ast.copy_location(ast.Name(id=sub.get(node.id, node.id), ctx=node.ctx), node)
            import copy
            out.extend(Ren().visit(copy.deepcopy(b)) for b in strip_doc(fn.body))
        else:
            out.append(st)
    return out


def expand_facts(tree):
    q = "iter_timestamped_records"
    fn = find_def(tree, q)
    if params(fn) != ["record"]:
        raise Unsupported("%s parameters are %r" % (q, params(fn)))
    body = strip_doc(fn.body)
    env = match("V_dts = record._desc.getfields(E_type)", body[0])
    if env is None:
        raise Unsupported("%s: first statement is not the selection of the fields by type" % where(q, body[0]))
    sel = body[0].value.args[0]
    if not (isinstance(sel, ast.Constant) and isinstance(sel.value, str)):
        raise Unsupported("%s: getfields() argument is not a string constant" % where(q, body[0]))
    env = {"V_dts": env["V_dts"]}
    if match("if not V_dts:\n    yield record\n    return", body[1], env) is None:
        raise Unsupported("%s: the no-timestamp branch has another shape" % where(q, body[1]))
    loops = [st for st in body[2:] if isinstance(st, ast.For)]
    if len(loops) != 1 or body[-1] is not loops[0]:
        raise Unsupported("%s: expected exactly one loop, at the end" % q)
    loop = loops[0]
    for st in body[2:-1]:
        if not (isinstance(st, ast.Assign) and len(st.targets) == 1 and isinstance(st.targets[0], ast.Name)):
            raise Unsupported("%s: unrecognised statement before the loop" % where(q, st))
    e = match("for V_f in V_dts:\n    pass", _shell(loop, 1), env)
    if e is None:
        raise Unsupported("%s: the loop does not run over the selected fields" % where(q, loop))
    env = e
    loop.body = inline_private_calls(tree, loop.body)
    if len(loop.body) < 3:
        raise Unsupported("%s: the loop body has %d statements, expected at least 3" % (where(q, loop), len(loop.body)))
    e = match("V_ts = TimestampRecord(getattr(V_src, V_f.name), V_f.name)", loop.body[0], env)
    if e is None:
        raise Unsupported("%s: construction of the timestamp record has another shape" % where(q, loop.body[0]))
    env = e
    i, e = match_any(["V_out = extend_record(V_ts, [V_base], name=V_nm)", "V_out = extend_record(V_ts, [V_base], replace=False, name=V_nm)",
                      "V_out = extend_record(V_ts, [V_base], False, V_nm)"], loop.body[1], env)
    if i is None:
        raise Unsupported("%s: the extension of the timestamp record has another shape" % where(q, loop.body[1]))
    env = e
    # between the extension and the yield: `out.<slot> = <original>.<slot>` for reserved slots
    import flow.record.base as _base
    meta = []
    for st in loop.body[2:-1]:
        e = match("V_out.A_ = V_o.A_", _blank_attrs(st), env)
        if e is None or not (isinstance(st, ast.Assign) and len(st.targets) == 1 and isinstance(st.targets[0], ast.Attribute)
                             and isinstance(st.value, ast.Attribute) and st.targets[0].attr == st.value.attr):
            raise Unsupported("%s: unrecognised statement between the extension and the yield" % where(q, st))
        slot = st.value.attr
        if slot not in _base.RESERVED_FIELDS or slot in meta:
            raise Unsupported("%s: %r is not a reserved slot (or is copied twice)" % (where(q, st), slot))
        if _original_name(fn, loop, e["V_o"], "record") is not True:
            raise Unsupported("%s: the metadata is not copied from the original record" % where(q, st))
        meta.append(slot)
    # assignments to distinct reserved slots commute: list them in RESERVED_FIELDS order
    meta.sort(key=list(_base.RESERVED_FIELDS).index)
    if match("yield V_out", loop.body[-1], env) is None:
        raise Unsupported("%s: the loop does not yield the extended record" % where(q, loop.body[-1]))
    # name= must be the original record's type name, bound before the loop
    nm = env["V_nm"]
    ok = False
    for st in body[2:-1]:
        if match("V_nm = record._desc.name", st, {"V_nm": nm}) is not None:
            ok = True
    if not ok or nm in stores_in(loop.body):
        raise Unsupported("%s: name= is not the original record's type name" % q)
    from_original = _original_name(fn, loop, env["V_src"], "record")
    extends_previous = not _original_name(fn, loop, env["V_base"], "record")
    if extends_previous and env["V_base"] != env["V_out"]:
        raise Unsupported("%s: the record that is extended is re-bound in the loop but not to the yielded record" % q)
    return dict(select=sel.value, from_original=from_original, extends_previous=extends_previous, meta=meta)


def _blank_attrs(st):
    """copy of `a.x = b.y` with both attribute names replaced by A_ (the names are compared separately)"""
    if isinstance(st, ast.Assign) and len(st.targets) == 1 and isinstance(st.targets[0], ast.Attribute) and isinstance(st.value, ast.Attribute):
        return ast.Assign(targets=[ast.Attribute(value=st.targets[0].value, attr="A_", ctx=ast.Store())],
                          value=ast.Attribute(value=st.value.value, attr="A_", ctx=ast.Load()), type_comment=None)
    return st


def group_facts(tree):
    q = "GroupedRecord.__init__"
    fn = find_def(tree, q)
    if params(fn) != ["self", "name", "records"]:
        raise Unsupported("%s parameters are %r" % (q, params(fn)))
    body = strip_doc(fn.body)
    loops = [st for st in body if isinstance(st, ast.For)]
    if len(loops) != 1:
        raise Unsupported("%s: expected one top-level loop" % q)
    loop = loops[0]
    env = match("for V_rec in records:\n    pass", _shell(loop, 1))
    if env is None:
        raise Unsupported("%s: the loop does not run over `records`" % where(q, loop))
    lb = loop.body
    if len(lb) != 4:
        raise Unsupported("%s: loop body has %d statements, expected 4" % (where(q, loop), len(lb)))
    flatten = ("if isinstance(V_rec, GroupedRecord):\n    for V_r in V_rec.records:\n        self.records.append(V_r)\n"
               "        self.descriptors.append(V_r._desc)\nelse:\n    self.records.append(V_rec)\n    self.descriptors.append(V_rec._desc)")
    e = match(flatten, lb[0], env)
    if e is None:
        raise Unsupported("%s: the flattening of nested groups has another shape" % where(q, lb[0]))
    env = {k: v for k, v in e.items() if k != "V_r"}
    e = match("V_all = V_rec._desc.get_all_fields()", lb[1], env)
    if e is None:
        raise Unsupported("%s: all_fields has another shape" % where(q, lb[1]))
    env = e
    e = match("V_req = V_rec._desc.get_required_fields()", lb[2], env)
    if e is None:
        raise Unsupported("%s: required_fields has another shape" % where(q, lb[2]))
    env = e
    inner = lb[3]
    e = match("for V_field in V_all.values():\n    pass", _shell(inner, 1), env)
    if e is None:
        raise Unsupported("%s: the loop over all fields has another shape" % where(q, inner))
    env = e
    ib = list(inner.body)
    e = match("V_fn = V_field.name", ib[0], env)
    if e is None:
        raise Unsupported("%s: fname has another shape" % where(q, ib[0]))
    env = e
    ib = ib[1:]
    first_wins = False
    if ib and match("if V_fn in self.fieldname_to_record:\n    continue", ib[0], env) is not None:
        first_wins = True
        ib = ib[1:]
    if ib and match("self.fieldname_to_record[V_fn] = V_rec.fieldname_to_record[V_fn] if isinstance(V_rec, GroupedRecord) else V_rec", ib[0], env) is not None:
        maps_to_leaf = True
    elif ib and match("self.fieldname_to_record[V_fn] = V_rec", ib[0], env) is not None:
        maps_to_leaf = False
    else:
        raise Unsupported("%s: the routing entry has another shape" % where(q, inner))
    ib = ib[1:]
    if len(ib) != 1:
        raise Unsupported("%s: expected the flat_fields statement last" % where(q, inner))
    if match("if V_fn not in V_req:\n    self.flat_fields.append(V_field)", ib[0], env) is not None:
        flat_excl = True
    elif match("self.flat_fields.append(V_field)", ib[0], env) is not None:
        flat_excl = False
    else:
        raise Unsupported("%s: the flat_fields statement has another shape" % where(q, ib[0]))
    last = body[-1]
    i, _ = match_any(["self._desc = RecordDescriptor(self.name, [(V_f.typename, V_f.name) for V_f in self.flat_fields])",
                      "self._desc = RecordDescriptor(self.name, tuple((V_f.typename, V_f.name) for V_f in self.flat_fields))"], last)
    if i is None:
        raise Unsupported("%s: the flat descriptor has another shape" % where(q, last))
    # routing of attribute access
    ga = strip_doc(find_def(tree, "GroupedRecord.__getattr__").body)
    routes = (len(ga) == 3
              and match('V_x = self.__dict__.get("fieldname_to_record", {}).get(attr)', ga[0]) is not None
              and match_any(["if V_x:\n    return getattr(V_x, attr)", "if V_x is not None:\n    return getattr(V_x, attr)"], ga[1])[0] is not None
              and match("raise AttributeError(attr)", ga[2]) is not None)
    if not routes:
        raise Unsupported("GroupedRecord.__getattr__ has another shape")
    sa = strip_doc(find_def(tree, "GroupedRecord.__setattr__").body)
    routes = (len(sa) == 2
              and match_any(['if attr in getattr(self, "fieldname_to_record", {}):\n    V_x = self.fieldname_to_record.get(attr)\n    return setattr(V_x, attr, val)',
                             'if attr in getattr(self, "fieldname_to_record", {}):\n    V_x = self.fieldname_to_record[attr]\n    return setattr(V_x, attr, val)'], sa[0])[0] is not None
              and match("return object.__setattr__(self, attr, val)", sa[1]) is not None)
    if not routes:
        raise Unsupported("GroupedRecord.__setattr__ has another shape")
    # the attributes the group object itself carries: self.<x> = ... and self.__dict__["<x>"] = ... in __init__
    attrs = []
    for node in ast.walk(fn):
        if isinstance(node, ast.Assign):
            for t in node.targets:
                if isinstance(t, ast.Attribute) and isinstance(t.value, ast.Name) and t.value.id == "self" and t.attr not in attrs:
                    attrs.append(t.attr)
                if (isinstance(t, ast.Subscript) and match("self.__dict__", t.value, None, "expr") is not None
                        and isinstance(t.slice, ast.Constant) and isinstance(t.slice.value, str) and t.slice.value not in attrs):
                    attrs.append(t.slice.value)
    return dict(first_wins=first_wins, flat_excl=flat_excl, routes=True, maps_to_leaf=maps_to_leaf, attrs=sorted(attrs))


RAISE_LEFTOVER = 'if kwds:\n    raise ValueError("Got unexpected field names: {kwds!r}".format(kwds=list(kwds)))'


def replace_facts(tree):
    q = "GroupedRecord._replace"
    fn = find_def(tree, q)
    body = strip_doc(fn.body)
    if fn.args.kwarg is None or fn.args.kwarg.arg != "kwds" or params(fn) != ["self"]:
        raise Unsupported("%s signature" % q)
    reads_member = None
    raises_g = False
    env = {}
    # new_records = [] ; for m in self.records: new_records.append(cls(*map(kwds.pop, m.__slots__, (getattr(X, k) for k in m.__slots__))))
    if len(body) < 3 or match("V_new = []", body[0], env) is None:
        raise Unsupported("%s: first statement" % q)
    env = match("V_new = []", body[0])
    loop = body[1]
    for src_name, val in (("V_m", True), ("self", False)):
        pat = ("for V_m in self.records:\n    V_new.append(V_m.__class__(*map(kwds.pop, V_m.__slots__, (getattr(%s, V_k) for V_k in V_m.__slots__))))" % src_name)
        if match(pat, loop, env) is not None:
            reads_member = val
    if reads_member is None:
        raise Unsupported("%s: the member loop has another shape" % where(q, loop))
    rest = body[2:]
    if len(rest) == 2 and isinstance(rest[0], ast.If):
        if not _is_raise_leftover(rest[0]):
            raise Unsupported("%s: unrecognised statement" % where(q, rest[0]))
        raises_g = True
        rest = rest[1:]
    if len(rest) != 1 or match("return GroupedRecord(self.name, V_new)", rest[0], env) is None:
        raise Unsupported("%s: the return statement has another shape" % q)
    q2 = "Record._replace"
    fn2 = find_def(tree, q2)
    b2 = strip_doc(fn2.body)
    e = match("V_res = self.__class__(*map(kwds.pop, self.__slots__, (getattr(self, V_k) for V_k in self.__slots__)))", b2[0])
    if e is None:
        raise Unsupported("%s: the copy has another shape" % where(q2, b2[0]))
    raises_r = False
    rest = b2[1:]
    if len(rest) == 2 and isinstance(rest[0], ast.If):
        if not _is_raise_leftover(rest[0]):
            raise Unsupported("%s: unrecognised statement" % where(q2, rest[0]))
        raises_r = True
        rest = rest[1:]
    if len(rest) != 1 or match("return V_res", rest[0], e) is None:
        raise Unsupported("%s: the return statement has another shape" % q2)
    return dict(reads_member=reads_member, raises=raises_g and raises_r)


def _is_raise_leftover(st):
    return (isinstance(st, ast.If) and not st.orelse and isinstance(st.test, ast.Name) and st.test.id == "kwds"
            and len(st.body) == 1 and isinstance(st.body[0], ast.Raise) and isinstance(st.body[0].exc, ast.Call)
            and isinstance(st.body[0].exc.func, ast.Name) and st.body[0].exc.func.id == "ValueError")


def rewriter_facts(tree):
    q = "RecordFieldRewriter.record_descriptor_for_fields"
    fn = find_def(tree, q)
    if params(fn) != ["self", "descriptor", "fields", "exclude", "new_fields"]:
        raise Unsupported("%s parameters are %r" % (q, params(fn)))
    body = strip_doc(fn.body)
    if len(body) != 6:
        raise Unsupported("%s: %d statements, expected 6" % (q, len(body)))
    if match("if not fields and not exclude and not new_fields:\n    return descriptor", body[0]) is None:
        raise Unsupported("%s: first statement" % where(q, body[0]))
    if match("exclude = exclude or []", body[1]) is None:
        raise Unsupported("%s: second statement" % where(q, body[1]))
    env = match("V_df = []", body[2])
    if env is None:
        raise Unsupported("%s: third statement" % where(q, body[2]))
    sel = body[3]
    if not (isinstance(sel, ast.If) and match("fields", sel.test, None, "expr") is not None and len(sel.body) == 1 and len(sel.orelse) == 1):
        raise Unsupported("%s: the fields/exclude alternative has another shape" % where(q, sel))
    loop = sel.body[0]
    e = match("for V_fn in fields:\n    pass", _shell(loop, 1), env)
    if e is None:
        raise Unsupported("%s: the loop over fields has another shape" % where(q, loop))
    env = e
    lb = list(loop.body)
    exclude_wins = False
    if lb and match("if V_fn in exclude:\n    continue", lb[0], env) is not None:
        exclude_wins = True
        lb = lb[1:]
    if len(lb) != 2:
        raise Unsupported("%s: the body of the loop over fields has another shape" % where(q, loop))
    i, e = match_any(["V_field = descriptor.fields.get(V_fn, None)", "V_field = descriptor.fields.get(V_fn)"], lb[0], env)
    if i is None:
        raise Unsupported("%s: lookup of the field has another shape" % where(q, lb[0]))
    env = e
    i, _ = match_any(["if V_field:\n    V_df.append((V_field.typename, V_field.name))",
                      "if V_field is not None:\n    V_df.append((V_field.typename, V_field.name))"], lb[1], env)
    if i is None:
        raise Unsupported("%s: the append of the field has another shape" % where(q, lb[1]))
    i, _ = match_any(["V_df = [(V_t, V_n) for (V_t, V_n) in descriptor.get_field_tuples() if V_n not in exclude]"], sel.orelse[0], {"V_df": env["V_df"]})
    if i is None:
        raise Unsupported("%s: the exclude-only branch has another shape" % where(q, sel.orelse[0]))
    if match("if new_fields:\n    V_df.extend(new_fields)", body[4], {"V_df": env["V_df"]}) is None:
        raise Unsupported("%s: fifth statement" % where(q, body[4]))
    if match("return RecordDescriptor(descriptor.name, V_df)", body[5], {"V_df": env["V_df"]}) is None:
        raise Unsupported("%s: the return statement has another shape" % where(q, body[5]))
    q2 = "RecordFieldRewriter.rewrite"
    fn2 = find_def(tree, q2)
    b2 = strip_doc(fn2.body)
    identity = False
    if b2 and match("if not self.fields and not self.exclude and not self.expression:\n    return record", b2[0]) is not None:
        identity = True
        b2 = b2[1:]
    # the rest: local_dict / new_fields / optional expression / descriptor / init_from_dict(ChainMap(local_dict, record._asdict()))
    if len(b2) != 5:
        raise Unsupported("%s: %d statements after the identity test, expected 5" % (q2, len(b2)))
    env = match("V_ld = {}", b2[0])
    e2 = match("V_nf = []", b2[1])
    if env is None or e2 is None:
        raise Unsupported("%s: initialisation of local_dict/new_fields" % q2)
    env.update(e2)
    if not (isinstance(b2[2], ast.If) and match("self.expression", b2[2].test, None, "expr") is not None and not b2[2].orelse):
        raise Unsupported("%s: the expression branch has another shape" % where(q2, b2[2]))
    e = match("V_cls = self.record_descriptor_for_fields(record._desc, tuple(self.fields), tuple(self.exclude), tuple(V_nf))", b2[3], env)
    if e is None:
        raise Unsupported("%s: the call of record_descriptor_for_fields has another shape" % where(q2, b2[3]))
    env = e
    i, _ = match_any(["return V_cls.init_from_dict(ChainMap(V_ld, record._asdict()))",
                      "return V_cls.init_from_dict(collections.ChainMap(V_ld, record._asdict()))"], b2[4], env)
    if i is None:
        raise Unsupported("%s: the return statement has another shape" % where(q2, b2[4]))
    q3 = "RecordFieldRewriter.__init__"
    b3 = strip_doc(find_def(tree, q3).body)
    if len(b3) < 2 or match("self.fields = fields or []", b3[0]) is None or match("self.exclude = exclude or []", b3[1]) is None:
        raise Unsupported("%s has another shape" % q3)
    return dict(exclude_wins=exclude_wins, skips_unknown=True, identity=identity)


def purity_facts(tree):
    """get_all_fields must build its mapping from a COPY of the descriptor's field mapping (otherwise the first call
    adds the reserved fields to `descriptor.fields` itself); GroupedRecord._asdict must read every key through the
    member that owns it, in both branches."""
    q = "RecordDescriptor.get_all_fields"
    body = strip_doc(find_def(tree, q).body)
    if len(body) != 2 or match("return self._all_fields", body[1]) is None:
        raise Unsupported("%s has another shape" % q)
    st = body[0]
    if not (isinstance(st, ast.If) and not st.orelse and match("self._all_fields is None", st.test, None, "expr") is not None and len(st.body) == 2):
        raise Unsupported("%s: the caching test has another shape" % where(q, st))
    i, _ = match_any(["self._all_fields = self.fields.copy()", "self._all_fields = OrderedDict(self.fields)",
                      "self._all_fields = collections.OrderedDict(self.fields)", "self._all_fields = dict(self.fields)",
                      "self._all_fields = self.fields"], st.body[0])
    if i is None:
        raise Unsupported("%s: the initial mapping has another shape" % where(q, st.body[0]))
    copies = i != 4
    if match("self._all_fields.update(self.get_required_fields())", st.body[1]) is None:
        raise Unsupported("%s: the reserved fields are added in another way" % where(q, st.body[1]))
    # `fields` itself: cached OrderedDict built from the declared tuples
    q1 = "RecordDescriptor.fields"
    b1 = strip_doc(find_def(tree, q1).body)
    if not (len(b1) == 2 and match("return self._fields", b1[1]) is not None and match(
            "if self._fields is None:\n    self._fields = OrderedDict([(V_n, RecordField(V_n, V_t)) for V_t, V_n in self._field_tuples])", b1[0]) is not None):
        raise Unsupported("%s has another shape" % q1)
    q2 = "GroupedRecord._asdict"
    fn = find_def(tree, q2)
    if params(fn) != ["self", "fields", "exclude"]:
        raise Unsupported("%s parameters are %r" % (q2, params(fn)))
    b2 = strip_doc(fn.body)
    if len(b2) != 4 or match("exclude = exclude or []", b2[0]) is None:
        raise Unsupported("%s has another shape" % q2)
    env = match("V_keys = self.fieldname_to_record.keys()", b2[1])
    if env is None:
        raise Unsupported("%s: the key set has another shape" % where(q2, b2[1]))
    if not (isinstance(b2[2], ast.If) and not b2[2].orelse and len(b2[2].body) == 1 and match("fields", b2[2].test, None, "expr") is not None):
        raise Unsupported("%s: the fields= branch has another shape" % where(q2, b2[2]))
    reads = []
    for st, pat in ((b2[2].body[0], "return OrderedDict((V_k, %s) for V_k in fields if V_k in V_keys and V_k not in exclude)"),
                    (b2[3], "return OrderedDict((V_k, %s) for V_k in V_keys if V_k not in exclude)")):
        if match(pat % "getattr(self.fieldname_to_record[V_k], V_k)", st, env) is not None:
            reads.append(True)
        elif match(pat % "getattr(self, V_k)", st, env) is not None:
            reads.append(False)
        else:
            raise Unsupported("%s: unrecognised return statement" % where(q2, st))
    return dict(copies=copies, asdict_member=all(reads))


def cache_key_facts(tree, base):
    """merge_record_descriptors is memoised on its arguments (functools.lru_cache), so two calls with EQUAL descriptor tuples
    share one result: RecordDescriptor.__eq__ must be structural (name and field tuples).  Shape of __eq__ by ast; a
    behavioural probe on constructed descriptor pairs whose identifier input collides backs it up."""
    q = "RecordDescriptor.__eq__"
    fn = find_def(tree, q)
    if params(fn) != ["self", "other"]:
        raise Unsupported("%s parameters are %r" % (q, params(fn)))
    body = strip_doc(fn.body)
    if len(body) != 2 or match("return NotImplemented", body[1]) is None or not (
            isinstance(body[0], ast.If) and not body[0].orelse and len(body[0].body) == 1
            and match("isinstance(other, RecordDescriptor)", body[0].test, None, "expr") is not None):
        raise Unsupported("%s has another shape" % q)
    ret = body[0].body[0]
    i, _ = match_any([
        "return self.name == other.name and self.get_field_tuples() == other.get_field_tuples()",
        "return self.get_field_tuples() == other.get_field_tuples() and self.name == other.name",
        "return (self.name, self.get_field_tuples()) == (other.name, other.get_field_tuples())",
        "return self.name == other.name and self._field_tuples == other._field_tuples",
        "return self._pack() == other._pack()",
        "return self.identifier == other.identifier",
        "return self.descriptor_hash == other.descriptor_hash and self.name == other.name",
        "return hash(self) == hash(other)",
    ], ret)
    if i is None:
        raise Unsupported("%s: the comparison is neither the structural one nor a comparison of identifiers" % where(q, ret))
    structural = i <= 4
    # the memoised functions keyed by descriptors
    fnm = find_def(tree, "merge_record_descriptors")
    deco = [ast.unparse(d) for d in fnm.decorator_list]
    if not any("lru_cache" in d for d in deco):
        deco = []
    return dict(structural=structural, memoised=bool(deco))


# --------------------------------------------------------------------------------------------------
# OBSERVED facts: fixed probe batteries run on the real functions.  The ast recognisers above are cross-checks: a
# recognised shape that contradicts the observation fails closed; an unrecognised spelling is noted and the
# observation is used.

def _probe_env(base):
    import datetime as _dt
    utc = _dt.timezone.utc
    return dict(G1=_dt.datetime(2020, 1, 2, 3, 4, 5, tzinfo=utc), G2=_dt.datetime(2021, 6, 7, 8, 9, 10, tzinfo=utc),
                T1=_dt.datetime(2001, 1, 1, tzinfo=utc), T2=_dt.datetime(2002, 2, 2, tzinfo=utc), RD=base.RecordDescriptor)


def _sim_merge(triple, replace, descs):
    present, nr, im = triple
    m = {}
    for d in descs:
        for t, n in d:
            skip = present and ((not replace) if nr else True) and ((n in m) if im else True)
            if not skip:
                m[n] = t
    return [(t, n) for n, t in m.items()]


def observe_merge(base):
    e = _probe_env(base)
    RD = e["RD"]
    defs = [("probe/m1", [("string", "a"), ("varint", "b")]), ("probe/m2", [("varint", "a"), ("string", "c")]),
            ("probe/m3", [("float", "c"), ("bytes", "a"), ("string", "d")])]
    ds = [RD(n, f) for n, f in defs]
    batteries = [(0, 1, 2), (1, 0), (2, 1, 0), (0,), (1, 1)]
    seen = []
    try:
        for idx in batteries:
            for replace in (False, True):
                out = base.merge_record_descriptors(tuple(ds[i] for i in idx), replace)
                if out.name != defs[idx[0]][0]:
                    raise Unsupported("merge_record_descriptors names the result %r, not like the first descriptor" % out.name)
                seen.append((idx, replace, list(out.get_field_tuples())))
        if base.merge_record_descriptors((ds[0], ds[1]), False, "probe/renamed").name != "probe/renamed":
            raise Unsupported("merge_record_descriptors ignores name=")
    except Unsupported:
        raise
    except Exception as ex:  # noqa
        raise Unsupported("merge_record_descriptors raised %r on the probe descriptors" % (ex,))
    for triple in [(True, True, True), (True, False, True), (False, False, False), (True, True, False), (True, False, False)]:
        if all(_sim_merge(triple, replace, [defs[i][1] for i in idx]) == got for idx, replace, got in seen):
            return dict(present=triple[0], not_replace=triple[1], in_map=triple[2])
    raise Unsupported("merge_record_descriptors behaves like none of the modelled guard variants on the probe descriptors: %r" % (seen[:4],))


def observe_extend(base):
    e = _probe_env(base)
    RD = e["RD"]
    D1, D2, D3 = RD("probe/e1", [("string", "a"), ("varint", "b")]), RD("probe/e2", [("string", "a"), ("string", "c")]), RD("probe/e3", [("string", "a")])
    r1 = D1(a="one", b=2, _source="s1", _generated=e["G1"])
    r2 = D2(a="two", c="c2", _source="s2", _generated=e["G2"])
    r3 = D3(a="three", _source="s3", _generated=e["G2"])
    res = {}
    try:
        for replace in (False, True):
            out = base.extend_record(r1, [r2, r3], replace=replace)
            who = {"one": "first", "three": "last"}.get(out.a)
            who_meta = {"s1": "first", "s3": "last"}.get(out._source)
            if who is None or who != who_meta or out.b != 2 or out.c != "c2":
                raise Unsupported("extend_record(replace=%r) on the probe records gave a=%r _source=%r b=%r c=%r" % (replace, out.a, out._source, out.b, out.c))
            res[replace] = who == "last"
    except Unsupported:
        raise
    except Exception as ex:  # noqa
        raise Unsupported("extend_record raised %r on the probe records" % (ex,))
    # a record TYPE that recurs later in the list takes part in the precedence like any other record
    A, B = RD("probe/ra", [("string", "key"), ("varint", "n")]), RD("probe/rb", [("varint", "key"), ("string", "m")])
    a1, b1, a2 = A(key="0001", n=1, _generated=e["G1"]), B(key=7, m="m", _generated=e["G1"]), A(key="0099", n=3, _generated=e["G2"])
    try:
        for replace, want_t, want_v in ((True, "string", "0099" if res[True] else "0001"), (False, "string", "0099" if res[False] else "0001")):
            out = base.extend_record(a1, [b1, a2], replace=replace)
            got_t = dict((n, t) for t, n in out._desc.get_field_tuples()).get("key")
            if got_t != want_t or out.key != want_v:
                raise Unsupported("extend_record(A(key='0001'), [B(key=7), A(key='0099')], replace=%r) with A.key string, B.key varint "
                                  "gave key=%r of type %s" % (replace, out.key, got_t))
    except Unsupported:
        raise
    except Exception as ex:  # noqa
        raise Unsupported("extend_record raised %r on probe records whose type recurs (A, B, A)" % (ex,))
    return dict(rev_replace=res[True], rev_keep=res[False], chain_in_order=True)


def observe_init(base):
    D = base.RecordDescriptor("probe/i1", [("string", "a"), ("varint", "b")])
    try:
        r = D.init_from_dict({"a": "x", "zz": 1})
        ok = r.a == "x" and r.b is None
    except TypeError:
        return dict(filters=False)
    if not ok:
        raise Unsupported("init_from_dict with an unknown key gave %r" % (r,))
    try:
        D.init_from_dict({"a": "x", "zz": 1}, raise_unknown=True)
        raise Unsupported("init_from_dict(raise_unknown=True) accepts an unknown key")
    except TypeError:
        pass
    return dict(filters=True)


def observe_expand(base):
    e = _probe_env(base)
    A = e["RD"]("probe/ts", [("datetime", "a"), ("string", "x"), ("datetime", "ts")])
    r = A(a=e["T1"], x="xx", ts=e["T2"], _source="host1", _classification="secret", _generated=e["G1"])
    r._version = 7
    try:
        outs = list(base.iter_timestamped_records(r))
        fresh = base.TimestampRecord(e["T1"], "a")
    except Exception as ex:  # noqa
        raise Unsupported("iter_timestamped_records raised %r on the probe record" % (ex,))
    if len(outs) != 2 or [o.ts_description for o in outs] != ["a", "ts"] or outs[0].ts != e["T1"]:
        raise Unsupported("iter_timestamped_records on probe/ts(datetime a, string x, datetime ts) yielded %r" % (outs,))
    if outs[1].ts == e["T2"]:
        from_original = True
    elif outs[1].ts == e["T1"]:
        from_original = False
    else:
        raise Unsupported("the second expanded record has ts=%r" % (outs[1].ts,))
    metas = []
    for o in outs:
        m = []
        for slot in base.RESERVED_FIELDS:
            mine, theirs, got = getattr(r, slot), getattr(fresh, slot), getattr(o, slot)
            if mine == theirs:
                raise Unsupported("probe cannot tell whether %s is copied" % slot)
            if got == mine:
                m.append(slot)
        metas.append(m)
    if metas[0] != metas[1]:
        raise Unsupported("the expanded records do not carry the same metadata slots of the original: %r" % (metas,))
    # which field types are expanded
    types = ["datetime", "string", "varint", "float", "boolean", "bytes", "uri", "datetime[]", "path", "digest", "wstring", "filesize"]
    B = e["RD"]("probe/types", [(t, "f%d" % i) for i, t in enumerate(types)])
    rb = B(_generated=e["G1"], **{"f0": e["T1"], "f7": [e["T2"]]})
    try:
        sel = sorted({types[int(o.ts_description[1:])] for o in base.iter_timestamped_records(rb) if o is not rb})
    except Exception as ex:  # noqa
        raise Unsupported("iter_timestamped_records raised %r on the probe record with one field per type" % (ex,))
    if len(sel) != 1:
        raise Unsupported("iter_timestamped_records expands the field types %r" % (sel,))
    nots = e["RD"]("probe/nots", [("string", "x")])(x="1", _generated=e["G1"])
    same = list(base.iter_timestamped_records(nots))
    if len(same) != 1 or same[0] is not nots:
        raise Unsupported("a record without datetime fields is not yielded as it is")
    # a record type whose own first fields are (datetime ts, string ts_description) is expanded like any other
    C = e["RD"]("probe/own", [("datetime", "ts"), ("string", "ts_description"), ("datetime", "seen")])
    rc = C(ts=e["T1"], ts_description="mine", seen=e["T2"], _generated=e["G1"])
    try:
        oc = [(o.ts, o.ts_description) for o in base.iter_timestamped_records(rc)]
        again = [(o.ts, o.ts_description) for o in base.iter_timestamped_records(outs[0])]
    except Exception as ex:  # noqa
        raise Unsupported("iter_timestamped_records raised %r on a record that has fields ts / ts_description itself" % (ex,))
    if oc != [(e["T1"], "ts"), (e["T2"], "seen")] or again != [(e["T1"], "ts"), (e["T1"], "a")]:
        raise Unsupported("iter_timestamped_records on probe/own(datetime ts, string ts_description, datetime seen) yielded %r, on an "
                          "expanded record again %r" % (oc, again))
    return dict(select=sel[0], from_original=from_original, meta=metas[0])


def observe_group(base):
    e = _probe_env(base)
    RD, GR = e["RD"], base.GroupedRecord
    A, B = RD("probe/ga", [("string", "x"), ("varint", "p")]), RD("probe/gb", [("string", "x"), ("string", "z")])
    N = RD("probe/gn", [("string", "name"), ("string", "z")])

    def mk():
        return A(x="ax", p=1, _source="sa", _generated=e["G1"]), B(x="bx", z="bz", _source="sb", _generated=e["G2"])
    ra, rb = mk()
    try:
        g = GR("grp/p", [ra, rb])
    except base.RecordDescriptorError:
        # the flat descriptor could not be built: reserved names among the flat fields
        return dict(first_wins=True, flat_excl=False, routes=True, maps_to_leaf=True, attrs=[], reads_member=True, raises=True)
    except Exception as ex:  # noqa
        raise Unsupported("GroupedRecord raised %r on the probe records" % (ex,))
    try:
        owner = g.fieldname_to_record["x"]
        first_wins = {id(ra): True, id(rb): False}.get(id(owner))
        if first_wins is None or g._asdict()["x"] != ("ax" if first_wins else "bx") or g._asdict()["_source"] != ("sa" if first_wins else "sb"):
            raise Unsupported("GroupedRecord maps the shared field of the probe members to %r" % (owner,))
        names = [n for _, n in g._desc.get_field_tuples()]
        flat_excl = not any(n in base.RESERVED_FIELDS for n in names)
        if [n for n in names if n not in base.RESERVED_FIELDS] != ["x", "p", "z"] or list(g.records) != [ra, rb]:
            raise Unsupported("GroupedRecord of the probe members has the flat fields %r" % (names,))
        routes = (g.z == "bz" and g.p == 1)
        g.z = "viaz"
        routes = routes and rb.z == "viaz" and g.z == "viaz" and ra.x == "ax"
        attrs = sorted(vars(g).keys())
        # nested group
        na, nb = mk()
        nn = N(name="alice", z="nz", _generated=e["G1"])
        inner = GR("grp/i", [nb, nn])
        outer = GR("grp/o", [na, inner])
        if list(outer.records) != [na, nb, nn]:
            raise Unsupported("a nested group is not flattened into the members")
        o = outer.fieldname_to_record["z"]
        maps_to_leaf = {id(nb): True, id(inner): False}.get(id(o))
        if maps_to_leaf is None:
            raise Unsupported("the outer probe group maps a nested group's field to %r" % (o,))
        if (outer._asdict()["name"] == "alice") != maps_to_leaf:
            raise Unsupported("the outer probe group's _asdict()['name'] is %r" % (outer._asdict()["name"],))
        # _replace
        pa, pb = mk()
        new = GR("grp/p", [pa, pb])._replace(z="new")
        got = (new.records[0].x, new.records[1].x, new.records[1].z, pb.z)
        reads_member = {("ax", "bx", "new", "bz"): True, ("ax", "ax", "new", "bz"): False}.get(got)
        if reads_member is None:
            raise Unsupported("GroupedRecord._replace(z='new') on the probe members gave %r" % (got,))
        r1 = r2 = None
        try:
            pa._replace(q=1)
            r1 = False
        except ValueError:
            r1 = True
        try:
            GR("grp/p", [pa, pb])._replace(q=1)
            r2 = False
        except ValueError:
            r2 = True
        if r1 != r2:
            raise Unsupported("Record._replace and GroupedRecord._replace treat unknown names differently")
        if pa._replace(x="k").x != "k" or pa.x != "ax":
            raise Unsupported("Record._replace does not replace / modifies the original")
    except Unsupported:
        raise
    except Exception as ex:  # noqa
        raise Unsupported("probing GroupedRecord raised %r" % (ex,))
    return dict(first_wins=first_wins, flat_excl=flat_excl, routes=bool(routes), maps_to_leaf=maps_to_leaf, attrs=attrs,
                reads_member=reads_member, raises=r1)


def observe_rewriter(base, stream):
    e = _probe_env(base)
    D = e["RD"]("probe/rw", [("string", "a"), ("varint", "b"), ("string", "c")])
    r = D(a="x", b=2, c="y", _source="s", _generated=e["G1"])
    RW = stream.RecordFieldRewriter

    def names(**kw):
        try:
            o = RW(**kw).rewrite(r)
            return [n for _, n in o._desc.get_field_tuples()], o
        except Exception as ex:  # noqa
            return "raised %s" % type(ex).__name__, None
    n1, _ = names(fields=["b", "a"], exclude=["a"])
    exclude_wins = {("b",): True, ("b", "a"): False}.get(tuple(n1) if isinstance(n1, list) else n1)
    n2, _ = names(fields=["zz", "c", "b"])
    skips_unknown = True if n2 == ["c", "b"] else False
    n3, o3 = names(exclude=["b"])
    if exclude_wins is None or n3 != ["a", "c"] or o3.a != "x" or o3._source != "s":
        raise Unsupported("RecordFieldRewriter on the probe record: fields+exclude -> %r, exclude -> %r" % (n1, n3))
    try:
        identity = RW().rewrite(r) is r
    except Exception as ex:  # noqa
        raise Unsupported("RecordFieldRewriter().rewrite raised %r" % (ex,))
    return dict(exclude_wins=exclude_wins, skips_unknown=skips_unknown, identity=identity)


def observe_purity(base):
    e = _probe_env(base)
    D = e["RD"]("probe/pure", [("string", "name"), ("datetime", "d")])
    before = [(f.typename, n) for n, f in D.fields.items()]
    allf = list(D.get_all_fields())
    after = [(f.typename, n) for n, f in D.fields.items()]
    if allf != ["name", "d"] + list(base.RESERVED_FIELDS) or before != [("string", "name"), ("datetime", "d")]:
        raise Unsupported("get_all_fields() of the probe descriptor is %r" % (allf,))
    copies = after == before and [f.name for f in D.getfields("datetime")] == ["d"]
    g = base.GroupedRecord("grp/q", [D(name="alice", d=e["T1"], _generated=e["G1"])])
    try:
        v = (g._asdict()["name"], g._asdict(fields=["name"])["name"], g._asdict(exclude=["d"])["name"], g._asdict(fields=["name", "d"], exclude=["d"])["name"])
    except Exception as ex:  # noqa
        raise Unsupported("GroupedRecord._asdict raised %r on the probe group" % (ex,))
    return dict(copies=copies, asdict_member=all(x == "alice" for x in v))


def observe_cache_key(base):
    pairs = [([("string", "aw")], [("wstring", "a")]), ([("string[]", "xw")], [("wstring[]", "x")]),
             ([("stringlist", "a"), ("varint", "b")], [("string", "a"), ("varint", "listb")]),
             ([("varint", "a"), ("string", "b")], [("string", "avarintb")])]
    structural = True
    for fa, fb in pairs:
        da, db = base.RecordDescriptor("probe/eq", fa), base.RecordDescriptor("probe/eq", fb)
        if da == db or not (da != db):
            structural = False
        if base.RecordDescriptor("probe/eq", fa) != da or hash(base.RecordDescriptor("probe/eq", fa)) != hash(da):
            raise Unsupported("RecordDescriptor.__eq__/__hash__ do not identify equal definitions")
    return dict(structural=structural, memoised=hasattr(base.merge_record_descriptors, "cache_info"))


def cross_check(notes, what, recogniser, observed, keys, same=None):
    """run the ast recogniser; a recognised shape must agree with the observation"""
    try:
        rec = recogniser()
    except Unsupported as ex:
        notes.append("%s: shape not recognised (%s); observed behaviour used" % (what, ex))
        return None
    for k in keys:
        a, b = rec.get(k), observed.get(k)
        if (same(k, rec, observed) if same else a == b):
            continue
        raise Unsupported("%s: the source reads as %s=%r but the probes show %r" % (what, k, a, b))
    return rec


def gen_compose():
    import flow.record.base as base
    import flow.record.stream as stream
    btree = ast.parse(Path(base.__file__).read_text())
    stree = ast.parse(Path(stream.__file__).read_text())
    notes = []
    m = observe_merge(base)
    x = observe_extend(base)
    i = observe_init(base)
    t = observe_expand(base)
    g = observe_group(base)
    w = observe_rewriter(base, stream)
    pu = observe_purity(base)
    ck = observe_cache_key(base)
    cross_check(notes, "merge_record_descriptors", lambda: merge_facts(btree), m, ["present", "not_replace", "in_map"])
    # extend_record: only the resulting precedence is comparable (a reversal can be spelled at either place)
    cross_check(notes, "extend_record", lambda: extend_facts(btree), x, ["rev_replace", "rev_keep"],
                same=lambda k, rec, ob: (rec[k] != (not rec["chain_in_order"])) == ob[k])
    cross_check(notes, "init_from_dict", lambda: init_facts(btree), i, ["filters"])
    ta = cross_check(notes, "iter_timestamped_records", lambda: expand_facts(btree), t, ["select", "from_original", "meta"])
    # whether the loop extends the re-bound record cannot be observed (the theorem holds either way)
    t["extends_previous"] = ta["extends_previous"] if ta else True
    cross_check(notes, "GroupedRecord.__init__/__getattr__/__setattr__", lambda: group_facts(btree), g,
                ["first_wins", "flat_excl", "routes", "maps_to_leaf"])
    cross_check(notes, "_replace", lambda: replace_facts(btree), dict(reads_member=g["reads_member"], raises=g["raises"]), ["reads_member", "raises"])
    cross_check(notes, "RecordFieldRewriter", lambda: rewriter_facts(stree), w, ["exclude_wins", "skips_unknown", "identity"])
    cross_check(notes, "get_all_fields/GroupedRecord._asdict", lambda: purity_facts(btree), pu, ["copies", "asdict_member"])
    cross_check(notes, "RecordDescriptor.__eq__", lambda: cache_key_facts(btree, base), ck, ["structural"])
    ts = base.TimestampRecord
    tsf = list(ts.get_field_tuples())
    if len(tsf) != 2:
        raise Unsupported("TimestampRecord has %d fields" % len(tsf))
    t["meta"] = sorted(t["meta"], key=list(base.RESERVED_FIELDS).index)
    reserved = [(k, v) for k, v in base.RESERVED_FIELDS.items()]
    out = HEADER
    out += "From Coq Require Import List Bool String.\nImport ListNotations.\nFrom FR Require Import Compose.\nOpen Scope string_scope.\n\n"
    out += "(* The facts below are OBSERVED on fixed probe batteries run on the real functions (the observe_... functions of tools/vf/factgen/c15.py);\n"
    out += "   the ast recognisers are cross-checks: a recognised shape that contradicts the observation stops the translator. *)\n"
    for nline in notes:
        out += "(* note: %s *)\n" % nline.replace("(*", "( *").replace("*)", "* )").replace('"', "'")[:400]
    out += "\n(* flow/record/base.py RESERVED_FIELDS: (name, typename) in slot order *)\n"
    out += "Definition gen_reserved : list (string * string) :=\n  %s.\n\n" % clist([cpair(cstr(k), cstr(v)) for k, v in reserved])
    out += "(* TimestampRecord = RecordDescriptor(%r, %r); iter_timestamped_records expands the fields of type %r and\n" % (ts.name, tsf, t["select"])
    out += "   copies the listed reserved slots of the original record onto every output *)\n"
    out += "Definition gen_ts : tsfacts :=\n  {| ts_desc_name := %s; ts_k1 := %s; ts_t1 := %s; ts_k2 := %s; ts_t2 := %s; ts_select := %s;\n     ts_meta := %s |}.\n\n" % (
        cstr(ts.name), cstr(tsf[0][1]), cstr(tsf[0][0]), cstr(tsf[1][1]), cstr(tsf[1][0]), cstr(t["select"]),
        clist([cstr(k) for k in t["meta"]]))
    out += "(* iter_timestamped_records: the loop extends the record it yielded in the previous round (re-binding); read from the\n"
    out += "   source when recognised, not observable (the theorems hold for either value) *)\n"
    out += "Definition gen_ts_extends_previous : bool := %s.\n\n" % cbool(t["extends_previous"])
    out += "(* get_all_fields() leaves descriptor.fields / getfields() unchanged; GroupedRecord._asdict serves a member field called\n"
    out += "   like a group attribute with the member's value, with and without fields= / exclude= *)\n"
    out += "Definition gen_all_fields_copies : bool := %s.\n" % cbool(pu["copies"])
    out += "Definition gen_group_asdict_reads_member : bool := %s.\n\n" % cbool(pu["asdict_member"])
    out += "(* RecordDescriptor.__eq__ distinguishes constructed descriptor pairs whose identifier input collides;\n"
    out += "   merge_record_descriptors is memoised on its arguments: %s *)\n" % ("yes (cache_info present)" if ck["memoised"] else "no")
    out += "Definition gen_desc_eq_structural : bool := %s.\n" % cbool(ck["structural"])
    out += "Definition gen_merge_memoised : bool := %s.\n\n" % cbool(ck["memoised"])
    out += "(* attributes a GroupedRecord object itself carries (vars() of a probe group) *)\n"
    out += "Definition gen_group_attrs : list string := %s.\n\n" % clist([cstr(a) for a in g["attrs"]])
    out += "Definition gen_facts : facts :=\n  {| " + ";\n     ".join([
        "f_merge_guard_present := %s" % cbool(m["present"]),
        "f_merge_guard_not_replace := %s" % cbool(m["not_replace"]),
        "f_merge_guard_in_map := %s" % cbool(m["in_map"]),
        "f_extend_rev_when_replace := %s" % cbool(x["rev_replace"]),
        "f_extend_rev_when_keep := %s" % cbool(x["rev_keep"]),
        "f_chain_in_order := %s" % cbool(x["chain_in_order"]),
        "f_init_filters_unknown := %s" % cbool(i["filters"]),
        "f_ts_from_original := %s" % cbool(t["from_original"]),
        "f_group_first_wins := %s" % cbool(g["first_wins"]),
        "f_group_flat_excludes_reserved := %s" % cbool(g["flat_excl"]),
        "f_group_getattr_routes := %s" % cbool(g["routes"]),
        "f_group_replace_reads_member := %s" % cbool(g["reads_member"]),
        "f_replace_raises_on_leftover := %s" % cbool(g["raises"]),
        "f_rewrite_exclude_wins := %s" % cbool(w["exclude_wins"]),
        "f_rewrite_skips_unknown := %s" % cbool(w["skips_unknown"]),
        "f_rewrite_identity_when_empty := %s" % cbool(w["identity"]),
        "f_group_maps_to_leaf := %s" % cbool(g["maps_to_leaf"]),
    ]) + " |}.\n"
    write_if_changed(GEN / "Gen_compose.v", out)


GENERATORS = [gen_compose]
