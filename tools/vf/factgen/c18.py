"""Fact generator for C18 (flow/record/adapter/sqlite.py) -> coq/gen/Gen_sqlite.v

Facts read from the imported module (values): FIELD_MAP, SQLITE_FIELD_MAP, RESERVED_FIELDS, the default batch
size, the alphabet of accepted type/field names (probed on the live validators).
Facts read from the source (shapes): the bodies of SqliteWriter.__init__/write/tx_cycle/flush/close as lists of
the statements the model's interpreter knows (coq/model/Sqlite.v: cond/simple/stmt).  Fail closed: any statement
or condition outside that vocabulary raises Unsupported with the source line.
"""
from __future__ import annotations

import ast
import inspect
import textwrap

from vf.coqlit import cbool, clist, cN, cpair, cstr
from vf.factlib import GEN, HEADER, Unsupported, write_if_changed


# ------------------------------------------------------------------------------------------
# shapes

def _is_self_attr(node, attr):
    return isinstance(node, ast.Attribute) and node.attr == attr and isinstance(node.value, ast.Name) and node.value.id == "self"


class _Method:
    """Translate one method body.  Local aliases `x = self.con`, `x = record._desc` are resolved."""

    def __init__(self, fn, recname=None, owner=None, alias=None, depth=0):
        self.owner = owner          # the class, to follow self._helper(...) calls one level
        self.depth = depth
        self.fn = fn
        src = textwrap.dedent(inspect.getsource(fn))
        self.node = ast.parse(src).body[0]
        self.line0 = fn.__code__.co_firstlineno - 1
        self.file = fn.__code__.co_filename
        self.recname = recname
        self.alias = dict(alias or {})     # local name -> "con" | "desc" | "record"

    def bad(self, node, what):
        raise Unsupported("%s: %s at %s:%d: %s" % (self.fn.__qualname__, what, self.file, self.line0 + getattr(node, "lineno", 0),
                                                   ast.unparse(node)[:80]))

    # --- expressions
    def is_con(self, node):
        return _is_self_attr(node, "con") or (isinstance(node, ast.Name) and self.alias.get(node.id) == "con")

    def is_desc(self, node):
        if isinstance(node, ast.Name) and self.alias.get(node.id) == "desc":
            return True
        return (self.recname is not None and isinstance(node, ast.Attribute) and node.attr == "_desc"
                and isinstance(node.value, ast.Name) and node.value.id == self.recname)

    def is_record(self, node):
        if isinstance(node, ast.Name) and self.alias.get(node.id) == "record":
            return True
        return self.recname is not None and isinstance(node, ast.Name) and node.id == self.recname

    def helper_call(self, st):
        """`self._helper(args)` / `_helper(args)` (a private method of the class / private module function whose arguments
        are the connection, the descriptor or the record) -> a _Method for its body with the parameters bound, else None"""
        if not (isinstance(st, ast.Expr) and isinstance(st.value, ast.Call)) or self.depth >= 1 or self.owner is None:
            return None
        c = st.value
        if c.keywords:
            return None
        target = None
        if isinstance(c.func, ast.Attribute) and isinstance(c.func.value, ast.Name) and c.func.value.id == "self":
            if c.func.attr in ("flush", "tx_cycle", "close", "write"):
                return None
            target = inspect.getattr_static(self.owner, c.func.attr, None)
            skip_self = True
        elif isinstance(c.func, ast.Name) and c.func.id.startswith("_"):
            import sys as _sys
            target = getattr(_sys.modules[self.owner.__module__], c.func.id, None)
            skip_self = False
        if not inspect.isfunction(target):
            return None
        params = [p for p in inspect.signature(target).parameters]
        if skip_self:
            params = params[1:]
        if len(params) != len(c.args):
            return None
        env = {}
        for pname, a in zip(params, c.args):
            if self.is_con(a):
                env[pname] = "con"
            elif self.is_desc(a):
                env[pname] = "desc"
            elif self.is_record(a):
                env[pname] = "record"
            else:
                return None
        return _Method(target, owner=self.owner, alias=env, depth=self.depth + 1)

    def simples(self, st):
        """-> list of `simple` names for one statement (a private helper is spliced in)"""
        sub = self.helper_call(st)
        if sub is not None:
            out = []
            for s2 in sub.node.body:
                if sub.alias_stmt(s2):
                    continue
                if isinstance(s2, (ast.If, ast.Return)) and not (isinstance(s2, ast.Return) and s2.value is None):
                    sub.bad(s2, "control flow in a helper called from a branch")
                if isinstance(s2, ast.Return):
                    break
                x = sub.simple(s2)
                if x is not None:
                    out.append(x)
            return out
        x = self.simple(st)
        return [] if x is None else [x]

    def cond(self, node):
        # desc not in self.descriptors_seen
        if (isinstance(node, ast.Compare) and len(node.ops) == 1 and isinstance(node.ops[0], ast.NotIn)
                and self.is_desc(node.left) and _is_self_attr(node.comparators[0], "descriptors_seen")):
            return "CNewDesc"
        # self.count % self.batch_size == 0   |   not self.count % self.batch_size
        def is_mod(n):
            return (isinstance(n, ast.BinOp) and isinstance(n.op, ast.Mod) and _is_self_attr(n.left, "count")
                    and _is_self_attr(n.right, "batch_size"))
        if (isinstance(node, ast.Compare) and len(node.ops) == 1 and isinstance(node.ops[0], ast.Eq) and is_mod(node.left)
                and isinstance(node.comparators[0], ast.Constant) and node.comparators[0].value == 0
                and type(node.comparators[0].value) is int):
            return "CBatchFull"
        if isinstance(node, ast.UnaryOp) and isinstance(node.op, ast.Not) and is_mod(node.operand):
            return "CBatchFull"
        # self.con   |   self.con is not None
        if self.is_con(node):
            return "CHasCon"
        if (isinstance(node, ast.Compare) and len(node.ops) == 1 and isinstance(node.ops[0], ast.IsNot) and self.is_con(node.left)
                and isinstance(node.comparators[0], ast.Constant) and node.comparators[0].value is None):
            return "CHasCon"
        # self.con.in_transaction
        if isinstance(node, ast.Attribute) and node.attr == "in_transaction" and self.is_con(node.value):
            return "CInTx"
        self.bad(node, "unrecognised condition")

    def simple(self, st):
        """-> name of a `simple`, or None for a statement without effect on the modelled state"""
        if isinstance(st, ast.Expr) and isinstance(st.value, ast.Constant) and isinstance(st.value.value, str):
            return None                                    # docstring
        if isinstance(st, ast.Pass):
            return None
        if isinstance(st, ast.Expr) and isinstance(st.value, ast.Call):
            c = st.value
            f = c.func
            # logging
            if isinstance(f, ast.Attribute) and f.attr in ("debug", "info") and (
                    (isinstance(f.value, ast.Name) and f.value.id == "logger") or _is_self_attr(f.value, "logger")):
                return None
            if c.keywords:
                self.bad(st, "call with keywords")
            # self.flush() / self.tx_cycle()
            if isinstance(f, ast.Attribute) and isinstance(f.value, ast.Name) and f.value.id == "self" and not c.args:
                if f.attr == "flush":
                    return "CallFlush"
                if f.attr == "tx_cycle":
                    return "CallTxCycle"
            # self.descriptors_seen.add(desc)
            if (isinstance(f, ast.Attribute) and f.attr == "add" and _is_self_attr(f.value, "descriptors_seen")
                    and len(c.args) == 1 and self.is_desc(c.args[0])):
                return "SeenAdd"
            # module-level helpers
            if isinstance(f, ast.Name) and len(c.args) == 2 and self.is_con(c.args[0]):
                if f.id == "create_descriptor_table" and self.is_desc(c.args[1]):
                    return "CreateTable"
                if f.id == "update_descriptor_columns" and self.is_desc(c.args[1]):
                    return "UpdateColumns"
                if f.id == "db_insert_record" and self.is_record(c.args[1]):
                    return "InsertRecord"
            # self.con.execute("COMMIT"/"BEGIN") / self.con.close()
            if isinstance(f, ast.Attribute) and self.is_con(f.value):
                if f.attr == "execute" and len(c.args) == 1 and isinstance(c.args[0], ast.Constant) and isinstance(c.args[0].value, str):
                    sql = c.args[0].value.strip().rstrip(";").upper()
                    if sql == "COMMIT":
                        return "ExecCommit"
                    if sql in ("BEGIN", "BEGIN DEFERRED", "BEGIN TRANSACTION"):
                        return "ExecBegin"
                if f.attr == "close" and not c.args:
                    return "ConClose"
        if (isinstance(st, ast.AugAssign) and isinstance(st.op, ast.Add) and _is_self_attr(st.target, "count")
                and isinstance(st.value, ast.Constant) and st.value.value == 1 and type(st.value.value) is int):
            return "IncrCount"
        self.bad(st, "unrecognised statement")

    def alias_stmt(self, st):
        if isinstance(st, ast.Assign) and len(st.targets) == 1 and isinstance(st.targets[0], ast.Name):
            name = st.targets[0].id
            if _is_self_attr(st.value, "con"):
                self.alias[name] = "con"
                return True
            if self.is_desc(st.value):
                self.alias[name] = "desc"
                return True
        return False

    def body(self):
        out = []
        for st in self.node.body:
            if self.alias_stmt(st):
                continue
            if isinstance(st, ast.If):
                if st.orelse:
                    self.bad(st, "if with else")
                c = self.cond(st.test)
                inner = []
                for s2 in st.body:
                    if isinstance(s2, ast.If):
                        self.bad(s2, "nested if")
                    inner.extend(self.simples(s2))
                out.append(("when", c, inner))
                continue
            # self.con = None
            if (isinstance(st, ast.Assign) and len(st.targets) == 1 and _is_self_attr(st.targets[0], "con")
                    and isinstance(st.value, ast.Constant) and st.value.value is None):
                out.append(("setnone",))
                continue
            sub = self.helper_call(st)
            if sub is not None:
                out.extend(sub.body())
                continue
            x = self.simple(st)
            if x is not None:
                out.append(("do", x))
        return out


def _init_facts(cls):
    """__init__: connect(..., isolation_level=None), count = 0, descriptors_seen = set(), ends with self.tx_cycle()."""
    fn = cls.__init__
    node = ast.parse(textwrap.dedent(inspect.getsource(fn))).body[0]
    autocommit = count_zero = seen_empty = False
    batch_from_arg = False
    body = [s for s in node.body if not (isinstance(s, ast.Expr) and isinstance(s.value, ast.Constant))]
    for st in body:
        if isinstance(st, ast.Assign) and len(st.targets) == 1 and isinstance(st.targets[0], ast.Attribute) \
                and isinstance(st.targets[0].value, ast.Name) and st.targets[0].value.id == "self":
            attr, v = st.targets[0].attr, st.value
            if attr == "con":
                if isinstance(v, ast.Constant) and v.value is None:
                    continue
                if (isinstance(v, ast.Call) and isinstance(v.func, ast.Attribute) and v.func.attr == "connect"
                        and isinstance(v.func.value, ast.Name) and v.func.value.id == "sqlite3"):
                    kw = {k.arg: k.value for k in v.keywords}
                    iso = kw.get("isolation_level")
                    autocommit = isinstance(iso, ast.Constant) and iso.value is None
                    if set(kw) - {"isolation_level"}:
                        raise Unsupported("SqliteWriter.__init__: connect() with keywords %s" % sorted(kw))
                    continue
            elif attr == "count":
                count_zero = isinstance(v, ast.Constant) and v.value == 0 and type(v.value) is int
                continue
            elif attr == "descriptors_seen":
                seen_empty = isinstance(v, ast.Call) and isinstance(v.func, ast.Name) and v.func.id == "set" and not v.args
                continue
            elif attr == "batch_size":
                batch_from_arg = (isinstance(v, ast.Call) and isinstance(v.func, ast.Name) and v.func.id == "int"
                                  and len(v.args) == 1 and isinstance(v.args[0], ast.Name) and v.args[0].id == "batch_size") \
                    or (isinstance(v, ast.Name) and v.id == "batch_size")
                continue
        if st is body[-1]:
            break
        raise Unsupported("SqliteWriter.__init__: unrecognised statement at line %d: %s" % (
            fn.__code__.co_firstlineno - 1 + st.lineno, ast.unparse(st)[:80]))
    last = body[-1]
    tx = (isinstance(last, ast.Expr) and isinstance(last.value, ast.Call) and isinstance(last.value.func, ast.Attribute)
          and last.value.func.attr == "tx_cycle" and isinstance(last.value.func.value, ast.Name) and last.value.func.value.id == "self"
          and not last.value.args)
    if not (seen_empty and batch_from_arg):
        raise Unsupported("SqliteWriter.__init__: descriptors_seen is not set() or batch_size is not taken from the argument")
    return autocommit, count_zero, tx


def _probe_name_chars():
    """Characters that occur in some accepted record type name or field name (single-character probes in first,
    middle and last position against the live validators, all code points below 0x250 plus a sample above)."""
    from flow.record import RecordDescriptor
    from flow.record.base import RE_VALID_FIELD_NAME, RE_VALID_RECORD_TYPE_NAME

    def type_ok(s):
        if not RE_VALID_RECORD_TYPE_NAME.match(s):
            return False
        try:
            RecordDescriptor(s, [("string", "probe_f")])
            return True
        except Exception:
            return False

    def field_ok(s):
        if not RE_VALID_FIELD_NAME.match(s) or s.startswith("_"):
            return False
        try:
            RecordDescriptor("probe/t", [("string", s)])
            return True
        except Exception:
            return False

    cps = list(range(0x250)) + [0x3A9, 0x430, 0x4E2D, 0xFF21, 0x1D400, 0x2028, 0x85]
    acc = set()
    for cp in cps:
        c = chr(cp)
        for fn in (type_ok, field_ok):
            if any(fn(s) for s in (c, c + "a", "a" + c, "a" + c + "a")):
                acc.add(c)
    bad = [c for c in acc if ord(c) > 126 or ord(c) < 32]
    if bad:
        raise Unsupported("a validator accepts names containing %r; the name alphabet is no longer printable ASCII" % bad)
    return "".join(sorted(acc))


def _reader_facts(cls):
    """SqliteReader.table_names: `X = self.con.execute(<SQL constant>).fetchall(); return [r[0] for r in X]` (no filter),
    and __iter__: every listed table is read and every record yielded unless the selector rejects it."""
    fn = cls.table_names
    node = ast.parse(textwrap.dedent(inspect.getsource(fn))).body[0]
    body = [s for s in node.body if not (isinstance(s, ast.Expr) and isinstance(s.value, ast.Constant))]

    def where(n):
        return "SqliteReader.table_names line %d: %s" % (fn.__code__.co_firstlineno - 1 + getattr(n, "lineno", 0), ast.unparse(n)[:90])

    def query_of(call):
        if (isinstance(call, ast.Call) and isinstance(call.func, ast.Attribute) and call.func.attr == "fetchall" and not call.args
                and isinstance(call.func.value, ast.Call)):
            ex = call.func.value
            if (isinstance(ex.func, ast.Attribute) and ex.func.attr == "execute" and _is_self_attr(ex.func.value, "con")
                    and len(ex.args) == 1 and not ex.keywords and isinstance(ex.args[0], ast.Constant) and isinstance(ex.args[0].value, str)):
                return ex.args[0].value
        return None
    sql = None
    src_name = None
    if len(body) == 2 and isinstance(body[0], ast.Assign) and len(body[0].targets) == 1 and isinstance(body[0].targets[0], ast.Name):
        sql = query_of(body[0].value)
        src_name = body[0].targets[0].id
        ret = body[1]
    elif len(body) == 1:
        ret = body[0]
    else:
        raise Unsupported("unrecognised body: " + where(node))
    if not (isinstance(ret, ast.Return) and isinstance(ret.value, ast.ListComp) and len(ret.value.generators) == 1):
        raise Unsupported("unrecognised return: " + where(ret))
    g = ret.value.generators[0]
    if g.ifs or g.is_async or not isinstance(g.target, ast.Name):
        raise Unsupported("the table list is filtered: " + where(ret))
    elt = ret.value.elt
    if not (isinstance(elt, ast.Subscript) and isinstance(elt.value, ast.Name) and elt.value.id == g.target.id
            and isinstance(elt.slice, ast.Constant) and elt.slice.value == 0):
        raise Unsupported("unrecognised element: " + where(ret))
    if src_name is not None:
        if not (isinstance(g.iter, ast.Name) and g.iter.id == src_name):
            raise Unsupported("unrecognised source of the table list: " + where(ret))
    else:
        sql = query_of(g.iter)
    if sql is None:
        raise Unsupported("the table list does not come from one constant query: " + where(node))
    norm = " ".join(sql.replace('"', "'").split()).rstrip(";").strip().lower()
    if not all(32 <= ord(c) < 127 for c in norm):
        raise Unsupported("non-ASCII table enumeration query")

    # __iter__
    fn2 = cls.__iter__
    node2 = ast.parse(textwrap.dedent(inspect.getsource(fn2))).body[0]
    body2 = [s for s in node2.body if not (isinstance(s, ast.Expr) and isinstance(s.value, ast.Constant))]

    def is_log(st):
        return (isinstance(st, ast.Expr) and isinstance(st.value, ast.Call) and isinstance(st.value.func, ast.Attribute)
                and st.value.func.attr in ("debug", "info"))

    def bad2(n):
        raise Unsupported("SqliteReader.__iter__ line %d: %s" % (fn2.__code__.co_firstlineno - 1 + getattr(n, "lineno", 0), ast.unparse(n)[:90]))
    if len(body2) != 1 or not isinstance(body2[0], ast.For) or body2[0].orelse:
        bad2(node2)
    outer = body2[0]
    it = outer.iter
    if not (isinstance(it, ast.Call) and isinstance(it.func, ast.Attribute) and it.func.attr == "table_names"
            and isinstance(it.func.value, ast.Name) and it.func.value.id == "self" and not it.args and isinstance(outer.target, ast.Name)):
        bad2(outer)
    inner = [s for s in outer.body if not is_log(s)]
    if len(inner) != 1 or not isinstance(inner[0], ast.For) or inner[0].orelse:
        bad2(outer)
    f2 = inner[0]
    it2 = f2.iter
    if not (isinstance(it2, ast.Call) and isinstance(it2.func, ast.Attribute) and it2.func.attr == "read_table"
            and isinstance(it2.func.value, ast.Name) and it2.func.value.id == "self" and len(it2.args) == 1
            and isinstance(it2.args[0], ast.Name) and it2.args[0].id == outer.target.id and isinstance(f2.target, ast.Name)):
        bad2(f2)
    rec = f2.target.id
    b3 = [s for s in f2.body if not is_log(s)]

    def is_yield_rec(st):
        return (isinstance(st, ast.Expr) and isinstance(st.value, ast.Yield) and isinstance(st.value.value, ast.Name)
                and st.value.value.id == rec)
    ok = False
    if len(b3) == 1 and is_yield_rec(b3[0]):
        ok = True
    elif len(b3) == 1 and isinstance(b3[0], ast.If) and not b3[0].orelse and len(b3[0].body) == 1 and is_yield_rec(b3[0].body[0]):
        t = b3[0].test
        # not self.selector or self.selector.match(record)
        if (isinstance(t, ast.BoolOp) and isinstance(t.op, ast.Or) and len(t.values) == 2
                and isinstance(t.values[0], ast.UnaryOp) and isinstance(t.values[0].op, ast.Not) and _is_self_attr(t.values[0].operand, "selector")
                and isinstance(t.values[1], ast.Call) and isinstance(t.values[1].func, ast.Attribute) and t.values[1].func.attr == "match"
                and _is_self_attr(t.values[1].func.value, "selector") and len(t.values[1].args) == 1
                and isinstance(t.values[1].args[0], ast.Name) and t.values[1].args[0].id == rec):
            ok = True
    if not ok:
        bad2(f2)
    return norm, True


# ------------------------------------------------------------------------------------------
# the writer's methods OBSERVED: scripted sessions on the real SqliteWriter with a logging connection, compared step by
# step with the interpretation of statement lists (the same interpreter as coq/model/Sqlite.v's exec_stmts)

CANONICAL = {
    "code_write": [("when", "CNewDesc", ["SeenAdd", "CreateTable", "UpdateColumns", "CallFlush"]), ("do", "InsertRecord"),
                   ("do", "IncrCount"), ("when", "CBatchFull", ["CallFlush"])],
    "code_tx_cycle": [("when", "CInTx", ["ExecCommit"]), ("do", "ExecBegin")],
    "code_flush": [("when", "CHasCon", ["CallTxCycle"])],
    "code_close": [("when", "CHasCon", ["CallFlush", "ConClose"]), ("setnone",)],
}


def _render(stmts):
    out = []
    for st in stmts:
        if st[0] == "do":
            out.append("Do " + st[1])
        elif st[0] == "when":
            out.append("When %s %s" % (st[1], clist(st[2])))
        else:
            out.append("SetConNone")
    return clist(out)


class _Db:
    """schema of the probe database as the statements change it: folded table name -> column names"""

    def __init__(self):
        self.committed = {}
        self.current = {}


class _ModelWriter:
    def __init__(self, code, db, batch, events):
        self.code, self.db, self.batch, self.ev = code, db, batch, events
        self.count, self.seen, self.open, self.in_tx = 0, [], True, False
        self.run("code_tx_cycle", None)

    def cond(self, c, d):
        if c == "CNewDesc":
            return d not in self.seen
        if c == "CBatchFull":
            return self.count % self.batch == 0
        if c == "CHasCon":
            return self.open
        if c == "CInTx":
            return self.in_tx
        raise Unsupported("condition " + c)

    def simple(self, x, d):
        name, fields = d if d is not None else (None, None)
        key = name.lower() if name else None
        if x == "SeenAdd":
            self.seen.append(d)
        elif x == "CreateTable":
            self.ev.append(("create", name))
            if key not in self.db.current:
                self.db.current[key] = list(fields)
        elif x == "UpdateColumns":
            self.ev.append(("pragma", name))
            cols = self.db.current.setdefault(key, [])
            for f in [f for f in fields if f not in cols]:
                self.ev.append(("alter", name, f))
                cols.append(f)
        elif x == "InsertRecord":
            self.ev.append(("insert", name, len(fields)))
        elif x == "IncrCount":
            self.count += 1
        elif x == "CallFlush":
            self.run("code_flush", d)
        elif x == "CallTxCycle":
            self.run("code_tx_cycle", d)
        elif x == "ExecCommit":
            self.ev.append(("commit",))
            self.in_tx = False
            self.db.committed = {k: list(v) for k, v in self.db.current.items()}
        elif x == "ExecBegin":
            self.ev.append(("begin",))
            self.in_tx = True
        elif x == "ConClose":
            self.ev.append(("close",))
            self.in_tx = False
            self.db.current = {k: list(v) for k, v in self.db.committed.items()}
        else:
            raise Unsupported("statement " + x)

    def run(self, which, d):
        for st in self.code[which]:
            if st[0] == "do":
                self.simple(st[1], d)
            elif st[0] == "when":
                if self.cond(st[1], d):
                    for x in st[2]:
                        self.simple(x, d)
            else:
                self.open = False

    def state(self, descs):
        return (self.count, tuple(d in self.seen for d in descs), not self.open)


def _scripts():
    """scripted sessions: (batch size, [step]); step = ("write", desc index) | ("flush",) | ("tx",) | ("close",) | ("reopen",)"""
    import random
    W = lambda i: ("write", i)  # noqa: E731
    fixed = [
        # first record of a type, same type again (batch boundary at 2), evolved type, other type, flush, boundary, close, close
        (2, [W(0), W(0), W(1), W(2), ("flush",), W(0), W(1), W(1), ("tx",), W(3), ("close",), ("flush",), ("close",)]),
        (3, [W(0), W(0), W(0), W(0), W(1), W(1), ("flush",), ("flush",), W(2), ("close",), ("reopen",), W(1), W(3), W(0), W(0),
             ("close",), ("reopen",), ("close",)]),
        (1, [W(2), W(0), W(1), ("close",), ("reopen",), W(3), W(3), ("flush",), ("close",)]),
        (1000, [W(0), W(1), W(0), W(2), W(3), ("close",)]),
    ]
    rnd = random.Random(18)
    for k in range(24):
        steps = []
        for _ in range(rnd.randint(5, 30)):
            x = rnd.random()
            steps.append(W(rnd.randrange(4)) if x < 0.8 else ("flush",) if x < 0.88 else ("tx",) if x < 0.9 else ("reopen",))
        steps.append(("close",))
        fixed.append((rnd.choice([1, 2, 3, 5, 7]), steps))
    return fixed


_PROBE_DESCS = [("probe/a", ["x"]), ("probe/a", ["x", "y"]), ("probe/b", ["z"]), ("probe/a", ["y", "w"])]
_PROBE_TYPES = {"x": "string", "y": "varint", "z": "string", "w": "bytes"}


def _model_traces(code, reserved_names):
    descs = [(n, list(fs) + reserved_names) for n, fs in _PROBE_DESCS]
    out = []
    for batch, steps in _scripts():
        db = _Db()
        ev = []
        w = _ModelWriter(code, db, batch, ev)
        tr = [("init", tuple(ev), w.state(descs))]
        for st in steps:
            del ev[:]
            if st[0] == "write":
                w.run("code_write", descs[st[1]])
            elif st[0] == "flush":
                w.run("code_flush", None)
            elif st[0] == "tx":
                if w.open:
                    w.run("code_tx_cycle", None)
            elif st[0] == "close":
                w.run("code_close", None)
            else:
                w.run("code_close", None)
                tr.append(("reopen-close", tuple(ev), w.state(descs)))
                del ev[:]
                w = _ModelWriter(code, db, batch, ev)
            tr.append((st[0], tuple(ev), w.state(descs)))
        out.append(tr)
    return out


class _LogCon:
    """a sqlite3 connection that logs what is done to it"""

    def __init__(self, real, log):
        object.__setattr__(self, "_real", real)
        object.__setattr__(self, "_log", log)

    def execute(self, sql, *a):
        import re as _re
        t = " ".join(sql.split())
        u = t.upper().rstrip(";")
        q = _re.findall(r'"((?:[^"]|"")*)"', t)
        if u.startswith("CREATE TABLE IF NOT EXISTS"):
            self._log.append(("create", q[0] if q else None))
        elif u.startswith("PRAGMA TABLE_INFO"):
            self._log.append(("pragma", q[0] if q else None))
        elif u.startswith("ALTER TABLE") and "ADD COLUMN" in u:
            self._log.append(("alter", q[0] if q else None, q[1] if len(q) > 1 else None))
        elif u.startswith("INSERT INTO"):
            self._log.append(("insert", q[0] if q else None, len(a[0]) if a else 0))
        elif u in ("COMMIT", "END", "COMMIT TRANSACTION"):
            self._log.append(("commit",))
        elif u in ("BEGIN", "BEGIN DEFERRED", "BEGIN TRANSACTION"):
            self._log.append(("begin",))
        else:
            self._log.append(("sql", t[:60]))
        return self._real.execute(sql, *a)

    def commit(self):
        if self._real.in_transaction:
            self._log.append(("commit",))
        return self._real.commit()

    def close(self):
        self._log.append(("close",))
        return self._real.close()

    def __bool__(self):
        return True

    def __getattr__(self, name):
        if name in ("executemany", "executescript", "cursor", "rollback"):
            self._log.append(("other", name))
        return getattr(self._real, name)

    def __setattr__(self, name, value):
        setattr(self._real, name, value)


def _observed_traces(sq):
    """the same scripted sessions on the real SqliteWriter"""
    import os
    import shutil
    import sqlite3 as real_sqlite3
    import datetime as _dt
    from flow.record import RecordDescriptor
    Ds = [RecordDescriptor(n, [(_PROBE_TYPES[f], f) for f in fs]) for n, fs in _PROBE_DESCS]
    vals = {"x": "v", "y": 3, "z": "q", "w": b"b"}
    ts = _dt.datetime(2020, 1, 1, tzinfo=_dt.timezone.utc)
    log = []
    iso = []

    class Shim:
        def __getattr__(self, name):
            return getattr(real_sqlite3, name)

        def connect(self, *a, **kw):
            real = real_sqlite3.connect(*a, **kw)
            iso.append(real.isolation_level)
            return _LogCon(real, log)
    tmp = "/verif/.work/factgen_c18.%d" % os.getpid()
    os.makedirs(tmp, exist_ok=True)
    saved = sq.sqlite3
    sq.sqlite3 = Shim()
    out = []
    try:
        def state(w):
            seen = getattr(w, "descriptors_seen", None)
            return (getattr(w, "count", None), tuple((d in seen) if seen is not None else None for d in Ds), getattr(w, "con", 0) is None)
        for k, (batch, steps) in enumerate(_scripts()):
            path = os.path.join(tmp, "s%d.db" % k)
            del log[:]
            w = sq.SqliteWriter(path, batch_size=batch)
            tr = [("init", tuple(log), state(w))]
            for st in steps:
                del log[:]
                if st[0] == "write":
                    D = Ds[st[1]]
                    w.write(D(_generated=ts, **{f: vals[f] for f in _PROBE_DESCS[st[1]][1]}))
                elif st[0] == "flush":
                    w.flush()
                elif st[0] == "tx":
                    if w.con is not None:
                        w.tx_cycle()
                elif st[0] == "close":
                    w.close()
                else:
                    w.close()
                    tr.append(("reopen-close", tuple(log), state(w)))
                    del log[:]
                    w = sq.SqliteWriter(path, batch_size=batch)
                tr.append((st[0], tuple(log), state(w)))
            out.append(tr)
    finally:
        sq.sqlite3 = saved
        shutil.rmtree(tmp, ignore_errors=True)
    return out, iso


def _first_diff(a, b):
    for i, (ta, tb) in enumerate(zip(a, b)):
        for j, (x, y) in enumerate(zip(ta, tb)):
            if x != y:
                return "session %d step %d (%s): %r vs %r" % (i, j, x[0], x[1:], y[1:])
        if len(ta) != len(tb):
            return "session %d: %d vs %d steps" % (i, len(ta), len(tb))
    return None


def _writer_code(sq, W, wparams, reserved):
    """-> (code, autocommit, count_zero, tx_cycle_in_init, note)"""
    rnames = [n for _, n in reserved]
    try:
        obs, iso = _observed_traces(sq)
        obs_err = None
    except Unsupported:
        raise
    except Exception as e:  # the scripted sessions must run on a working writer
        obs, iso, obs_err = None, [], "%s: %s" % (type(e).__name__, e)
    can = _model_traces(CANONICAL, rnames)
    try:
        ast_code = {
            "code_write": _Method(W.write, recname=wparams[0], owner=W).body(),
            "code_tx_cycle": _Method(W.tx_cycle, owner=W).body(),
            "code_flush": _Method(W.flush, owner=W).body(),
            "code_close": _Method(W.close, owner=W).body(),
        }
        ast_init = _init_facts(W)
        ast_err = None
    except Unsupported as e:
        ast_code, ast_init, ast_err = None, None, str(e)
    if obs is None:
        if ast_code is None:
            raise Unsupported("%s; and the scripted writer sessions failed: %s" % (ast_err, obs_err))
        raise Unsupported("the scripted writer sessions failed on the implementation: %s" % obs_err)
    obs_init = (all(x is None for x in iso) and bool(iso), all(tr[0][2][0] == 0 for tr in obs),
                all(tr[0][1] == tc[0][1] for tr, tc in zip(obs, can)))
    if ast_code is not None:
        try:
            ast_tr = _model_traces(ast_code, rnames)
        except Unsupported as e:
            raise Unsupported("recognised statement lists cannot be interpreted: %s" % e)
        d = _first_diff(ast_tr, obs)
        if d or ast_init != obs_init:
            raise Unsupported("the source of SqliteWriter is recognised but CONTRADICTS its observed behaviour: %s" % (d or "facts about __init__ %r vs observed %r" % (ast_init, obs_init)))
        if ast_code == CANONICAL or _first_diff(can, obs):
            return ast_code, ast_init, None
        return CANONICAL, obs_init, "note: the methods are arranged differently in the source but behave, on all scripted sessions, like these statement lists; observed behaviour used"
    d = _first_diff(can, obs)
    if d:
        raise Unsupported("%s; and the observed behaviour differs from the statement lists of the model at %s (observed vs model)" % (ast_err, d.replace(" vs ", " <> ")))
    return CANONICAL, obs_init, "note: shape not recognised (%s); observed behaviour on %d scripted sessions used" % (ast_err[:160].replace("*)", "* )"), len(obs))


def _observe_reader_lists_all(sq):
    """SqliteReader.table_names / __iter__ on a probe database with adversarial table names"""
    import os
    import shutil
    import sqlite3 as real_sqlite3
    names = ["sqlite", "sqlite/table_row", "sqlite3/row", "SQLiteDump", "Sqlite/x", "sqlitex", "SQLITE/STAT1", "sqlite0_a", "select", "table",
             "index", "Order/by", "a_b", "x_", "t/x_y_z", "temp/x", "main/t", "pragma", "plain/name", "T1"]
    tmp = "/verif/.work/factgen_c18r.%d" % os.getpid()
    os.makedirs(tmp, exist_ok=True)
    try:
        path = os.path.join(tmp, "r.db")
        con = real_sqlite3.connect(path)             # built without the writer: this fact is about the reader alone
        for n in names:
            con.execute('CREATE TABLE "%s" ("a" TEXT, "_generated" TIMESTAMPTZ)' % n)
            con.execute('INSERT INTO "%s" ("a") VALUES (?)' % n, ("1",))
        con.commit()
        want = [r[0] for r in con.execute("SELECT name FROM sqlite_master WHERE type='table'")]
        con.close()
        rd = sq.SqliteReader(path)
        got = list(rd.table_names())
        seen = sorted({r._desc.name for r in rd})
        rd.con.close()
        return sorted(got) == sorted(want) == sorted(names) and seen == sorted(names)
    finally:
        shutil.rmtree(tmp, ignore_errors=True)


def _probe_descriptor_equality():
    """`desc not in self.descriptors_seen` is modelled as structural equality of (name, field tuples): probe that
    RecordDescriptor.__eq__/__hash__ and set membership tell different definitions apart -- in particular definitions
    built to have the SAME identifier (name + hash over the concatenated field names and types) -- and identify
    equal ones."""
    from flow.record import RecordDescriptor
    pairs = [
        ([("string", "src"), ("string", "dst")], [("string", "srcstringdst")]),
        ([("varint", "a"), ("string", "b")], [("string", "avarintb")]),
        ([("string", "a"), ("varint", "b"), ("float", "c")], [("string", "a"), ("float", "bvarintc")]),
        ([("string", "a")], [("string", "a"), ("string", "b")]),
        ([("string", "a"), ("string", "b")], [("string", "b"), ("string", "a")]),
        ([("string", "a")], [("varint", "a")]),
    ]
    for k, (f1, f2) in enumerate(pairs):
        d1, d2 = RecordDescriptor("probe/eq%d" % k, f1), RecordDescriptor("probe/eq%d" % k, f2)
        d1b = RecordDescriptor("probe/eq%d" % k, list(f1))
        if k < 3 and d1.identifier != d2.identifier:
            raise Unsupported("descriptor identifiers are no longer name + hash over concatenated field names and types "
                              "(probe pair %r / %r does not collide)" % (f1, f2))
        if d1 == d2 or not (d1 != d2) or d2 in {d1} or d1 in {d2}:
            raise Unsupported("RecordDescriptor equality/hash do not tell the definitions %r and %r of one name apart; "
                              "SqliteWriter.descriptors_seen is modelled with structural equality" % (f1, f2))
        if not (d1 == d1b) or hash(d1) != hash(d1b) or d1b not in {d1}:
            raise Unsupported("two RecordDescriptor objects with the same definition %r are not equal / not found in a set" % (f1,))
    o1, o2 = RecordDescriptor("probe/eqx", [("string", "a")]), RecordDescriptor("probe/eqy", [("string", "a")])
    if o1 == o2 or o2 in {o1}:
        raise Unsupported("RecordDescriptor equality ignores the name")
    return True


def gen_sqlite():
    import flow.record.adapter.sqlite as sq
    from flow.record import RecordDescriptor
    from flow.record.base import RESERVED_FIELDS

    for nm in ("FIELD_MAP", "SQLITE_FIELD_MAP"):
        d = getattr(sq, nm)
        if not isinstance(d, dict) or not all(isinstance(k, str) and isinstance(v, str) for k, v in d.items()):
            raise Unsupported("%s is not a dict of str -> str" % nm)
    reserved = [(t, n) for n, t in RESERVED_FIELDS.items()]
    # layout facts the model's field_values relies on: own fields first, then the reserved ones, the same order
    # in get_all_fields(), __slots__ and _asdict()
    D = RecordDescriptor("probe/layout", [("string", "zeta"), ("varint", "alpha")])
    want = ["zeta", "alpha"] + [n for _, n in reserved]
    rec = D(zeta="z", alpha=1)
    if list(D.get_all_fields()) != want or list(D.recordType.__slots__) != want or list(rec._asdict()) != want:
        raise Unsupported("field order of get_all_fields()/__slots__/_asdict() is not own fields + RESERVED_FIELDS")
    if [(f.typename, n) for n, f in D.get_all_fields().items()][2:] != reserved:
        raise Unsupported("types of the reserved fields in get_all_fields() differ from RESERVED_FIELDS")

    W = sq.SqliteWriter
    sig = inspect.signature(W.__init__)
    dflt = sig.parameters.get("batch_size")
    if dflt is None or not isinstance(dflt.default, int) or isinstance(dflt.default, bool) or dflt.default <= 0:
        raise Unsupported("SqliteWriter.__init__ has no positive integer default for batch_size")
    wparams = [p for p in inspect.signature(W.write).parameters if p != "self"]
    if len(wparams) != 1:
        raise Unsupported("SqliteWriter.write does not take exactly one record")
    code, (autocommit, count_zero, tx), code_note = _writer_code(sq, W, wparams, reserved)
    # the helpers the statement names stand for must be the module's own functions
    for helper in ("create_descriptor_table", "update_descriptor_columns", "db_insert_record"):
        if not inspect.isfunction(getattr(sq, helper, None)) or getattr(sq, helper).__module__ != sq.__name__:
            raise Unsupported("%s is not a function of flow.record.adapter.sqlite" % helper)

    out = HEADER
    out += "From Coq Require Import List Bool String NArith.\nImport ListNotations.\nFrom FR Require Import Sqlite.\nOpen Scope string_scope.\n\n"
    pl = lambda items: clist([cpair(cstr(a), cstr(b)) for a, b in items])  # noqa: E731
    out += "(* FIELD_MAP, SQLITE_FIELD_MAP (sqlite.py), RESERVED_FIELDS as (typename, fieldname) (base.py), default batch_size *)\n"
    out += "Definition sqlite_config : config := {|\n  cfg_field_map := %s;\n  cfg_sqlite_field_map := %s;\n  cfg_reserved := %s;\n  cfg_default_batch := %s |}.\n\n" % (
        pl(sq.FIELD_MAP.items()), pl(sq.SQLITE_FIELD_MAP.items()), pl(reserved), cN(dflt.default))
    out += "(* SqliteWriter.write / tx_cycle / flush / close as statement lists; facts about __init__.  Each scripted session\n"
    out += "   (first record of a type, same type, evolved type, batch boundary, flush, tx_cycle, close, reopen; 28 sessions) is run on\n"
    out += "   the real writer with a logging connection and its statement/commit/close events and (count, descriptors_seen, con is None)\n"
    out += "   after every step agree with the interpretation of these lists; the ast recogniser is the cross-check *)\n"
    if code_note:
        out += "(* %s *)\n" % code_note
    out += "Definition writer_code : code := {|\n"
    for k in ("code_write", "code_tx_cycle", "code_flush", "code_close"):
        out += "  %s := %s;\n" % (k, _render(code[k]))
    out += "  code_init_autocommit := %s; code_init_count_zero := %s; code_init_tx_cycle := %s |}.\n\n" % (
        cbool(autocommit), cbool(count_zero), cbool(tx))
    out += "(* every character that occurs in some accepted type or field name (probed) *)\n"
    out += "Definition name_chars : string := %s.\n\n" % cstr(_probe_name_chars())
    reader_note = None
    lists_all = _observe_reader_lists_all(sq)
    try:
        query, iter_all = _reader_facts(sq.SqliteReader)
        if query == "select name from sqlite_master where type='table'" and iter_all and not lists_all:
            raise Unsupported("SqliteReader's source lists every table but the reader does not yield every table of a probe database")
    except Unsupported as e:
        if not lists_all:
            raise
        query, iter_all = "select name from sqlite_master where type='table'", True
        reader_note = "note: shape not recognised (%s); observed: on a probe database with 20 adversarial table names table_names() and __iter__ cover every table" % str(e)[:160].replace("*)", "* )")
    out += "(* probed: RecordDescriptor.__eq__/__hash__/set membership distinguish different definitions (also with equal identifier) *)\n"
    out += "Definition descriptor_equality_structural : bool := %s.\n\n" % cbool(_probe_descriptor_equality())
    out += "(* SqliteReader.table_names: its one constant query (whitespace/case normalised), unfiltered; __iter__ reads every listed table *)\n"
    if reader_note:
        out += "(* %s *)\n" % reader_note
    out += "Definition reader_table_query : string := %s.\nDefinition reader_iterates_all_tables : bool := %s.\n" % (cstr(query), cbool(iter_all))
    write_if_changed(GEN / "Gen_sqlite.v", out)


GENERATORS = [gen_sqlite]
