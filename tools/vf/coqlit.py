"""Printers of Gallina literals."""
from __future__ import annotations


def cbool(b):
    return "true" if b else "false"


def cstr(s: str) -> str:
    """Coq string literal (only for text whose UTF-8 bytes are acceptable inside a Coq string)."""
    return '"' + s.replace('"', '""') + '"'


def cstr_safe(s: str) -> str:
    """String literal for ASCII printable text, else the string is built from hex bytes."""
    if all(32 <= ord(c) < 127 for c in s):
        return cstr(s)
    return "(string_of_bytes (unhex %s))" % cstr(s.encode("utf-8", "surrogateescape").hex())


def chex(b: bytes) -> str:
    return "(unhex %s)" % cstr(bytes(b).hex())


def clist(items, sep="; "):
    items = list(items)
    if not items:
        return "[]"
    return "[" + sep.join(items) + "]"


def copt(x, pr=lambda v: v):
    return "None" if x is None else "(Some %s)" % pr(x)


def cZ(n: int) -> str:
    return "(%d)%%Z" % n


def cN(n: int) -> str:
    assert n >= 0
    return "%d%%N" % n


def cnat(n: int) -> str:
    assert 0 <= n < 5000, n
    return "%d%%nat" % n


def cpair(a, b):
    return "(%s, %s)" % (a, b)
