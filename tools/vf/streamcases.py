"""Shared by C01-C04: running record sequences through the implementation's stream writer/reader and
rendering the correspondence cases for the Coq stream model (coq/model/Stream.v)."""
from __future__ import annotations

import io
import warnings

from vf import recgen

HEADER = """From Coq Require Import List Bool NArith ZArith String.
From Coq Require Import Init.Byte.
Import ListNotations.
From FR Require Import Bytes Msgpack Packer Stream Observe Gen_packer.
Open Scope string_scope.
Open Scope Z_scope.
Definition objs_match (ms : list robj) (os : list item) : bool := list_eqb robj_match ms os.
(* one case: hash table, written items, bytes the implementation produced, what it read back *)
Definition case_ok (tbl : list (desc * Z)) (items : list item) (impl : bytes) (rb : list item) : bool :=
  let H := hash_lookup tbl in
  bytes_eqb (frames (write_all_bodies the_cfg H (w_init) items)) impl
  && match read_stream the_cfg H DEPTH impl with
     | Read objs CleanEOF => objs_match objs rb
     | _ => false
     end.
Definition write_ok (tbl : list (desc * Z)) (items : list item) (impl : bytes) : bool :=
  bytes_eqb (frames (write_all_bodies the_cfg (hash_lookup tbl) (w_init) items)) impl.
Definition read_ok (tbl : list (desc * Z)) (impl : bytes) (rb : list item) : bool :=
  match read_stream the_cfg (hash_lookup tbl) DEPTH impl with
  | Read objs CleanEOF => objs_match objs rb
  | _ => false
  end.
"""


def write_stream_bytes(items):
    """RecordStreamWriter on a BytesIO; returns the bytes (without closing through __del__ surprises)."""
    from flow.record import RecordStreamWriter
    buf = io.BytesIO()
    w = RecordStreamWriter(buf)
    for it in items:
        w.write(it)
    data = buf.getvalue()
    w.fp = None      # do not let close() close our buffer
    return data


def write_stream_bytes_tolerant(items):
    """Like write_stream_bytes, but a write() that raises is caught and the application carries on with the next item
    (what a long-running collector does).  Returns (bytes, indices of the items whose write succeeded, errors)."""
    from flow.record import RecordStreamWriter
    buf = io.BytesIO()
    w = RecordStreamWriter(buf)
    ok, errors = [], []
    for i, it in enumerate(items):
        try:
            w.write(it)
            ok.append(i)
        except Exception as e:  # noqa
            errors.append((i, "%s: %s" % (type(e).__name__, e)))
    data = buf.getvalue()
    w.fp = None
    return data, ok, errors


def read_stream_items(data, selector=None):
    from flow.record import RecordStreamReader
    with warnings.catch_warnings():
        warnings.simplefilter("ignore")
        rd = RecordStreamReader(io.BytesIO(data), selector=selector)
        return list(rd)


def read_stream_items_two_pass(data, first=1):
    """The same reader consumed in two passes: the first loop is left after `first` records, a second loop continues."""
    from flow.record import RecordStreamReader
    out = []
    with warnings.catch_warnings():
        warnings.simplefilter("ignore")
        rd = RecordStreamReader(io.BytesIO(data))
        for r in rd:
            out.append(r)
            if len(out) >= first:
                break
        for r in rd:
            out.append(r)
    return out


def render_case(items_obs, data, rb_obs, kind="case_ok"):
    descs = []
    for o in items_obs:
        recgen.descs_of(o, descs)
    for o in rb_obs or []:
        recgen.descs_of(o, descs)
    tbl = recgen.coq_hash_table(descs)
    its = "[%s]" % "; ".join(recgen.coq_item(o) for o in items_obs)
    if kind == "write_ok":
        return "(write_ok %s %s (unhex \"%s\"))" % (tbl, its, data.hex())
    rb = "[%s]" % "; ".join(recgen.coq_item(o, readback=True) for o in rb_obs)
    if kind == "read_ok":
        return "(read_ok %s (unhex \"%s\") %s)" % (tbl, data.hex(), rb)
    return "(case_ok %s %s (unhex \"%s\") %s)" % (tbl, its, data.hex(), rb)
