"""Generators of descriptors / records / values, the deep observation of records (independent of the
library's own __eq__), and the printers of observations as Gallina literals of coq/model/Packer.v types.

Every random choice comes from the random.Random instance handed in, so cases replay from the seed.
"""
from __future__ import annotations

import datetime as pydt
import ipaddress as pyip
import pathlib
import struct

UTC = pydt.timezone.utc
T0 = pydt.datetime(2023, 5, 6, 7, 8, 9, 123456, tzinfo=UTC)

SCALAR_TYPES = [
    "string", "wstring", "uri", "varint", "filesize", "unix_file_mode", "uint16", "uint32", "boolean", "float",
    "bytes", "datetime", "path", "command", "digest", "net.ipaddress", "net.ipnetwork", "net.IPAddress",
    "net.IPNetwork",
]
LISTABLE = [t for t in SCALAR_TYPES if t not in ("command", "digest")] + ["command", "digest"]
LEGACY_TYPES = ["stringlist", "dictlist", "dynamic"]

INT_BOUNDARIES = [0, 1, -1, 127, 128, 255, 256, -32, -33, -128, -129, 32767, 32768, -32768, -32769, 65535, 65536,
                  2**31 - 1, 2**31, -2**31, -2**31 - 1, 2**32 - 1, 2**32, 2**63 - 1, 2**63, -2**63, -2**63 - 1,
                  2**64 - 1, 2**64, -2**64, 2**100 + 7, -(2**200) - 3]
LEN_BOUNDARIES = [0, 1, 15, 16, 31, 32, 255, 256]
FLOATS = [0.0, -0.0, 1.5, -2.25, 1e300, 5e-324, float("inf"), float("-inf"), float("nan"), 3.141592653589793,
          1e39, 16777217.0]
ZONES = ["Europe/Amsterdam", "America/New_York", "Asia/Kathmandu", "Australia/Lord_Howe", "UTC", "Europe/London"]


def text_sample(rnd, allow_escape=True):
    k = rnd.randrange(10)
    if k == 0:
        return ""
    if k == 1:
        return "a" * rnd.choice(LEN_BOUNDARIES)
    if k == 2:
        return "".join(chr(rnd.choice([0x41, 0xE9, 0x20AC, 0x1F600, 0x7F, 0x0, 0x0A, 0x22, 0x27, 0x5C])) for _ in range(rnd.randrange(1, 8)))
    if k == 3 and allow_escape:
        # undecodable bytes as surrogate escapes (canonical: produced by decoding)
        raw = bytes(rnd.choice([0x61, 0xFF, 0x80, 0xC3, 0x28, 0xE2, 0x82]) for _ in range(rnd.randrange(1, 6)))
        return raw.decode("utf-8", "surrogateescape")
    if k == 4:
        return "x" * rnd.choice([65535, 65536]) if rnd.random() < 0.05 else "long" * 70
    return "".join(rnd.choice("abcXYZ019 _-/\\.:,;'\"{}()é€") for _ in range(rnd.randrange(1, 12)))


def datetime_sample(rnd):
    import zoneinfo
    k = rnd.randrange(9)
    base = pydt.datetime(rnd.choice([1, 1969, 1970, 2000, 2024, 9999]), rnd.randrange(1, 13), rnd.randrange(1, 29),
                         rnd.randrange(24), rnd.randrange(60), rnd.randrange(60), rnd.choice([0, 1, 999999, rnd.randrange(10**6)]))
    if k == 0:
        return base                                  # naive -> UTC
    if k in (1, 2):
        return base.replace(tzinfo=UTC)
    if k == 3:
        off = pydt.timedelta(hours=rnd.randrange(-23, 24), minutes=rnd.randrange(60))
        if abs(off) >= pydt.timedelta(hours=24):
            off = pydt.timedelta(hours=5, minutes=30)
        return base.replace(year=max(2, min(9998, base.year)), tzinfo=pydt.timezone(off))
    if k == 4:
        off = pydt.timedelta(seconds=rnd.randrange(-86399, 86400), microseconds=rnd.choice([0, rnd.randrange(10**6)]))
        return base.replace(year=max(2, min(9998, base.year)), tzinfo=pydt.timezone(off))
    if k == 5:
        return base.replace(year=max(1971, min(2037, base.year)), tzinfo=zoneinfo.ZoneInfo(rnd.choice(ZONES)))
    if k == 6:
        # ambiguous wall time, either fold
        return pydt.datetime(2021, 10, 31, 2, 30, tzinfo=zoneinfo.ZoneInfo("Europe/Amsterdam"), fold=rnd.randrange(2))
    if k == 7:
        return pydt.datetime(2021, 3, 28, 2, 30, tzinfo=zoneinfo.ZoneInfo("Europe/Amsterdam"))     # gap
    return pydt.datetime(2000, 1, 1, tzinfo=pydt.timezone(pydt.timedelta(0)))


def value_sample(rnd, typename, depth=0, gen=None):
    """An input value for a field of the given (scalar) type.  Stays inside what the type accepts and
    outside the known-finding classes listed in known_findings.json (those have their own probes)."""
    t = typename
    if rnd.random() < 0.12:
        return None
    if t in ("string", "wstring"):
        return text_sample(rnd)
    if t == "uri":
        return rnd.choice(["http://example.com/a?b=c#d", "ftp://u:p@h:21/x", "", "not a uri", "file:///C:/x y"])
    if t in ("varint", "filesize", "unix_file_mode"):
        return rnd.choice(INT_BOUNDARIES) if rnd.random() < 0.7 else rnd.randrange(-10**30, 10**30)
    if t == "uint16":
        return rnd.choice([0, 1, 255, 256, 65535, rnd.randrange(65536)])
    if t == "uint32":
        return rnd.choice([0, 1, 65535, 65536, 2**32 - 1, 2**31, rnd.randrange(2**32)])
    if t == "boolean":
        return rnd.choice([True, False, 0, 1])
    if t == "float":
        return rnd.choice(FLOATS) if rnd.random() < 0.7 else rnd.uniform(-1e6, 1e6)
    if t == "bytes":
        return bytes(rnd.randrange(256) for _ in range(rnd.choice(LEN_BOUNDARIES + [3, 7])))
    if t == "datetime":
        return datetime_sample(rnd)
    if t == "path":
        from flow.record.fieldtypes import path
        return rnd.choice([
            "/tmp/foo/bar", "user/.bash_history", "", "/", path.from_windows(r"C:\Windows\Temp\x"),
            path.from_windows(r"\\server\share\f.txt"), path.from_posix("/a b/c"), pathlib.PurePosixPath("/x/y"),
            pathlib.PureWindowsPath("d:/Users/Public"), path.from_windows("rel\\p"), "/é/\udcff",
        ])
    if t == "command":
        from flow.record.fieldtypes import command
        return rnd.choice(["ls -l /tmp", r"C:\Windows\system32\cmd.exe /c dir", "/bin/echo 'a b' c", "single",
                           r"%WINDIR%\x.dll a,b", r"'c:\path to\exe' /d /a", "/usr/bin/env",
                           # an EMPTY executable (an empty quoted first word) with arguments
                           "'' --help -v", '"" x', command.from_windows("'' /d /a"), command.from_posix("'' -x"),
                           # an UNSET command of either flavour (executable None): the flavour is all it carries
                           command.from_windows(None), command.from_posix(None)])
    if t == "digest":
        md5 = "d41d8cd98f00b204e9800998ecf8427e"
        sha1 = "da39a3ee5e6b4b0d3255bfef95601890afd80709"
        sha256 = "e3b0c44298fc1c149afbf4c8996fb92427ae41e4649b934ca495991b7852b855"
        return rnd.choice([(md5, sha1, sha256), (md5, None, None), (None, None, sha256), (None, None, None),
                           {"sha1": sha1}, (md5.upper(), None, None)])
    if t in ("net.ipaddress", "net.IPAddress"):
        return rnd.choice(["1.2.3.4", "0.0.0.0", "255.255.255.255", "::1", "::", "::ffff:1.2.3.4", "2001:db8::1",
                           "ffff:ffff:ffff:ffff:ffff:ffff:ffff:ffff", "::1:0:0", 16909060, "0.0.0.1", "::ffff:ffff",
                           "::1:0:0:0"])
    if t in ("net.ipnetwork", "net.IPNetwork"):
        return rnd.choice(["10.0.0.0/8", "0.0.0.0/0", "192.168.1.1/32", "2001:db8::/32", "::/0", "::1/128"])
    if t == "stringlist":
        return [text_sample(rnd, False) for _ in range(rnd.randrange(3))]
    if t == "dictlist":
        return [{"k%d" % i: rnd.choice([1, "v", None, True, 2.5, b"b"]) for i in range(rnd.randrange(3))} for _ in range(rnd.randrange(3))]
    if t == "dynamic":
        return rnd.choice(["s", 5, True, b"b", ["a", "b"], 2**70])
    raise ValueError(t)


class Gen:
    def __init__(self, rnd, types=None, legacy=False, nested=True, max_fields=6):
        self.rnd = rnd
        self.types = list(types or SCALAR_TYPES)
        self.legacy = legacy
        self.nested = nested
        self.max_fields = max_fields
        self.counter = 0

    def descriptor(self, name=None, depth=0):
        from flow.record import RecordDescriptor
        rnd = self.rnd
        self.counter += 1
        name = name or rnd.choice(["test/a", "test/b", "x", "deep/er/name", "T%d" % self.counter, "test/a"])
        fields = []
        used = set()
        for i in range(rnd.randrange(1, self.max_fields + 1)):
            k = rnd.random()
            if self.nested and depth < 2 and k < 0.10:
                t = rnd.choice(["record", "record[]"])
            elif self.legacy and k < 0.2:
                t = rnd.choice(LEGACY_TYPES)
            else:
                t = rnd.choice(self.types)
                if rnd.random() < 0.25:
                    t += "[]"
            fname = rnd.choice(["a", "b", "c", "data", "ts", "value", "f%d" % i, "if", "x_1", "Name"])
            if fname in used:
                fname = "%s_%d" % (fname, i)
            used.add(fname)
            fields.append((t, fname))
        return RecordDescriptor(name, fields)

    def value(self, typename, depth):
        rnd = self.rnd
        if typename == "record":
            if rnd.random() < 0.2:
                return None
            return self.record(self.descriptor(depth=depth + 1), depth + 1)
        if typename.endswith("[]"):
            et = typename[:-2]
            if rnd.random() < 0.15:
                return None
            n = rnd.choice([0, 1, 2, 3, 15, 16]) if et in ("varint", "string") else rnd.randrange(4)
            out = []
            for _ in range(n):
                v = self.value(et, depth)
                tries = 0
                while v is None and tries < 5:      # elements of a typed list are never None after conversion
                    v = self.value(et, depth)
                    tries += 1
                if v is not None:
                    out.append(v)
            return out
        return value_sample(rnd, typename, depth)

    def sibling(self, desc):
        """Another descriptor with the SAME fields whose name differs from desc's only in '/' versus '_' (both become the
        same Python class name): the two are different record types and must stay so."""
        from flow.record import RecordDescriptor
        name = desc.name
        if "/" in name:
            other = name.replace("/", "_", 1)
        elif "_" in name and not name.startswith("_") and not name.endswith("_") and "__" not in name:
            other = name.replace("_", "/", 1)
            if not other.split("/")[1][:1].isalpha():
                other = name + "/x"
        else:
            other = name + "_x"
            desc = RecordDescriptor(name + "/x", desc.get_field_tuples())
        return desc, RecordDescriptor(other, desc.get_field_tuples())

    def record(self, desc, depth=0):
        rnd = self.rnd
        kw = {}
        for t, n in desc.get_field_tuples():
            kw[n] = self.value(t, depth)
        kw["_source"] = rnd.choice([None, "src", "h\u00e9"])
        kw["_classification"] = rnd.choice([None, "secret"])
        kw["_generated"] = rnd.choice([T0, T0.replace(microsecond=0), pydt.datetime(1999, 12, 31, 23, 59, 59, tzinfo=pydt.timezone(pydt.timedelta(hours=2)))])
        r = desc.recordType(**kw)
        # a record made through a descriptor is a record OF that descriptor (type name and field list)
        if (r._desc.name, tuple(r._desc.get_field_tuples())) != (desc.name, tuple(desc.get_field_tuples())):
            raise DescriptorMismatch("RecordDescriptor(%r, %r)(...) produced a record of type %r %r" % (
                desc.name, list(desc.get_field_tuples()), r._desc.name, list(r._desc.get_field_tuples())))
        return r

    def item(self, descs=None):
        from flow.record import GroupedRecord
        rnd = self.rnd
        if descs and rnd.random() < 0.7:
            d = rnd.choice(descs)
        else:
            d = self.descriptor()
            if descs is not None:
                descs.append(d)
        if rnd.random() < 0.12:
            # a sibling type is defined AFTER d and before d is used
            d, d2 = self.sibling(d)
            if descs is not None:
                descs.extend([d, d2])
        r = self.record(d)
        if rnd.random() < 0.12:
            others = [self.record(rnd.choice(descs) if descs else self.descriptor()) for _ in range(rnd.randrange(1, 3))]
            return GroupedRecord(rnd.choice(["grp/x", "g"]), [r] + others)
        return r

    def items(self, n):
        descs = []
        return [self.item(descs) for _ in range(n)]


# ------------------------------------------------------------------------------------------------
# deep observation

class Unobservable(Exception):
    pass


class DescriptorMismatch(Exception):
    pass


def enc_text(s: str) -> bytes:
    try:
        return s.encode("utf-8", "surrogateescape")
    except UnicodeEncodeError as e:
        raise Unobservable("text not encodable: %r" % s) from e


def float_bits(f) -> int:
    return struct.unpack(">Q", struct.pack(">d", float.__float__(f)))[0]


def obs_dt(v):
    off = v.utcoffset()
    off_us = None if off is None else (off.days * 86400 + off.seconds) * 10**6 + off.microseconds
    tuple_branch = v.tzinfo is None or v.tzinfo == UTC
    return ("dt", (v.year, v.month, v.day, v.hour, v.minute, v.second, v.microsecond), off_us,
            pydt.datetime.isoformat(v).encode(), bool(tuple_branch))


def obs_py(v):
    from flow.record.base import FieldType
    if v is None:
        return ("none",)
    if isinstance(v, bool):
        return ("bool", bool(v))
    if isinstance(v, int):
        return ("int", int(v))
    if isinstance(v, float):
        return ("float", float_bits(v))
    if isinstance(v, str):
        return ("str", enc_text(v))
    if isinstance(v, bytes):
        return ("bytes", bytes(v))
    if isinstance(v, tuple):
        return ("tuple", [obs_py(x) for x in v])
    if isinstance(v, list):
        return ("list", [obs_py(x) for x in v])
    if isinstance(v, dict):
        return ("dict", [(obs_py(k), obs_py(x)) for k, x in v.items()])
    raise Unobservable("py value %r" % (type(v),))


def obs_value(typename, v, canonical_unset=False):
    """Observation of one slot, by the python kind of the object and its own accessors (no library
    equality).  canonical_unset: an unset typed list / digest is observed as the type's empty default
    (the property defines them to be the same)."""
    if canonical_unset and v is None:
        if typename.endswith("[]"):
            return ("list", [])
        if typename == "digest":
            return ("digest", None, None, None)
    from flow.record import GroupedRecord, Record
    from flow.record import fieldtypes as ft
    from flow.record.fieldtypes.net.ip import ipaddress, ipnetwork
    if typename.endswith("[]"):
        if v is None:
            return ("none",)
        if not isinstance(v, list):
            raise Unobservable("list field holds %r" % type(v))
        return ("list", [obs_value(typename[:-2], x, canonical_unset) for x in v])
    if v is None:
        return ("none",)
    if typename in ("string", "wstring", "uri"):
        if not isinstance(v, str):
            raise Unobservable("string field holds %r" % type(v))
        t = str.__str__(v)
        # the code points are part of the observation (identity of text), the bytes are what the model packs
        return ("str", enc_text(t), tuple(map(ord, t)) if not t.isascii() else None)
    if typename in ("varint", "filesize", "unix_file_mode"):
        if not isinstance(v, int) or isinstance(v, bool):
            raise Unobservable("int field holds %r" % type(v))
        return ("int", int(v))
    if typename in ("uint16", "uint32"):
        if not isinstance(v, int):
            raise Unobservable("uint field holds %r" % type(v))
        val = v.value
        if not isinstance(val, int) or isinstance(val, bool):
            raise Unobservable("uint value is %r" % (val,))
        return ("int", int(val))
    if typename == "boolean":
        val = v.value if isinstance(v, ft.boolean) else v
        if not isinstance(val, bool):
            raise Unobservable("boolean value is %r" % (val,))
        return ("bool", val)
    if typename == "float":
        if not isinstance(v, float):
            raise Unobservable("float field holds %r" % type(v))
        return ("float", float_bits(v))
    if typename == "bytes":
        if not isinstance(v, bytes):
            raise Unobservable("bytes field holds %r" % type(v))
        return ("bytes", bytes(v))
    if typename == "datetime":
        if not isinstance(v, pydt.datetime):
            raise Unobservable("datetime field holds %r" % type(v))
        return obs_dt(v)
    if typename == "path":
        if not isinstance(v, pathlib.PurePath):
            raise Unobservable("path field holds %r" % type(v))
        return ("path", enc_text(str(v)), 1 if isinstance(v, pathlib.PureWindowsPath) else 0)
    if typename == "command":
        if not isinstance(v, ft.command):
            raise Unobservable("command field holds %r" % type(v))
        fl = 1 if isinstance(v, ft.windows_command) else 0
        if v.executable is None:
            return ("cmd", fl, None)
        return ("cmd", fl, (enc_text(str(v.executable)), [enc_text(a) for a in v.args]))
    if typename == "digest":
        if not isinstance(v, ft.digest):
            raise Unobservable("digest field holds %r" % type(v))
        # by the ATTRIBUTES a user reads (hex text), not by _pack(): a stale packed form behind a cleared attribute
        # would otherwise describe the written record exactly as the reader sees it
        import binascii
        a, b, c = (binascii.unhexlify(h) if h else None for h in (v.md5, v.sha1, v.sha256))
        pa, pb, pc = v._pack()
        if (a, b, c) != (pa or None, pb or None, pc or None):
            raise Unobservable("digest attributes %r and packed form %r disagree" % ((v.md5, v.sha1, v.sha256), (pa, pb, pc)))
        return ("digest", a, b, c)
    if typename in ("net.ipaddress", "net.IPAddress"):
        if not isinstance(v, ipaddress):
            raise Unobservable("ipaddress field holds %r" % type(v))
        return ("ip", v.val.version, int(v.val))
    if typename in ("net.ipnetwork", "net.IPNetwork"):
        if not isinstance(v, ipnetwork):
            raise Unobservable("ipnetwork field holds %r" % type(v))
        return ("str", v.val.compressed.encode())
    if typename == "record":
        if not isinstance(v, Record) or isinstance(v, GroupedRecord):
            raise Unobservable("record field holds %r" % type(v))
        return obs_record(v, canonical_unset)
    if typename in ("stringlist", "dictlist"):
        if not isinstance(v, list):
            raise Unobservable("%s field holds %r" % (typename, type(v)))
        return ("py", obs_py(list(v)))
    if typename == "dynamic":
        from flow.record.base import FieldType
        p = v._pack() if isinstance(v, FieldType) else v
        if isinstance(v, pydt.datetime) or isinstance(v, pathlib.PurePath):
            raise Unobservable("dynamic holding %r" % type(v))
        return ("py", obs_py(list(p) if isinstance(v, list) else p))
    raise Unobservable("type %s" % typename)


def obs_record(r, canonical_unset=False):
    d = r._desc
    fields = [(t, n) for t, n in d.get_field_tuples()]
    vals = []
    for t, n in fields:
        vals.append(obs_value(t, getattr(r, n), canonical_unset))
    vals.append(obs_value("string", r._source))
    vals.append(obs_value("string", r._classification))
    vals.append(obs_value("datetime", r._generated))
    vals.append(obs_value("varint", r._version))
    return ("rec", d.name, fields, vals, d.descriptor_hash)


def obs_item(x, canonical_unset=False):
    from flow.record import GroupedRecord
    if isinstance(x, GroupedRecord):
        return ("group", x.name, [obs_record(m, canonical_unset) for m in x.records])
    return obs_record(x, canonical_unset)


def canon(o):
    """Canonical form for the property's identity comparison in Python: a datetime is (fields, offset)."""
    if isinstance(o, tuple):
        if o and o[0] == "dt":
            return ("dt", o[1], 0 if o[2] is None else o[2])
        return tuple(canon(x) for x in o)
    if isinstance(o, list):
        return [canon(x) for x in o]
    return o


def descs_of(o, acc=None):
    """All (name, fields, hash) in an observation, in first-appearance order."""
    acc = [] if acc is None else acc
    if isinstance(o, tuple) and o and o[0] == "rec":
        k = (o[1], tuple(o[2]), o[4])
        if k not in acc:
            acc.append(k)
        for v in o[3]:
            descs_of(v, acc)
    elif isinstance(o, (tuple, list)):
        for v in o:
            descs_of(v, acc)
    return acc


# ------------------------------------------------------------------------------------------------
# Gallina literals

def cB(b: bytes) -> str:
    b = bytes(b)
    if b and all(32 <= c < 127 and c not in (34,) for c in b):
        return '(B "%s")' % b.decode("ascii")
    return '(unhex "%s")' % b.hex()


def cZ(n: int) -> str:
    return "(%d)" % n if n < 0 else "%d" % n


def cOptB(o):
    return "None" if o is None else "(Some %s)" % cB(o)


def coq_py(o):
    k = o[0]
    if k == "none":
        return "YNone"
    if k == "bool":
        return "(YBool %s)" % ("true" if o[1] else "false")
    if k == "int":
        return "(YInt %s)" % cZ(o[1])
    if k == "float":
        return "(YFloat %d%%N)" % o[1]
    if k == "str":
        return "(YStr %s)" % cB(o[1])
    if k == "bytes":
        return "(YBytes %s)" % cB(o[1])
    if k == "list":
        return "(YList [%s])" % "; ".join(coq_py(x) for x in o[1])
    if k == "tuple":
        return "(YTuple [%s])" % "; ".join(coq_py(x) for x in o[1])
    if k == "dict":
        return "(YDict [%s])" % "; ".join("(%s, %s)" % (coq_py(a), coq_py(b)) for a, b in o[1])
    raise ValueError(k)


def coq_desc(name, fields):
    return "(Desc %s [%s])" % (cB(name.encode()), "; ".join("(%s, %s)" % (cB(t.encode()), cB(n.encode())) for t, n in fields))


def coq_val(o, readback=False):
    k = o[0]
    if k == "none":
        return "FNone"
    if k == "str":
        return "(FStr %s)" % cB(o[1])
    if k == "int":
        return "(FInt %s)" % cZ(o[1])
    if k == "bool":
        return "(FBool %s)" % ("true" if o[1] else "false")
    if k == "float":
        return "(FFloat %d%%N)" % o[1]
    if k == "bytes":
        return "(FBytes %s)" % cB(o[1])
    if k == "dt":
        f = " ".join(cZ(x) for x in o[1])
        if readback:
            return "(FDt (DtObs %s %s %s))" % (f, cZ(o[2] if o[2] is not None else 0), cB(o[3]))
        if o[4]:
            return "(FDt (DtTuple %s))" % f
        return "(FDt (DtIso %s))" % cB(o[3])
    if k == "path":
        return "(FPath %s %d)" % (cB(o[1]), o[2])
    if k == "cmd":
        if o[2] is None:
            return "(FCmd %d None)" % o[1]
        return "(FCmd %d (Some (%s, [%s])))" % (o[1], cB(o[2][0]), "; ".join(cB(a) for a in o[2][1]))
    if k == "digest":
        return "(FDigest %s %s %s)" % (cOptB(o[1]), cOptB(o[2]), cOptB(o[3]))
    if k == "ip":
        return "(FIp %d %s)" % (o[1], cZ(o[2]))
    if k == "list":
        return "(FList [%s])" % "; ".join(coq_val(x, readback) for x in o[1])
    if k == "rec":
        return "(FRec %s)" % coq_rec(o, readback)
    if k == "py":
        return "(FPy %s)" % coq_py(o[1])
    raise ValueError(k)


def coq_rec(o, readback=False):
    return "(Rec %s [%s])" % (coq_desc(o[1], o[2]), "; ".join(coq_val(v, readback) for v in o[3]))


def coq_item(o, readback=False):
    if o[0] == "group":
        return "(IGroup %s [%s])" % (cB(o[1].encode()), "; ".join(coq_rec(m, readback) for m in o[2]))
    return "(IRec %s)" % coq_rec(o, readback)


def coq_hash_table(descs):
    """association list (descriptor -> hash) for the HASH parameter of the model."""
    return "[%s]" % "; ".join("(%s, %s)" % (coq_desc(n, f), cZ(h)) for n, f, h in descs)
