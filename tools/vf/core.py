"""Shared machinery of the /verif checks: paths, Coq build, case evaluation inside Coq,
evidence, violations, known findings.

Everything here runs under /venv/bin/python with /repo first on sys.path (see /verif/check).
"""
from __future__ import annotations

import fcntl
import hashlib
import json
import os
import re
import shutil
import subprocess
import sys
import time
from pathlib import Path

VERIF = Path("/verif")
# VERIF_REPO: run the checks against another checkout (a scratch worktree with a seeded change) without touching
# /repo; the Coq development is then built in a private copy so that the regenerated facts do not disturb /verif/coq.
REPO = Path(os.environ.get("VERIF_REPO") or "/repo")
WORK = VERIF / ".work"
if str(REPO) == "/repo":
    COQ = VERIF / "coq"
else:
    COQ = WORK / ("coq." + re.sub(r"[^A-Za-z0-9]+", "_", str(REPO)).strip("_"))
# runs against another checkout (VERIF_REPO) must not overwrite the evidence of the registered checks
EVID = VERIF / "evidence" if str(REPO) == "/repo" else WORK / ("evidence." + re.sub(r"[^A-Za-z0-9]+", "_", str(REPO)).strip("_"))
REPLAYS = VERIF / "replays"
KNOWN = VERIF / "known_findings.json"
PY = "/venv/bin/python"

COQ_FLAGS = ["-R", str(COQ), "FR"]


def env_for_repo(extra=None):
    env = dict(os.environ)
    env["PYTHONPATH"] = str(REPO) + ":" + str(VERIF / "tools")
    env["PYTHONHASHSEED"] = "0"
    env["FOX_IT_FLOW_RECORD_VERIF"] = "1"
    env.pop("FLOW_RECORD_IGNORE", None)
    env.pop("FLOW_RECORD_TZ", None)
    env["PYTHONDONTWRITEBYTECODE"] = "1"
    if extra:
        env.update(extra)
    return env


def sh(cmd, timeout=600, cwd=None, env=None, input=None):
    """Run a command, return (rc, stdout+stderr). rc=124 on timeout."""
    try:
        p = subprocess.run(
            cmd, cwd=cwd, env=env, input=input, stdout=subprocess.PIPE, stderr=subprocess.STDOUT,
            timeout=timeout, text=True, errors="replace",
        )
        return p.returncode, p.stdout
    except subprocess.TimeoutExpired as e:
        out = e.stdout or ""
        if isinstance(out, bytes):
            out = out.decode(errors="replace")
        return 124, out + "\n[timeout after %ss]" % timeout


class Lock:
    def __init__(self, path):
        self.path = path

    def __enter__(self):
        self.f = open(self.path, "w")
        fcntl.flock(self.f, fcntl.LOCK_EX)
        return self

    def __exit__(self, *a):
        fcntl.flock(self.f, fcntl.LOCK_UN)
        self.f.close()


def write_if_changed(path: Path, text: str) -> bool:
    if path.exists() and path.read_text() == text:
        return False
    path.parent.mkdir(parents=True, exist_ok=True)
    tmp = path.with_suffix(path.suffix + ".tmp%d" % os.getpid())
    tmp.write_text(text)
    os.replace(tmp, path)
    return True


# --------------------------------------------------------------------------------------
# Coq build

def _ensure_private_coq():
    if COQ == VERIF / "coq":
        return
    WORK.mkdir(exist_ok=True)
    COQ.mkdir(exist_ok=True)
    sh(["rsync", "-a", "--exclude", ".lock", "--exclude", "Makefile*", "--exclude", ".Makefile.d",
        str(VERIF / "coq") + "/", str(COQ) + "/"], timeout=300)


def regenerate_facts(gens=()):
    """Run the translator (facts extractor) against /repo's working tree -> coq/gen/*.v.
    Returns (ok, log). Fail closed: a requested generator that cannot express what it finds makes ok False
    (all generators run; only failures of the requested ones count for this property)."""
    rc, out = sh([PY, str(VERIF / "tools/vf/facts.py")] + list(gens), timeout=120,
                 env=env_for_repo({"VERIF_GEN_DIR": str(COQ / "gen")}), cwd=str(VERIF))
    return rc == 0, out


def _ensure_makefile():
    mk = COQ / "Makefile"
    cp = COQ / "_CoqProject"
    # _CoqProject lists every .v under lib/ gen/ model/ proofs/ props/ (regenerated when the set changes)
    vs = sorted(str(p.relative_to(COQ)) for d in ("lib", "gen", "model", "proofs", "props") for p in (COQ / d).glob("*.v"))
    text = "-R . FR\n" + "\n".join(vs) + "\n"
    if not cp.exists() or cp.read_text() != text:
        cp.write_text(text)
    if not mk.exists() or mk.stat().st_mtime < cp.stat().st_mtime:
        rc, out = sh(["coq_makefile", "-f", "_CoqProject", "-o", "Makefile"], cwd=str(COQ), timeout=60)
        if rc != 0:
            raise RuntimeError("coq_makefile failed: " + out)
        dep = COQ / ".Makefile.d"
        if dep.exists():
            dep.unlink()


def coq_build(targets, timeout=900, gens=()):
    """Translator + full .vo build (never -vos) of the given targets (paths relative to coq/,
    e.g. 'props/C08.vo').  Returns dict(ok, facts_ok, log, failed)."""
    _ensure_private_coq()
    with Lock(COQ / ".lock"):
        facts_ok, flog = regenerate_facts(gens)
        if not facts_ok:
            return dict(ok=False, facts_ok=False, log=flog, failed="translator")
        _ensure_makefile()
        rc, out = sh(["make", "-j16", "-k"] + list(targets), cwd=str(COQ), timeout=timeout)
        if rc != 0 and "No rule to make target" in out:
            # _CoqProject changed under us (new file): regenerate the Makefile and retry once
            (COQ / "Makefile").unlink(missing_ok=True)
            _ensure_makefile()
            rc, out = sh(["make", "-j16", "-k"] + list(targets), cwd=str(COQ), timeout=timeout)
    failed = None
    if rc != 0:
        m = re.search(r'File "\./([^"]+)", line (\d+)', out)
        failed = "%s:%s" % (m.group(1), m.group(2)) if m else "make rc=%d" % rc
        # which lemma?  look for the last Lemma/Theorem name before that line
        if m:
            try:
                lines = (COQ / m.group(1)).read_text().splitlines()[: int(m.group(2))]
                for ln in reversed(lines):
                    mm = re.match(r"\s*(Theorem|Lemma|Corollary|Example|Definition|Fixpoint)\s+(\w+)", ln)
                    if mm:
                        failed += " (%s %s)" % (mm.group(1), mm.group(2))
                        break
            except Exception:
                pass
    return dict(ok=rc == 0, facts_ok=True, log=out, failed=failed)


def coqc_file(vfile: Path, timeout=600):
    """Compile a scratch .v (in the work dir) against the built development."""
    rc, out = sh(["coqc", "-q"] + COQ_FLAGS + [str(vfile)], cwd=str(vfile.parent), timeout=timeout)
    return rc, out


def print_assumptions(modname: str, theorems, workdir: Path):
    """Return {theorem: 'Closed under the global context' | axioms text}."""
    v = workdir / ("PA_%s.v" % modname.replace(".", "_"))
    body = "From FR Require Import %s.\n" % modname
    for t in theorems:
        body += 'Goal True. idtac "@@%s". exact I. Qed.\nPrint Assumptions %s.\n' % (t, t)
    v.write_text(body)
    rc, out = coqc_file(v, timeout=300)
    res = {}
    if rc != 0:
        for t in theorems:
            res[t] = "ERROR: " + out[-400:]
        return res
    parts = re.split(r"@@(\w+)\n", out)
    for i in range(1, len(parts), 2):
        res[parts[i]] = " ".join(parts[i + 1].split())
    return res


def count_obligations(vo_targets):
    """Count Theorem/Lemma/Corollary/Example statements in the .v files of the dependency cone of the
    targets (as make's dependency file lists them)."""
    dep = COQ / ".Makefile.d"
    deps = {}
    if dep.exists():
        for line in dep.read_text().splitlines():
            if ":" not in line:
                continue
            lhs, rhs = line.split(":", 1)
            for l in lhs.split():
                if l.endswith(".vo"):
                    deps[l] = [r for r in rhs.split() if r.endswith(".vo")]
    seen = set()
    stack = list(vo_targets)
    while stack:
        t = stack.pop()
        if t in seen:
            continue
        seen.add(t)
        stack.extend(deps.get(t, []))
    n = 0
    files = []
    for t in sorted(seen):
        vf = COQ / (t[:-1])
        if vf.exists():
            txt = vf.read_text()
            c = len(re.findall(r"^\s*(?:Theorem|Lemma|Corollary|Example|Fact|Remark)\s+\w+", txt, re.M))
            n += c
            files.append(t[:-3] + ".v")
    return n, files


def scan_forbidden():
    """grep the development for Admitted/admit/Axiom/Parameter/... , for switched-off kernel checks, and for a
    Variable / Hypothesis / Context declared outside a section (which declares an axiom); returns list of hits."""
    hits = []
    pat = re.compile(r"\b(Admitted|admit|Axiom|Axioms|Parameter|Parameters|Conjecture|Conjectures|Admit Obligations|bypass_check|"
                     r"Unset Guard Checking|Unset Positivity Checking|Unset Universe Checking|Guard Checking|Positivity Checking|"
                     r"Universe Checking|type-in-type|impredicative-set)\b")
    decl = re.compile(r"^\s*(Local\s+|Global\s+|#\[[^\]]*\]\s*)*(Variable|Variables|Hypothesis|Hypotheses|Context)\b")
    for p in sorted(COQ.rglob("*.v")):
        txt = re.sub(r"\(\*.*?\*\)", "", p.read_text(), flags=re.S)
        sections = []
        for i, ln in enumerate(txt.splitlines(), 1):
            if pat.search(ln):
                hits.append("%s:%d:%s" % (p.relative_to(COQ), i, ln.strip()))
            m = re.match(r"^\s*Section\s+([A-Za-z_][A-Za-z0-9_']*)\s*\.", ln)
            if m:
                sections.append(m.group(1))
                continue
            m = re.match(r"^\s*End\s+([A-Za-z_][A-Za-z0-9_']*)\s*\.", ln)
            if m and sections and sections[-1] == m.group(1):
                sections.pop()
                continue
            if decl.match(ln) and not sections:
                hits.append("%s:%d:%s (outside a section)" % (p.relative_to(COQ), i, ln.strip()))
    for f in ("_CoqProject", "Makefile.conf"):
        q = COQ / f
        if q.exists() and re.search(r"type-in-type|impredicative-set|-noinit", q.read_text()):
            hits.append("%s: forbidden coqc flag" % f)
    return hits


# --------------------------------------------------------------------------------------
# evaluating the model on cases inside Coq

def run_case_shards(workdir: Path, shards, timeout=600, jobs=16):
    """shards: list of (name, text).  Each shard's text must end by printing, via
    `Eval vm_compute in ...`, a term of type `list nat` = indices of failing cases (marked by the
    shard as `Definition failing : list nat`), preceded by a line  idtac marker.  We simply compile
    all shards in parallel and collect the outputs."""
    paths = []
    for name, text in shards:
        p = workdir / (name + ".v")
        p.write_text(text)
        paths.append(p)
    procs = []
    results = {}
    pending = list(paths)
    running = []
    while pending or running:
        while pending and len(running) < jobs:
            p = pending.pop(0)
            pr = subprocess.Popen(["bash", "-c", "ulimit -s unlimited 2>/dev/null; exec timeout %d coqc -q %s %s" % (
                                      timeout, " ".join(COQ_FLAGS), str(p))],
                                  cwd=str(workdir), stdout=subprocess.PIPE, stderr=subprocess.STDOUT, text=True)
            running.append((p, pr))
        for p, pr in list(running):
            if pr.poll() is not None:
                out = pr.stdout.read()
                results[p.stem] = (pr.returncode, out)
                running.remove((p, pr))
        time.sleep(0.05)
    return results


def parse_nat_list(out: str, marker="failing"):
    """Parse `= [1; 2]` (possibly wrapped, possibly with %nat) following '@@marker'."""
    m = re.search(r"@@%s\s*(.*?)(?=@@|\Z)" % re.escape(marker), out, re.S)
    if not m:
        return None
    body = m.group(1)
    mm = re.search(r"=\s*(\[.*?\]|nil)", body, re.S)
    if not mm:
        return None
    return [int(x) for x in re.findall(r"\d+", mm.group(1))]


# --------------------------------------------------------------------------------------
# known findings

def load_known():
    """known_findings.json (+ known_findings.d/*.json fragments of the same shape)."""
    out = {"findings": [], "fixed": []}
    files = ([KNOWN] if KNOWN.exists() else []) + sorted((VERIF / "known_findings.d").glob("*.json"))
    for f in files:
        d = json.loads(f.read_text())
        out["findings"] += d.get("findings", [])
        out["fixed"] += d.get("fixed", [])
    return out


def known_for(pid):
    return [f for f in load_known().get("findings", []) if f.get("property") == pid]


# --------------------------------------------------------------------------------------
# context / evidence / violations

class Ctx:
    def __init__(self, pid, tier, seed):
        self.pid = pid
        self.tier = tier
        self.seed = seed
        self.t0 = time.time()
        self.work = WORK / ("%s.%d" % (pid, os.getpid()))
        if self.work.exists():
            shutil.rmtree(self.work)
        self.work.mkdir(parents=True)
        self.violations = []      # list of dict(replay=path, what=str, no_input=bool)
        self.known_hits = {}      # finding id -> what
        self.coverage = dict(evaluations=0, distinct_nontrivial=0, rule="", samples=[],
                             obligations=0, discharged=0, checker_cmd="", trusted_base=[])
        self.assumptions = []
        self.notes = []
        self._distinct = set()

    # ---- counting
    def count_case(self, canon, nontrivial=True):
        self.coverage["evaluations"] += 1
        if nontrivial:
            h = hashlib.sha1(repr(canon).encode("utf-8", "surrogatepass")).hexdigest()
            if h not in self._distinct:
                self._distinct.add(h)
                self.coverage["distinct_nontrivial"] = len(self._distinct)

    def sample(self, obj, limit=6):
        if len(self.coverage["samples"]) < limit:
            self.coverage["samples"].append(obj)

    # ---- reporting
    def violation(self, what, replay_obj, no_input=False):
        REPLAYS.mkdir(exist_ok=True)
        blob = json.dumps(replay_obj, sort_keys=True, default=repr, ensure_ascii=True)
        h = hashlib.sha1(blob.encode()).hexdigest()[:12]
        path = REPLAYS / ("%s-%s.json" % (self.pid, h))
        replay_obj = dict(replay_obj)
        replay_obj.setdefault("property", self.pid)
        replay_obj.setdefault("what", what)
        replay_obj.setdefault("seed", self.seed)
        path.write_text(json.dumps(replay_obj, indent=1, sort_keys=True, default=repr))
        self.violations.append(dict(replay=str(path), what=what, no_input=no_input))
        line = "VIOLATION property=%s replay=%s" % (self.pid, path)
        if no_input:
            line += " no-failing-input-found"
        print("# " + what[:300].replace("\n", " "))
        print(line, flush=True)

    def known_finding(self, fid, what):
        if fid not in self.known_hits:
            self.known_hits[fid] = what
            print("KNOWN-FINDING: property=%s %s" % (self.pid, what), flush=True)

    def finish(self):
        ev = dict(
            property_id=self.pid, tier=self.tier, seed=self.seed, level="proof",
            coverage=self.coverage, assumptions=self.assumptions,
            wall_s=round(time.time() - self.t0, 2), violations=len(self.violations),
        )
        ev["coverage"]["known_findings_reproduced"] = sorted(self.known_hits)
        if self.notes:
            ev["coverage"]["notes"] = self.notes
        if ev["coverage"].get("discharged", 0) == 0:
            # broken build: no proof-level claim for this run (schema wants discharged >= 1 when present)
            ev["coverage"]["proof_broken"] = True
            ev["coverage"]["obligations_in_cone"] = ev["coverage"].pop("obligations", 0)
            ev["coverage"].pop("discharged", None)
        EVID.mkdir(parents=True, exist_ok=True)
        (EVID / ("%s.json" % self.pid)).write_text(json.dumps(ev, indent=1, default=repr, ensure_ascii=True))
        shutil.rmtree(self.work, ignore_errors=True)
        rc = 1 if self.violations else 0
        print("[%s] tier=%s seed=%d evaluations=%d distinct=%d obligations=%d/%d violations=%d wall=%.1fs" % (
            self.pid, self.tier, self.seed, ev["coverage"]["evaluations"], ev["coverage"]["distinct_nontrivial"],
            ev["coverage"].get("discharged", 0), ev["coverage"].get("obligations", ev["coverage"].get("obligations_in_cone", 0)),
            len(self.violations), ev["wall_s"]))
        return rc


BASE_TRUST = [
    "Coq 8.16.1 kernel (coqc full .vo build, no -vos); vm_compute VM used for finite-domain lemmas and for "
    "evaluating the model on correspondence cases; no native_compute; no kernel check disabled",
    "no Axiom/Parameter/Admitted in the development (scanned on every run)",
    "translator tools/vf/facts.py: reads constants/tables/regexes/method tables from /repo's working tree "
    "(import + ast) and prints them as Gallina literals into coq/gen/*.v on every run",
    "correspondence harness tools/vf (case generation, deep observation, canonicalisation) and CPython 3.12.1",
]


def standard_proof_stage(ctx: Ctx, targets, prop_module, theorems, search_fn=None, gens=()):
    """Build the cone of `targets`, fill the proof part of the evidence.  On a broken
    translator/proof: run `search_fn(ctx, reason)` (returns True when it reported a violation with a
    concrete failing input) else report no-failing-input-found.  Returns True when the build is fine."""
    targets = list(targets) + ["lib/CaseLib.vo"]
    b = coq_build(targets, gens=gens)
    nobl, files = count_obligations(targets)
    ctx.coverage["obligations"] = nobl
    ctx.coverage["checker_cmd"] = "cd /verif/coq && make -j16 " + " ".join(targets) + \
        "   (coq_makefile full .vo build; then coqc Print Assumptions per property theorem)"
    ctx.coverage["cone_files"] = files
    ctx.coverage["trusted_base"] = list(BASE_TRUST)
    hits = scan_forbidden()
    if hits:
        ctx.coverage["trusted_base"].append("FORBIDDEN CONSTRUCTS FOUND: " + "; ".join(hits[:5]))
    if not b["ok"]:
        ctx.coverage["discharged"] = 0
        ctx.notes.append("build broken at %s" % b["failed"])
        reason = "proof obligation / translator no longer checks: %s" % b["failed"]
        found = False
        if search_fn:
            found = search_fn(ctx, reason)
        if not found:
            ctx.violation(reason, dict(kind="broken-proof", failed=b["failed"], log_tail=b["log"][-3000:],
                                       theorem_cone=targets), no_input=True)
        return False
    ctx.coverage["discharged"] = nobl
    pa = print_assumptions(prop_module, theorems, ctx.work)
    for t in theorems:
        ctx.coverage["trusted_base"].append("Print Assumptions %s: %s" % (t, pa.get(t, "?")))
        if pa.get(t, "").startswith("ERROR"):
            ctx.violation("Print Assumptions failed for %s" % t, dict(kind="broken-proof", theorem=t,
                                                                      log=pa.get(t)), no_input=True)
            return False
    if hits:
        ctx.violation("forbidden construct in development", dict(kind="forbidden", hits=hits), no_input=True)
        return False
    return True


def eval_bool_cases(ctx: Ctx, header: str, cases, shard_size=400, name="cases", timeout=600):
    """cases: list of Gallina terms of type bool (closed under `header`).  Evaluates them inside Coq
    (vm_compute) in parallel shards; returns (failing_indices, error_text_or_None).
    Every shard ends with a deliberate `false` sentinel that must be reported back, so a shard whose output
    cannot be parsed (or an evaluation that silently reports nothing) fails closed."""
    shards = []
    sizes = []
    for k in range(0, len(cases), shard_size):
        chunk = cases[k:k + shard_size]
        sizes.append(len(chunk))
        text = header + "\nFrom Coq Require Import NArith List.\nFrom FR Require Import CaseLib.\n"
        text += "Definition the_cases : list bool :=\n [ " + "\n ; ".join(list(chunk) + ["false"]) + " ].\n"
        text += 'Goal True. idtac "@@failing". exact I. Qed.\nEval vm_compute in (failing the_cases).\n'
        shards.append(("%s_%04d" % (name, k // shard_size), text))
    res = run_case_shards(ctx.work, shards, timeout=timeout)
    failing = []
    for k, (nm, _) in enumerate(shards):
        rc, out = res[nm]
        lst = parse_nat_list(out) if rc == 0 else None
        if lst is None:
            return None, "shard %s failed (rc=%s): %s" % (nm, rc, out[-1500:])
        if sizes[k] not in lst:
            return None, "shard %s: the sentinel false case was not reported (unparseable output?): %s" % (nm, out[-600:])
        failing.extend(k * shard_size + i for i in lst if i != sizes[k])
    return failing, None
