#!/usr/bin/env python3
"""tools/mktriage.py [batch-size]  ->  /tmp/tri_<n>_prompt.txt + /tmp/tri_<n>_out/M<id>.diff + worktree /tmp/tri_<n>

Prepares the triage of the QUIET survivors of the mutation sweep (mutants that pass the 444 tests AND every check run on
them): batches per source file, each handed to a fresh sub-agent that sees only the property texts, the mutant diffs and
its own scratch worktree (nothing from /verif).  The agent classifies every mutant as equivalent / irrelevant / breaks
<property> with a demonstration; tools/mktriage.py collect gathers the verdicts into /verif/mutation/TRIAGE.md."""
import json
import os
import subprocess
import sys

sys.path.insert(0, "/verif/tools")
import mutsweep  # noqa: E402


def props_text():
    out = []
    for line in open("/verif/properties.jsonl"):
        p = json.loads(line)
        out.append("%s - %s\n    %s" % (p["id"], p["title"], p["statement"]))
    return "\n\n".join(out)


def diff_of(m, wt):
    mutsweep.apply_mutant(wt, m)
    d = subprocess.run(["git", "-C", wt, "diff"], capture_output=True, text=True).stdout
    mutsweep.revert(wt, m)
    return d


def main():
    if len(sys.argv) > 1 and sys.argv[1] == "collect":
        return collect()
    if len(sys.argv) > 1 and sys.argv[1] == "confirm":
        return confirm()
    size = int(sys.argv[1]) if len(sys.argv) > 1 else 12
    ms = mutsweep.load()
    quiet = [m for m in ms if "checks" in m and all(v == "quiet" for v in m["checks"].values()) and "triage" not in m]
    dispatched = set()
    for d in os.listdir("/tmp"):
        if d.startswith("tri_") and d.endswith("_out") and os.path.exists("/tmp/%s/ids.json" % d):
            dispatched |= set(json.load(open("/tmp/%s/ids.json" % d)))
    quiet = [m for m in quiet if m["id"] not in dispatched]
    quiet.sort(key=lambda m: (m["file"], m["line"]))
    batches, cur = [], []
    for m in quiet:
        if cur and (cur[0]["file"] != m["file"] or len(cur) >= size):
            batches.append(cur)
            cur = []
        cur.append(m)
    if cur:
        batches.append(cur)
    head = subprocess.run(["git", "-C", "/repo", "rev-parse", "--short", "HEAD"], capture_output=True, text=True).stdout.strip()
    start = 1 + max([int(d.split("_")[1]) for d in os.listdir("/tmp") if d.startswith("tri_") and d.split("_")[1].isdigit()] or [0])
    for n, b in enumerate(batches, start):
        wt = "/tmp/tri_%d" % n
        out = wt + "_out"
        subprocess.run(["git", "-C", "/repo", "worktree", "remove", "--force", wt], capture_output=True)
        # the mutants of a file were generated at the commit recorded with them
        subprocess.run(["git", "-C", "/repo", "worktree", "add", "-q", "--detach", wt, "HEAD"], check=True)
        os.makedirs(out, exist_ok=True)
        lines = []
        for m in b:
            d = diff_of(m, wt)
            open("%s/M%d.diff" % (out, m["id"]), "w").write(d)
            lines.append("MUTANT M%d (%s line %d, %s): `%s` -> `%s`; patch file %s/M%d.diff\n%s" % (
                m["id"], m["file"], m["line"], m["kind"], m["old"][:80], m["new"][:80], out, m["id"], d))
        prompt = TEMPLATE.format(wt=wt, out=out, head=head, props=props_text(), mutants="\n".join(lines), n=len(b),
                                 ids=", ".join("M%d" % m["id"] for m in b))
        open("/tmp/tri_%d_prompt.txt" % n, "w").write(prompt)
        json.dump([m["id"] for m in b], open(out + "/ids.json", "w"))
        print(n, b[0]["file"], len(b))


TEMPLATE = """You are triaging single-point source MUTANTS of the Python library fox-it/flow.record. Every mutant below already passes the library's whole test suite; the question is whether it nevertheless breaks one of the library's 20 semantic properties listed below. You have your own scratch git worktree of the repository at {wt} (a checkout of the current HEAD {head}; run Python as `/venv/bin/python` with `PYTHONPATH={wt}`). You must NOT read, list or use anything under /verif, and you must NOT touch /repo - work only inside {wt} and write your results to {out}/.

THE 20 PROPERTIES

{props}

THE {n} MUTANTS (each is a one-token or one-statement change; apply one at a time with `git -C {wt} apply {out}/M<id>.diff`, reset with `git -C {wt} checkout -- .`; do NOT use `git stash`)

{mutants}

YOUR TASK: for each mutant decide, by reading the code around it and by EXPERIMENT (run small scripts against the changed and the unchanged tree), which of these holds - on this platform (CPython 3.12 on Linux):
  "equivalent": no observable behaviour change at all (dead code on this Python version, a value that is never used, an equivalent expression);
  "irrelevant": observable behaviour changes (say what: a message text, a log line, a default, a deprecated alias, a CLI help text, performance, an error class ...) but NONE of the 20 properties is affected - be strict: if some input exists on which a property's statement becomes false, it is not irrelevant;
  "breaks": there is an input / sequence of operations on which one of the 20 properties becomes false with the mutant and is true without it. Then name the property and write a standalone demonstration `{out}/demo_M<id>.py` that takes the checkout path as argv[1] (puts it first on sys.path), exits 1 (printing the concrete violation) on the mutated tree and exits 0 on the clean tree - verify both.
Prefer finding a break over declaring irrelevance: think about which inputs reach the mutated line (unusual field types, windows flavours, error paths, second use of an object, options carried in URIs) and try them.

DELIVERABLE: `{out}/triage.json` = a JSON list with one object per mutant ({ids}): {{"id": <number>, "verdict": "equivalent" | "irrelevant" | "breaks", "property": "<Cxx or null>", "reason": "<one or two sentences: what the mutated code does, why the verdict; for breaks: the input that is needed>"}}. Leave the worktree clean at the end (`git -C {wt} checkout -- .`). Final message: one line per mutant.
"""


def confirm():
    """For every `breaks` verdict: confirm the demonstration (exit 1 on the mutated tree, 0 on the clean one) and run the quick
    check of the property the triage names (and of the properties anchored in the file) on the mutant."""
    ms = mutsweep.load()
    todo = [m for m in ms if m.get("triage", {}).get("verdict") == "breaks" and "confirm" not in m["triage"]]
    wt = "/tmp/tri_confirm"
    subprocess.run(["git", "-C", "/repo", "worktree", "remove", "--force", wt], capture_output=True)
    subprocess.run(["git", "-C", "/repo", "worktree", "add", "-q", "--detach", wt, "HEAD"], check=True)
    env = dict(os.environ, PYTHONDONTWRITEBYTECODE="1", PYTHONHASHSEED="0")
    for m in todo:
        t = m["triage"]
        demo = "%s/demo_M%d.py" % (t["dir"], m["id"])
        res = {}
        if os.path.exists(demo):
            res["demo_clean_rc"] = subprocess.run(["/venv/bin/python", demo, wt], capture_output=True, env=env, timeout=600).returncode
        mutsweep.apply_mutant(wt, m)
        try:
            if os.path.exists(demo):
                res["demo_mutant_rc"] = subprocess.run(["/venv/bin/python", demo, wt], capture_output=True, env=env, timeout=600).returncode
            props = []
            for p in [x.strip() for x in (t.get("property") or "").replace("/", ",").split(",")]:
                p = p.split()[0] if p else p
                if p and p[0] == "C" and p[1:3].isdigit() and p[:3] not in props:
                    props.append(p[:3])
            res["checks"] = {}
            for cid in props:
                pr = subprocess.run(["./check", cid], cwd="/verif", env=dict(env, VERIF_REPO=wt), capture_output=True, text=True, timeout=3600)
                v = [l for l in pr.stdout.splitlines() if l.startswith("VIOLATION")]
                res["checks"][cid] = "quiet" if pr.returncode == 0 and not v else ("input" if any("no-failing-input-found" not in l for l in v) else "no-input")
        finally:
            mutsweep.revert(wt, m)
        t["confirm"] = res
        mutsweep.save(ms)
        print("M%d %s:%d %s" % (m["id"], m["file"], m["line"], res), flush=True)
    subprocess.run(["git", "-C", "/repo", "worktree", "remove", "--force", wt], capture_output=True)
    subprocess.run(["bash", "-c", "rm -rf /verif/.work/coq.*tri_confirm* /verif/.work/evidence.*tri_confirm*"])


def collect():
    ms = mutsweep.load()
    by = {m["id"]: m for m in ms}
    rows = []
    for d in sorted(os.listdir("/tmp")):
        f = "/tmp/%s/triage.json" % d
        if d.startswith("tri_") and d.endswith("_out") and os.path.exists(f):
            try:
                for t in json.load(open(f)):
                    m = by.get(int(str(t["id"]).lstrip("M")))
                    if m is None:
                        continue
                    keep = {k: v for k, v in m.get("triage", {}).items() if k in ("confirm", "final", "stored")}
                    m["triage"] = dict(verdict=t.get("verdict"), property=t.get("property"), reason=t.get("reason"), dir="/tmp/" + d, **keep)
            except Exception as e:  # noqa
                print("unreadable", f, e)
    adj = json.load(open("/verif/mutation/adjudication.json")) if os.path.exists("/verif/mutation/adjudication.json") else {}
    for m in ms:
        if "triage" in m and str(m["id"]) in adj:
            m["triage"]["adjudication"] = adj[str(m["id"])]
    mutsweep.save(ms)
    tri = [m for m in ms if "triage" in m]
    lines = ["# Triage of the quiet survivors of the mutation sweep", "",
             "Each quiet survivor (passes the 444 tests and every check run on it) was judged by a fresh sub-agent that saw only the "
             "20 property texts, the mutant and its own scratch worktree: `equivalent` (no observable change on CPython 3.12/Linux), "
             "`irrelevant` (behaviour changes, no property affected), `breaks` (a property fails on some input; with a demonstration, "
             "confirmed by us and then stored under seeded/ as a case the checks must catch).", "",
             "verdicts: " + ", ".join("%s %d" % (v, sum(1 for m in tri if m["triage"]["verdict"] == v)) for v in ("equivalent", "irrelevant", "breaks")), "",
             "| mutant | where | change | verdict | property | named property's check on the mutant | reason |", "|---|---|---|---|---|---|---|"]
    for m in sorted(tri, key=lambda m: (m["triage"]["verdict"] != "breaks", m["file"], m["line"])):
        t = m["triage"]
        chk = ", ".join("%s: %s" % kv for kv in (t.get("confirm", {}).get("checks") or {}).items())
        if t.get("stored") and os.path.exists("/verif/seeded/%s/meta.json" % t["stored"]):
            fin = json.load(open("/verif/seeded/%s/meta.json" % t["stored"])).get("final", {}).get("checks")
            if fin:
                t["final"] = {k: ("input" if v.get("with_input") else "no-input" if v.get("detected") else "quiet") for k, v in fin.items()}
                chk += " (stored as seeded/%s)" % t["stored"]
        if t.get("final"):
            chk += " -> now " + ", ".join("%s: %s" % kv for kv in t["final"].items())
        reason = (t.get("reason") or "").replace("|", "/").replace("\n", " ")[:300]
        if t.get("adjudication"):
            reason = "OUR RULING: " + t["adjudication"].replace("|", "/") + " // agent: " + reason
        lines.append("| M%d | %s:%d | `%s` -> `%s` | %s | %s | %s | %s |" % (
            m["id"], m["file"].replace("flow/record/", ""), m["line"], m["old"][:40].replace("|", "/").replace("\n", " "),
            m["new"][:30].replace("|", "/"), t["verdict"], t.get("property") or "", chk, reason))
    open("/verif/mutation/TRIAGE.md", "w").write("\n".join(lines) + "\n")
    print("\n".join(lines[4:5]))
    for m in tri:
        if m["triage"]["verdict"] == "breaks":
            print("BREAKS M%d %s:%d %s %s" % (m["id"], m["file"], m["line"], m["triage"]["property"], m["triage"]["reason"][:200]))


if __name__ == "__main__":
    main()
