#!/usr/bin/env python3
"""Writes /verif/MANIFEST.json from the table below (one entry per claimed property)."""
import json

CHECKS = {
 "C08": dict(
    technique="Coq proof over a model of Python's comparison protocol instantiated with the generated NoneObject method table; exhaustive grammar correspondence (vm_compute)",
    text="Machine-checked theorems (coq/props/C08.v): for every operator, either position and every other operand whose own "
         "methods answer NotImplemented/False, a comparison with the missing-field sentinel is False in the interpreted engine, and "
         "in the compiled engine outside four named finding classes (each with a refuted-witness theorem). The sentinel's method "
         "table, the In/NotIn guards and the comparator table are regenerated from selector.py on every run, so a change there "
         "breaks `reflexivity` side conditions (the tables are OBSERVED by calling the live methods / comparator functions on probe "
         "operands and logging containers; the ast recognisers cross-check); the complete finite grammar of the property (16k expressions, "
         "the missing operand spelled as a missing field and as an attribute of one; the other operands include the degenerate values of "
         "every field type - empty path of either flavour, empty string / bytes / list / digest, zero, False, windows command, IPv6) is run on both "
         "engines and compared case by case with the model evaluated inside Coq, and mixed streams are filtered through "
         "RecordReader and rdump.",
    note="Trusted: Coq kernel + vm_compute; translator tools/vf/facts.py (AST/inspect of NoneObject, AST_COMPARATORS); the probe "
         "that observes how the other operand's methods answer the sentinel; CPython's comparison dispatch is modelled "
         "(model/Cmp.v) and validated by the exhaustive enumeration, not verified. Known findings (compiled `not in`, compiled `in` "
         "non-container / sequence holding a missing field, `!=` with a custom-__eq__ left operand) are listed in known_findings.json.",
    design="4/C08"),
}

NOT_YET = {
}

def main():
    import glob
    for f in sorted(glob.glob("/verif/tools/manifest.d/*.json")):
        CHECKS.update(json.load(open(f)))
    props = [json.loads(l) for l in open("/verif/properties.jsonl")]
    checks = []
    na = []
    for p in props:
        pid = p["id"]
        if pid in CHECKS:
            c = CHECKS[pid]
            checks.append(dict(
                property_id=pid,
                quick_cmd="./check %s --tier quick" % pid,
                thorough_cmd="./check %s --tier thorough" % pid,
                evidence_file="/verif/evidence/%s.json" % pid,
                replay_cmd_template="./check %s --replay {path}" % pid,
                engine="coq-proof+correspondence",
                level_claimed=dict(category="proof", text=c["text"], design_ref="DESIGN.md section " + c["design"]),
                level_note=c["note"],
                technique=c["technique"],
            ))
        else:
            na.append(dict(property_id=pid, reason=NOT_YET.get(pid, "check not built yet in this round (planned, see DESIGN.md section 4); no claim is made")))
    man = dict(
        version=1,
        setup_cmd="cd /verif && ./setup.sh",
        hooks=dict(
            guard="FOX_IT_FLOW_RECORD_VERIF",
            enable="no source hooks are needed; checks import /repo's working tree with PYTHONPATH=/repo (the guard variable is set by ./check but nothing in /repo reads it)",
            baseline_off_cmd="cd /repo && /venv/bin/python -m pytest -ra -q -p no:cacheprovider --timeout=900 --continue-on-collection-errors",
            source_commits=[l.strip() for l in open("/verif/source_commits.txt") if l.strip()],
            add_only=True,
        ),
        engines=[dict(name="coq-proof+correspondence", path="/verif/check",
                      serves_properties=sorted(CHECKS),
                      kind_free_text="Coq 8.16.1 development (coq/), facts translator (tools/vf/facts.py), per-property correspondence harness (tools/vf/props)")],
        checks=checks,
        notes="Every check: translator -> coq/gen, full .vo build of the property's cone, Print Assumptions, correspondence cases evaluated by vm_compute, known findings replayed. See DESIGN.md.",
        not_applicable=na,
    )
    json.dump(man, open("/verif/MANIFEST.json", "w"), indent=1)
    print("checks:", len(checks), "not claimed:", len(na))

main()
