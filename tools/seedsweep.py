#!/usr/bin/env python3
"""tools/seedsweep.py [-j N] [ids...]

Re-runs every stored seeded change (/verif/seeded/<ID>-<k>) and every stored harmless refactoring (/verif/harmless/<ID>-<k>)
against the CURRENT machinery and the current /repo HEAD: scratch worktree + `git apply` + `VERIF_REPO=<wt> ./check <ID>`
for the property the case was written for and for every other property recorded in its meta.json.  The outcome is written
into the case's meta.json as "final" (seeded: detected / with_input per check; harmless: quiet per check); a patch that no
longer applies (the code it touched was repaired or reshaped since) is recorded as such.  /repo itself is never touched.
"""
import json
import os
import subprocess
import sys
from concurrent.futures import ThreadPoolExecutor


def sh(cmd, **kw):
    p = subprocess.run(cmd, stdout=subprocess.PIPE, stderr=subprocess.STDOUT, text=True, **kw)
    return p.returncode, p.stdout


def run_case(kind, case):
    d = "/verif/%s/%s" % (kind, case)
    meta = json.load(open(d + "/meta.json"))
    pid = case.split("-")[0]
    conf = meta.get("confirmed", {})
    ids = list((conf.get("detection") or conf.get("checks") or {pid: None}).keys())
    if pid not in ids:
        ids.insert(0, pid)
    wt = "/tmp/sw_%s_%s" % (kind[0], case)
    sh(["git", "-C", "/repo", "worktree", "remove", "--force", wt])
    sh(["git", "-C", "/repo", "worktree", "add", "-q", wt, "HEAD"])
    head = sh(["git", "-C", "/repo", "rev-parse", "--short", "HEAD"])[1].strip()
    final = dict(repo_head=head)
    try:
        rc, out = sh(["git", "-C", wt, "apply", d + "/patch.diff"])
        if rc != 0:
            final["applies"] = False
        else:
            final["applies"] = True
            res = {}
            for cid in ids:
                rc, out = sh(["./check", cid], cwd="/verif", env=dict(os.environ, VERIF_REPO=wt))
                lines = [l for l in out.splitlines() if l.startswith("VIOLATION") or l.startswith("# ")]
                viol = rc != 0 and any(l.startswith("VIOLATION") for l in lines)
                res[cid] = dict(rc=rc, detected=viol,
                                with_input=any(l.startswith("VIOLATION") and "no-failing-input-found" not in l for l in lines),
                                quiet=(rc == 0 and not viol), lines=lines[:3])
            final["checks"] = res
    finally:
        sh(["git", "-C", "/repo", "worktree", "remove", "--force", wt])
        tag = "sw_%s_%s" % (kind[0], case)
        sh(["bash", "-c", "rm -rf /verif/.work/coq.*%s /verif/.work/evidence.*%s /verif/.work/coq.*%s /verif/.work/evidence.*%s" % (
            tag, tag, tag.replace("-", "_"), tag.replace("-", "_"))])
    meta["final"] = final
    json.dump(meta, open(d + "/meta.json", "w"), indent=1)
    return kind, case, final


def main():
    args = sys.argv[1:]
    jobs = 4
    if "-j" in args:
        i = args.index("-j")
        jobs = int(args[i + 1])
        del args[i:i + 2]
    cases = []
    for kind in ("seeded", "harmless"):
        if os.path.isdir("/verif/" + kind):
            for c in sorted(os.listdir("/verif/" + kind)):
                if os.path.exists("/verif/%s/%s/meta.json" % (kind, c)) and (not args or c in args or c.split("-")[0] in args):
                    cases.append((kind, c))
    with ThreadPoolExecutor(jobs) as ex:
        for kind, case, final in ex.map(lambda kc: run_case(*kc), cases):
            if not final.get("applies"):
                print("%-9s %-7s patch no longer applies" % (kind, case))
            else:
                print("%-9s %-7s %s" % (kind, case, {k: ("input" if v["with_input"] else "no-input" if v["detected"] else "quiet") for k, v in final["checks"].items()}))
            sys.stdout.flush()


if __name__ == "__main__":
    main()
