#!/usr/bin/env python3
"""Run /repo's test suite (guard off) and compare with /root/.vp/BASELINE.json's stable_pass set."""
import json, subprocess, sys, tempfile, os, xml.etree.ElementTree as ET
repo = sys.argv[1] if len(sys.argv) > 1 else "/repo"
base = json.load(open("/root/.vp/BASELINE.json"))
want = set(base["stable_pass"])
f = tempfile.mktemp(suffix=".xml")
env = dict(os.environ); env.pop("FOX_IT_FLOW_RECORD_VERIF", None); env["PYTHONPATH"] = repo
subprocess.run(["/venv/bin/python", "-m", "pytest", "-q", "-p", "no:cacheprovider", "--timeout=900",
                "--continue-on-collection-errors", "--junitxml=" + f], cwd=repo, env=env,
               stdout=subprocess.DEVNULL, stderr=subprocess.DEVNULL)
passed = set()
for tc in ET.parse(f).getroot().iter("testcase"):
    if not any(c.tag in ("failure", "error", "skipped") for c in tc):
        passed.add("%s::%s" % (tc.get("classname"), tc.get("name")))
os.unlink(f)
missing = sorted(want - passed)
print("baseline stable_pass=%d passed_now=%d missing=%d" % (len(want), len(passed), len(missing)))
for m in missing[:20]:
    print("  NOT PASSING:", m)
sys.exit(1 if missing else 0)
