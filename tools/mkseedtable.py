#!/usr/bin/env python3
"""Rewrites the '<!-- SEEDS -->' block of DESIGN.md from seeded/*/meta.json."""
import glob, json, os, re
rows = []
for d in sorted(glob.glob('/verif/seeded/*')):
    m = json.load(open(d + '/meta.json'))
    det = m.get('confirmed', {}).get('detection', {})
    for cid, v in det.items():
        how = 'VIOLATION + failing input' if v['with_input'] else ('VIOLATION no-failing-input-found' if v['detected'] else 'NOT DETECTED')
        via = (v['lines'][:1] or [''])[0].lstrip('# ')
        via = 'broken proof/translator, then search' if via.startswith('proof obligation') else 'oracle / correspondence on the implementation'
        rows.append('| %s | %s | %s | %s (%s) |' % (os.path.basename(d), m.get('summary', '').replace('|', '/')[:220], m.get('needs', '').replace('|', '/')[:200], how, via))
block = ('<!-- SEEDS -->\n### Seeded changes (independent sub-agents, property text only) and which check catches them\n\n'
         'Each change was produced by a fresh sub-agent that saw only the property text and its own scratch worktree, still passes the 444 '
         'stable tests, and comes with a demonstration that fails with the change and passes without it (`seeded/<id>-<k>/`). Confirmed and run '
         'with `tools/seedcheck.py` (scratch worktree + `VERIF_REPO=<worktree> ./check <ID>`).\n\n'
         '| seed | change | needs | caught by ./check <ID> |\n|---|---|---|---|\n' + '\n'.join(rows) + '\n<!-- /SEEDS -->')
p = '/verif/DESIGN.md'
s = open(p).read()
if '<!-- SEEDS -->' in s:
    s = re.sub(r'<!-- SEEDS -->.*?<!-- /SEEDS -->', lambda _: block, s, flags=re.S)
else:
    s = s.replace('## 1. What is verified and why tests cannot settle it', block + '\n\n\n## 1. What is verified and why tests cannot settle it')
open(p, 'w').write(s)
print(len(rows), 'seeds')
