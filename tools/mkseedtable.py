#!/usr/bin/env python3
"""Rewrites the '<!-- SEEDS -->' block of DESIGN.md from seeded/*/meta.json and harmless/*/meta.json.
'first run' = what the check said when the case was first tried (tools/seedcheck.py / tools/harmcheck.py);
'now' = what the current machinery says (tools/seedsweep.py, recorded as "final" in meta.json)."""
import glob, json, os, re


def word(v):
    return 'input' if v.get('with_input') else ('no-input' if v.get('detected') else 'MISSED')


rows = []
for d in sorted(glob.glob('/verif/seeded/*')):
    m = json.load(open(d + '/meta.json'))
    det = m.get('confirmed', {}).get('detection', {})
    fin = m.get('final', {})
    first = ', '.join('%s: %s' % (cid, word(v)) for cid, v in det.items())
    if not fin:
        now = '(not re-run)'
    elif not fin.get('applies'):
        now = 'patch no longer applies to HEAD'
    else:
        now = ', '.join('%s: %s' % (cid, word(v)) for cid, v in fin['checks'].items())
    rows.append('| %s | %s | %s | %s | %s |' % (os.path.basename(d), m.get('summary', '').replace('|', '/').replace('\n', ' ')[:200],
                                              m.get('needs', '').replace('|', '/').replace('\n', ' ')[:160], first, now))
hrows = []
for d in sorted(glob.glob('/verif/harmless/*')):
    m = json.load(open(d + '/meta.json'))
    chk = m.get('confirmed', {}).get('checks', {})
    fin = m.get('final', {})
    first = ', '.join('%s: %s' % (cid, 'quiet' if v.get('quiet') else 'ALARM') for cid, v in chk.items())
    if not fin:
        now = '(not re-run)'
    elif not fin.get('applies'):
        now = 'patch no longer applies to HEAD'
    else:
        now = ', '.join('%s: %s' % (cid, 'quiet' if v.get('quiet') else ('ALARM' + ('' if v.get('with_input') else ' (no-failing-input-found)'))) for cid, v in fin['checks'].items())
    hrows.append('| %s | %s | %s | %s |' % (os.path.basename(d), m.get('summary', '').replace('|', '/').replace('\n', ' ')[:260], first, now))
block = ('<!-- SEEDS -->\n### Seeded changes (independent sub-agents, property text only) and which check catches them\n\n'
         'Each change was produced by a fresh sub-agent that saw only the property text and its own scratch worktree, still passes the 444 '
         'stable tests, and comes with a demonstration that fails with the change and passes without it (`seeded/<id>-<k>/`). Confirmed and run '
         'with `tools/seedcheck.py` (scratch worktree + `VERIF_REPO=<worktree> ./check <ID>`); `tools/seedsweep.py` re-runs all of them against '
         'the current machinery. Rounds: k=1,2 obvious edits in the anchored code; k=3,4 less central paths; k=5,6 code OUTSIDE the anchored '
         'functions that the guarantee depends on; k=9,10 cooperating edits / error handling / boundaries; k=11,12 well-meant '
         'improvements; k=15,16 coverage-guided (behaviour no existing test touches); `<prop>-M<id>` = a surviving mutant of the mutation '
         'sweep that a triage sub-agent showed to break the property (mutation/TRIAGE.md). "input" = VIOLATION with a concrete failing input, "no-input" = VIOLATION ... '
         'no-failing-input-found, "MISSED" = the check stayed quiet.\n\n'
         '| seed | change | needs | first run | now |\n|---|---|---|---|---|\n' + '\n'.join(rows) + '\n\n'
         '### Harmless refactorings (false-alarm test)\n\n'
         'Behaviour-preserving clean-ups of the anchored code by fresh sub-agents (444 tests pass, demonstration prints identical output on '
         'both trees; `harmless/<id>-<k>/`, run with `tools/harmcheck.py`). A check should stay quiet; "ALARM (no-failing-input-found)" is the '
         'sanctioned report of a tie that no longer checks, and each one was used to move facts from syntactic recognition to observed behaviour.\n\n'
         '| case | refactoring | first run | now |\n|---|---|---|---|\n' + '\n'.join(hrows) + '\n<!-- /SEEDS -->')
p = '/verif/DESIGN.md'
s = open(p).read()
if '<!-- SEEDS -->' in s:
    s = re.sub(r'<!-- SEEDS -->.*?<!-- /SEEDS -->', lambda _: block, s, flags=re.S)
else:
    s = s.replace('## 1. What is verified and why tests cannot settle it', block + '\n\n\n## 1. What is verified and why tests cannot settle it')
open(p, 'w').write(s)
print(len(rows), 'seeds', len(hrows), 'harmless')
