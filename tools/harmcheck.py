#!/usr/bin/env python3
"""tools/harmcheck.py <ID> <k> [--src /tmp/harm_<ID>_out] [--also ids]

False-alarm test: a behaviour-preserving refactoring (patch<k>.diff + demo<k>.py + meta<k>.json produced by an independent
sub-agent that saw only the property text) is applied in a scratch worktree of /repo; confirmed harmless when the 444
stable tests still pass and the demonstration prints identical output on both trees; then ./check <ID> runs against it
(VERIF_REPO = that worktree): it must exit 0 without a VIOLATION line.
Confirmed cases are stored as /verif/harmless/<ID>-<k>/ {patch.diff, demo.py, meta.json}.
"""
import json
import os
import shutil
import subprocess
import sys


def sh(cmd, **kw):
    p = subprocess.run(cmd, stdout=subprocess.PIPE, stderr=subprocess.STDOUT, text=True, **kw)
    return p.returncode, p.stdout


def main():
    pid, k = sys.argv[1], sys.argv[2]
    src = "/tmp/harm_%s_out" % pid
    if "--src" in sys.argv:
        src = sys.argv[sys.argv.index("--src") + 1]
    check_ids = [pid]
    if "--also" in sys.argv:
        check_ids += sys.argv[sys.argv.index("--also") + 1].split(",")
    patch = os.path.join(src, "patch%s.diff" % k)
    demo = os.path.join(src, "demo%s.py" % k)
    meta = json.load(open(os.path.join(src, "meta%s.json" % k)))
    wt = "/tmp/hv_%s_%s" % (pid, k)
    sh(["git", "-C", "/repo", "worktree", "remove", "--force", wt])
    sh(["git", "-C", "/repo", "worktree", "add", "-q", wt, "HEAD"])
    res = dict(applies=False)
    try:
        rc, out = sh(["git", "-C", wt, "apply", patch])
        res["applies"] = rc == 0
        if rc != 0:
            res["apply_error"] = out[-500:]
            return res
        rc, out = sh(["/verif/tools/baseline_check.py", wt])
        res["tests_ok"] = rc == 0
        env = dict(os.environ, PYTHONPATH=wt, PYTHONDONTWRITEBYTECODE="1", PYTHONHASHSEED="0")
        rc1, o1 = sh(["/venv/bin/python", "-W", "ignore", demo, wt], env=env, cwd="/tmp")
        env0 = dict(os.environ, PYTHONPATH="/repo", PYTHONDONTWRITEBYTECODE="1", PYTHONHASHSEED="0")
        rc0, o0 = sh(["/venv/bin/python", "-W", "ignore", demo, "/repo"], env=env0, cwd="/tmp")
        same = (rc1 == rc0) and (o1.replace(wt, "<T>") == o0.replace("/repo", "<T>"))
        res["demo_same_output"] = same
        res["confirmed_harmless"] = bool(res["tests_ok"] and same)
        det = {}
        for cid in check_ids:
            rc, out = sh(["./check", cid], cwd="/verif", env=dict(os.environ, VERIF_REPO=wt))
            lines = [l for l in out.splitlines() if l.startswith("VIOLATION") or l.startswith("# ")]
            det[cid] = dict(rc=rc, quiet=(rc == 0 and not any(l.startswith("VIOLATION") for l in lines)), lines=lines[:4])
        res["checks"] = det
        if res["confirmed_harmless"]:
            dst = "/verif/harmless/%s-%s" % (pid, k)
            os.makedirs(dst, exist_ok=True)
            shutil.copy(patch, os.path.join(dst, "patch.diff"))
            shutil.copy(demo, os.path.join(dst, "demo.py"))
            meta.update(confirmed=dict(
                how="scratch worktree of /repo HEAD (%s) + git apply; 444 stable tests pass; demo.py prints identical output on both "
                    "trees; VERIF_REPO=<worktree> ./check <ID> must stay quiet" % sh(["git", "-C", "/repo", "rev-parse", "--short", "HEAD"])[1].strip(),
                checks=det))
            json.dump(meta, open(os.path.join(dst, "meta.json"), "w"), indent=1)
        return res
    finally:
        sh(["git", "-C", "/repo", "worktree", "remove", "--force", wt])
        sh(["bash", "-c", "rm -rf /verif/.work/coq.*hv_%s_%s* /verif/.work/evidence.*hv_%s_%s*" % (pid, k, pid, k)])
        print(json.dumps(res, indent=1))


if __name__ == "__main__":
    main()
