#!/bin/bash
# Build the framework from files on disk only (offline): translator -> coq/gen, then the whole Coq development.
cd /verif
export PYTHONPATH=/repo:/verif/tools PYTHONHASHSEED=0 PYTHONDONTWRITEBYTECODE=1
mkdir -p coq/gen evidence replays .work
/venv/bin/python tools/vf/facts.py || echo "setup: translator reported errors (checks will report them per property)"
/venv/bin/python -c "from vf import core; core._ensure_makefile()" || exit 1
cd coq
timeout 3000 make -j16 -k || echo "setup: some Coq files did not build (checks will report them per property)"
exit 0
