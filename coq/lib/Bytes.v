(* Bytes, big-endian numbers, hex literals.  Generic; no repository knowledge. *)
From Coq Require Import List Bool NArith ZArith Lia String Ascii.
From Coq Require Import Init.Byte.
Import ListNotations.
Open Scope N_scope.

Definition bytes := list byte.

Definition b2n (b : byte) : N := Byte.to_N b.
Definition n2b (n : N) : byte := match Byte.of_N (n mod 256) with Some b => b | None => x00 end.

Lemma b2n_lt (b : byte) : b2n b < 256.
Proof. unfold b2n. pose proof (Byte.to_N_bounded b). lia. Qed.

Lemma b2n_n2b (n : N) : b2n (n2b n) = n mod 256.
Proof.
  unfold b2n, n2b. destruct (Byte.of_N (n mod 256)) as [b|] eqn:E.
  - apply Byte.to_of_N in E. exact E.
  - apply Byte.of_N_None_iff in E. pose proof (N.mod_upper_bound n 256). lia.
Qed.

Lemma n2b_b2n (b : byte) : n2b (b2n b) = b.
Proof.
  unfold n2b, b2n. rewrite N.mod_small by (pose proof (Byte.to_N_bounded b); lia).
  rewrite Byte.of_to_N. reflexivity.
Qed.

Lemma b2n_inj a b : b2n a = b2n b -> a = b.
Proof. intros H. rewrite <- (n2b_b2n a), <- (n2b_b2n b), H. reflexivity. Qed.

Definition byte_eqb (a b : byte) : bool := N.eqb (b2n a) (b2n b).
Lemma byte_eqb_eq a b : byte_eqb a b = true <-> a = b.
Proof. unfold byte_eqb. rewrite N.eqb_eq. split; [apply b2n_inj|intros ->; reflexivity]. Qed.
Lemma byte_eqb_refl a : byte_eqb a a = true.
Proof. apply byte_eqb_eq. reflexivity. Qed.

Fixpoint bytes_eqb (a b : bytes) : bool :=
  match a, b with
  | [], [] => true
  | x :: a', y :: b' => byte_eqb x y && bytes_eqb a' b'
  | _, _ => false
  end.
Lemma bytes_eqb_eq a b : bytes_eqb a b = true <-> a = b.
Proof.
  revert b; induction a as [|x a IH]; intros [|y b]; cbn; split; intros H; try reflexivity; try discriminate.
  - apply andb_prop in H. destruct H as [H1 H2]. apply byte_eqb_eq in H1. apply IH in H2. congruence.
  - inversion H; subst. rewrite byte_eqb_refl. cbn. apply IH. reflexivity.
Qed.

(* big-endian: [be k n] = the k low-order bytes of n, most significant first *)
Fixpoint be (k : nat) (n : N) : bytes :=
  match k with
  | O => []
  | S k' => be k' (n / 256) ++ [n2b n]
  end.

Fixpoint unbe_acc (acc : N) (bs : bytes) : N :=
  match bs with
  | [] => acc
  | b :: bs' => unbe_acc (acc * 256 + b2n b) bs'
  end.
Definition unbe (bs : bytes) : N := unbe_acc 0 bs.

Lemma be_length k n : List.length (be k n) = k.
Proof. revert n; induction k as [|k IH]; intros n; cbn; [reflexivity|]. rewrite app_length, IH. cbn. lia. Qed.

Lemma unbe_acc_app acc a b : unbe_acc acc (a ++ b) = unbe_acc (unbe_acc acc a) b.
Proof. revert acc; induction a as [|x a IH]; intros acc; cbn; [reflexivity|apply IH]. Qed.

Lemma unbe_acc_be k : forall n acc, unbe_acc acc (be k n) = acc * 256 ^ (N.of_nat k) + n mod 256 ^ (N.of_nat k).
Proof.
  induction k as [|k IH]; intros n acc.
  - cbn. rewrite N.mod_1_r. lia.
  - cbn [be]. rewrite unbe_acc_app, IH. cbn [unbe_acc]. rewrite b2n_n2b.
    rewrite Nat2N.inj_succ, N.pow_succ_r by lia.
    set (p := 256 ^ N.of_nat k) in *.
    assert (Hp : p <> 0) by (unfold p; apply N.pow_nonzero; lia).
    rewrite (N.mod_mul_r n 256 p) by lia. lia.
Qed.

Lemma unbe_be k n : n < 256 ^ (N.of_nat k) -> unbe (be k n) = n.
Proof. intros H. unfold unbe. rewrite unbe_acc_be. rewrite N.mod_small by exact H. lia. Qed.

Lemma unbe_acc_bound bs : forall acc, unbe_acc acc bs < (acc + 1) * 256 ^ (N.of_nat (List.length bs)).
Proof.
  induction bs as [|b bs IH]; intros acc; cbn [unbe_acc List.length].
  - cbn. lia.
  - specialize (IH (acc * 256 + b2n b)). rewrite Nat2N.inj_succ, N.pow_succ_r by lia.
    pose proof (b2n_lt b). nia.
Qed.

Lemma unbe_bound bs : unbe bs < 256 ^ (N.of_nat (List.length bs)).
Proof. unfold unbe. pose proof (unbe_acc_bound bs 0). lia. Qed.

(* be (length bs) (unbe bs) = bs *)
Lemma be_app_low k : forall hi lo, lo < 256 ^ (N.of_nat k) -> be k (hi * 256 ^ (N.of_nat k) + lo) = be k lo.
Proof.
  induction k as [|k IH]; intros hi lo H; [reflexivity|].
  cbn [be]. rewrite Nat2N.inj_succ, N.pow_succ_r in * by lia.
  set (p := 256 ^ N.of_nat k) in *.
  assert (Hp : p <> 0) by (unfold p; apply N.pow_nonzero; lia).
  f_equal.
  - replace ((hi * (256 * p) + lo) / 256) with (hi * p + lo / 256).
    + apply IH. apply N.div_lt_upper_bound; lia.
    + symmetry. replace (hi * (256 * p) + lo) with (lo + (hi * p) * 256) by lia.
      rewrite N.div_add by lia. lia.
  - f_equal. unfold n2b. replace (hi * (256 * p) + lo) with (lo + (hi * p) * 256) by lia.
    rewrite N.mod_add by lia. reflexivity.
Qed.

Lemma be_unbe bs : be (List.length bs) (unbe bs) = bs.
Proof.
  unfold unbe.
  assert (G : forall bs acc, be (List.length bs) (unbe_acc acc bs) = bs).
  { clear bs. induction bs as [|b bs IH] using rev_ind; intros acc; [reflexivity|].
    rewrite unbe_acc_app, app_length. cbn [List.length unbe_acc]. rewrite Nat.add_1_r. cbn [be].
    f_equal.
    - replace ((unbe_acc acc bs * 256 + b2n b) / 256) with (unbe_acc acc bs).
      + apply IH.
      + pose proof (b2n_lt b). symmetry. rewrite N.add_comm, N.div_add by lia. rewrite N.div_small by lia. lia.
    - f_equal. unfold n2b. rewrite N.add_comm, N.mod_add by lia.
      rewrite N.mod_small by apply b2n_lt. rewrite Byte.of_to_N. reflexivity. }
  apply G.
Qed.

(* ---- hex literals (used by generated facts and by correspondence shards) ---- *)
Definition hexval (c : ascii) : N :=
  let n := N_of_ascii c in
  if (48 <=? n) && (n <=? 57) then n - 48
  else if (97 <=? n) && (n <=? 102) then n - 87
  else if (65 <=? n) && (n <=? 70) then n - 55
  else 0.

Fixpoint unhex (s : string) : bytes :=
  match s with
  | String a (String b rest) => n2b (hexval a * 16 + hexval b) :: unhex rest
  | _ => []
  end.

Definition byte_of_ascii (a : ascii) : byte := n2b (N_of_ascii a).
Definition ascii_of_byte (b : byte) : ascii := ascii_of_N (b2n b).

Fixpoint bytes_of_string (s : string) : bytes :=
  match s with
  | EmptyString => []
  | String a rest => byte_of_ascii a :: bytes_of_string rest
  end.

Fixpoint string_of_bytes (bs : bytes) : string :=
  match bs with
  | [] => EmptyString
  | b :: rest => String (ascii_of_byte b) (string_of_bytes rest)
  end.

Fixpoint is_prefix (p bs : bytes) : bool :=
  match p, bs with
  | [], _ => true
  | x :: p', y :: bs' => byte_eqb x y && is_prefix p' bs'
  | _, [] => false
  end.

Lemma is_prefix_app p r : is_prefix p (p ++ r) = true.
Proof. induction p as [|x p IH]; cbn; [reflexivity|]. rewrite byte_eqb_refl. exact IH. Qed.

Lemma is_prefix_spec p bs : is_prefix p bs = true <-> exists r, bs = p ++ r.
Proof.
  revert bs; induction p as [|x p IH]; intros bs; cbn.
  - split; [intros _; exists bs; reflexivity|reflexivity].
  - destruct bs as [|y bs]; [split; [discriminate|intros [r H]; discriminate]|].
    rewrite andb_true_iff, byte_eqb_eq, IH. split.
    + intros [-> [r ->]]. exists r. reflexivity.
    + intros [r H]. inversion H; subst. split; [reflexivity|exists r; reflexivity].
Qed.
