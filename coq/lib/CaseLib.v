(* helpers for the correspondence shards written by the harness *)
From Coq Require Import List Bool NArith.
Import ListNotations.

Fixpoint failing_from (i : N) (l : list bool) : list N :=
  match l with
  | [] => []
  | b :: t => if b then failing_from (N.succ i) t else i :: failing_from (N.succ i) t
  end.

Definition failing (l : list bool) : list N := failing_from 0%N l.
