(* A small regular-expression matcher over code points (N), by Brzozowski derivatives with the three
   standard simplifications (so the derivative of the patterns used here stays of constant size).
   Generic: no knowledge of the repository.  Definitions only; lemmas are in proofs/Regex_proofs.v.

   py_match models Python's  re.compile("^" body <end>).match(s)  for an anchor-free body:
     EndDollar  "$"   matches at the end of the string AND just before one trailing "\n"
     EndZ       "\Z"  (or re.fullmatch) matches only at the end of the string
     EndNone          no end anchor: any prefix may match *)
From Coq Require Import List Bool NArith.
Import ListNotations.
Open Scope N_scope.

Definition cclass := list (N * N).          (* union of inclusive code-point ranges *)

Definition in_range (r : N * N) (c : N) : bool := (fst r <=? c) && (c <=? snd r).
Definition cc_mem (cs : cclass) (c : N) : bool := existsb (fun r => in_range r c) cs.

Inductive regex :=
| Emp                      (* matches nothing *)
| Eps                      (* matches the empty string *)
| CC (cs : cclass)         (* one code point of the class; a literal is a one-point class *)
| Seq (a b : regex)
| Alt (a b : regex)
| Star (a : regex)
| Opt (a : regex).

Fixpoint nullable (r : regex) : bool :=
  match r with
  | Emp => false
  | Eps => true
  | CC _ => false
  | Seq a b => nullable a && nullable b
  | Alt a b => nullable a || nullable b
  | Star _ => true
  | Opt _ => true
  end.

Definition mkSeq (a b : regex) : regex :=
  match a with
  | Emp => Emp
  | Eps => b
  | _ => Seq a b
  end.

Definition mkAlt (a b : regex) : regex :=
  match a, b with
  | Emp, _ => b
  | _, Emp => a
  | _, _ => Alt a b
  end.

Fixpoint deriv (c : N) (r : regex) : regex :=
  match r with
  | Emp => Emp
  | Eps => Emp
  | CC cs => if cc_mem cs c then Eps else Emp
  | Seq a b => if nullable a then mkAlt (mkSeq (deriv c a) b) (deriv c b) else mkSeq (deriv c a) b
  | Alt a b => mkAlt (deriv c a) (deriv c b)
  | Star a => mkSeq (deriv c a) (Star a)
  | Opt a => deriv c a
  end.

Fixpoint re_fullmatch (r : regex) (s : list N) : bool :=
  match s with
  | [] => nullable r
  | c :: t => re_fullmatch (deriv c r) t
  end.

(* some prefix of s is matched by r *)
Fixpoint re_prefixmatch (r : regex) (s : list N) : bool :=
  nullable r ||
  match s with
  | [] => false
  | c :: t => re_prefixmatch (deriv c r) t
  end.

Inductive end_anchor := EndDollar | EndZ | EndNone.

Definition NL : N := 10.

(* s = init ++ [NL] ?  returns init *)
Fixpoint strip_final_nl (s : list N) : option (list N) :=
  match s with
  | [] => None
  | [c] => if c =? NL then Some [] else None
  | c :: t => match strip_final_nl t with Some i => Some (c :: i) | None => None end
  end.

Definition py_match_dollar (r : regex) (s : list N) : bool :=
  re_fullmatch r s ||
  match strip_final_nl s with Some i => re_fullmatch r i | None => false end.

Definition py_match (r : regex) (e : end_anchor) (s : list N) : bool :=
  match e with
  | EndDollar => py_match_dollar r s
  | EndZ => re_fullmatch r s
  | EndNone => re_prefixmatch r s
  end.

(* the denotation (used only to state the matcher's correctness) *)
Inductive matches : regex -> list N -> Prop :=
| MEps : matches Eps []
| MCC cs c : cc_mem cs c = true -> matches (CC cs) [c]
| MSeq a b s1 s2 : matches a s1 -> matches b s2 -> matches (Seq a b) (s1 ++ s2)
| MAltL a b s : matches a s -> matches (Alt a b) s
| MAltR a b s : matches b s -> matches (Alt a b) s
| MStar0 a : matches (Star a) []
| MStarS a s1 s2 : matches a s1 -> matches (Star a) s2 -> matches (Star a) (s1 ++ s2)
| MOpt0 a : matches (Opt a) []
| MOptS a s : matches a s -> matches (Opt a) s.
