(* C02 -- Written bytes conform to the frozen RecordStream wire format.  Statements only.
   The format constants below are FROZEN here (the published format); [the_cfg] etc. are regenerated from the
   code on every run, so a change of any constant in the code breaks the first theorems. *)
From Coq Require Import List Bool NArith ZArith String.
From Coq Require Import Init.Byte.
Import ListNotations.
From FR Require Import Bytes Msgpack Msgpack_proofs Packer Stream Gen_packer
                       Packer_proofs Values_proofs Stream_proofs Roundtrip_proofs Registry_proofs.
Open Scope Z_scope.

Theorem C02_published_constants :
  EXT the_cfg = 14%N /\ SUB_RECORD the_cfg = 1 /\ SUB_DESC the_cfg = 2 /\ SUB_DATETIME the_cfg = 16 /\
  SUB_VARINT the_cfg = 17 /\ SUB_GROUPED the_cfg = 18 /\ VERSION the_cfg = 1 /\
  MAGIC the_cfg = bytes_of_string "RECORDSTREAM
".
Proof. repeat split. Qed.

Theorem C02_published_codec_options :
  packb_use_bin_type = true /\ packb_surrogateescape = true /\ unpackb_raw = false /\ unpackb_surrogateescape = true.
Proof. repeat split. Qed.

Theorem C02_reserved_fields_order :
  reserved_fields = [("_source", "string"); ("_classification", "string"); ("_generated", "datetime"); ("_version", "varint")]%string
  /\ reserved_types = [TString; TString; TDatetime; TInt].
Proof. split; reflexivity. Qed.

Theorem C02_identifier_hash_input : hash_field_order = ["name"; "type"]%string.
Proof. reflexivity. Qed.

(* the header frame: 4-byte big-endian length 15, bin8 header, the 13 magic bytes *)
Theorem C02_header_frame : frame (header_body the_cfg) = unhex "0000000fc40d5245434f524453545245414d0a".
Proof. vm_compute. reflexivity. Qed.

(* msgpack layer of the reference codec: decoding any encoding gives the value back and leaves what follows *)
Theorem C02_msgpack_roundtrip : forall v r f, mv_wf v = true -> (fuel_of v <= f)%nat -> dec f (enc v ++ r) = DOk v r.
Proof. intros v r f H Hf. exact (dec_enc v H r f Hf). Qed.
Theorem C02_unpackb_roundtrip : forall v, mv_wf v = true -> unpackb (enc v) = UOk v.
Proof. exact unpackb_enc. Qed.

(* ext type 14 wrapping [sub-type, payload]; big integers as [negative?, magnitude bytes] under sub-type 0x11 *)
Theorem C02_envelope_roundtrip : forall x, xv_ok the_cfg x = true ->
  forall d, (xdepth x < d)%nat -> raise_ the_cfg d (lower the_cfg x) = Some x.
Proof. exact (raise_lower the_cfg eq_refl). Qed.

(* what the writer produces IS a sequence of frames: header frame first, then for each item the frames of the
   not-yet-registered descriptors followed by the item's frame, every body being one msgpack value *)
Theorem C02_writer_conforms : forall HASH it t,
  write_stream the_cfg HASH (it :: t) =
  frame (header_body the_cfg) ++ frames (write_all_bodies the_cfg HASH (st_of []) (it :: t)).
Proof. intros. unfold write_stream. rewrite write_all_first. reflexivity. Qed.

(* the reference decoder of the format recovers exactly the records written (same statement as C01) *)
Theorem C02_reference_decoder_recovers : forall (HASH : desc -> Z) depth items,
  stream_okb the_cfg HASH depth [] items = true ->
  read_stream the_cfg HASH depth (write_stream the_cfg HASH items) = Read (map RItem items) CleanEOF.
Proof. intros. apply stream_roundtrip; [reflexivity|assumption]. Qed.

(* compatibility: a record payload carrying extra trailing metadata values before the version is read as if they
   were absent; a payload with fewer values than fields (no version field) has the missing ones unset *)
Theorem C02_compat_extra_reserved_trimmed : forall n (vals extras : list xv) v,
  List.length vals = (n - 1)%nat -> (1 <= n)%nat -> extras <> [] ->
  fit true n (vals ++ extras ++ [v]) = Some (vals ++ [v]).
Proof. exact fit_trims. Qed.
Theorem C02_compat_missing_values_unset : forall n (vs : list xv), (List.length vs <= n)%nat ->
  fit true n vs = Some (vs ++ repeat XNil (n - List.length vs)).
Proof. exact fit_pads. Qed.
