(* C16 -- rdump output is the specified slice of the filtered input.
   Statements only; every proof is `exact <lemma>` (or `reflexivity` for computed side conditions on the GENERATED
   facts of gen/Gen_rdump.v: the shapes of rdump.main and record_stream as they are in the working tree).

   A record is an abstract type R; the library operations on one record are parameters of each theorem:
   the two selector engines on the -s expression, assignment of a reserved field, RecordFieldRewriter.rewrite,
   iter_timestamped_records.  The only thing assumed of them is [rewrite_nothing] (the first statement of
   RecordFieldRewriter.rewrite). *)
From Coq Require Import List Bool String Ascii Arith NArith.
Import ListNotations.
From FR Require Import Rdump Gen_rdump Rdump_proofs.
Open Scope list_scope.

(* the generated facts have the shape the proofs need (computed on what the code says now) *)
Theorem C16_generated_record_side : facts_records_ok rdump_facts = true.
Proof. reflexivity. Qed.
Theorem C16_generated_uri_side : facts_uri_ok rdump_facts = true.
Proof. reflexivity. Qed.
Theorem C16_generated_query_parameters :
  f_qparams rdump_facts = [("fields", QFields); ("exclude", QExclude); ("format_spec", QFormat)]%string.
Proof. reflexivity. Qed.
Theorem C16_generated_split :
  String.eqb (fst (f_split_keys rdump_facts)) (snd (f_split_keys rdump_facts)) = false
  /\ no_char "?" (f_split_scheme rdump_facts) = true /\ no_char "#" (f_split_scheme rdump_facts) = true
  /\ no_char "?" (f_split_noscheme rdump_facts) = true /\ no_char "#" (f_split_noscheme rdump_facts) = true.
Proof. repeat split; reflexivity. Qed.
(* between `try:` and `finally:` no option of the URI side is read *)
Theorem C16_generated_dataflow : dataflow_ok rdump_facts = true.
Proof. reflexivity. Qed.

(* islice(it, skip, stop) is "drop skip, then take stop - skip", for every skip and stop *)
Theorem C16_islice : forall (A : Type) (l : list A) start stop,
  islice start stop l = firstn_opt (option_map (fun s => s - start) stop) (skipn start l).
Proof. exact islice_spec. Qed.

Section WithRecords.
Variable R : Type.
Variable sel_compiled sel_interpreted : R -> bool.
Variable set_field : string -> string -> R -> R.
Variable rewrite : list string -> list string -> option string -> R -> R.
Variable expand : R -> list R.
Hypothesis rewrite_nothing : forall e r, truthy e = false -> rewrite [] [] e r = r.

(* The records handed to the per-record steps: the matching records of every source's intact prefix, in order,
   minus the first SKIP, limited to COUNT (0 or absent = no limit), each with overrides then projection applied. *)
Theorem C16_spec : forall o (srcs : list (source R)),
  selected R sel_compiled sel_interpreted set_field rewrite rdump_facts o srcs =
  map (fun r => project R rewrite o (override R set_field o r))
      (firstn_opt (limit_of (o_count o))
         (skipn (o_skip o)
            (filter (if o_no_compile o then sel_interpreted else sel_compiled)
                    (List.concat (map intact_prefix srcs))))).
Proof. exact (fun o srcs => selected_spec R sel_compiled sel_interpreted set_field rewrite rewrite_nothing rdump_facts o srcs eq_refl). Qed.

(* what the writer receives: nothing in list mode, the expansion of each record with --multi-timestamp *)
Theorem C16_written : forall o (srcs : list (source R)),
  written R sel_compiled sel_interpreted set_field rewrite expand rdump_facts o srcs =
  if o_list o then []
  else let l := selected R sel_compiled sel_interpreted set_field rewrite rdump_facts o srcs in
       if o_multi o then flat_map expand l else l.
Proof. exact (fun o srcs => written_spec R sel_compiled sel_interpreted set_field rewrite expand rdump_facts o srcs eq_refl). Qed.

(* no options: the identity on the concatenation of the intact prefixes *)
Theorem C16_identity : forall (srcs : list (source R)), (forall r, sel_compiled r = true) ->
  written R sel_compiled sel_interpreted set_field rewrite expand rdump_facts (default_opts rdump_facts) srcs
  = List.concat (map intact_prefix srcs).
Proof. exact (fun srcs => identity R sel_compiled sel_interpreted set_field rewrite expand rewrite_nothing rdump_facts srcs eq_refl). Qed.

(* --count 0 is "no limit" *)
Theorem C16_count_zero_unlimited : forall o (srcs : list (source R)),
  selected R sel_compiled sel_interpreted set_field rewrite rdump_facts (set_count o (Some 0)) srcs =
  selected R sel_compiled sel_interpreted set_field rewrite rdump_facts (set_count o None) srcs.
Proof. exact (fun o srcs => count_zero_unlimited R sel_compiled sel_interpreted set_field rewrite rewrite_nothing rdump_facts o srcs eq_refl). Qed.

(* the writes are computed without looking at -w / -m / -f / --split / --suffix-length *)
Theorem C16_mode_independent : forall o w m f sp sl (srcs : list (source R)),
  written R sel_compiled sel_interpreted set_field rewrite expand rdump_facts (set_output o w m f sp sl) srcs =
  written R sel_compiled sel_interpreted set_field rewrite expand rdump_facts o srcs.
Proof. exact (mode_independent R sel_compiled sel_interpreted set_field rewrite expand rdump_facts). Qed.

(* -n selects the interpreted engine; when the engines agree on every record the output is the same *)
Theorem C16_engine_flag : forall o, uses_compiled rdump_facts o = negb (o_no_compile o).
Proof. exact (fun o => engine_flag rdump_facts o eq_refl). Qed.
Theorem C16_engine_independent : forall o b (srcs : list (source R)),
  (forall r, sel_compiled r = sel_interpreted r) ->
  selected R sel_compiled sel_interpreted set_field rewrite rdump_facts (set_no_compile o b) srcs =
  selected R sel_compiled sel_interpreted set_field rewrite rdump_facts o srcs.
Proof. exact (fun o b srcs => engine_independent R sel_compiled sel_interpreted set_field rewrite rewrite_nothing rdump_facts o b srcs eq_refl). Qed.

(* an exception while a record is processed or written: every write made before it is in the output *)
Theorem C16_abort_flushed : forall fails o (srcs : list (source R)), o_list o = false ->
  output_after_abort R sel_compiled sel_interpreted set_field rewrite expand rdump_facts fails o srcs =
  flat_map (write_items R expand rdump_facts o)
           (ok_prefix R fails (selected R sel_compiled sel_interpreted set_field rewrite rdump_facts o srcs)).
Proof. exact (fun fails o srcs => abort_flushed R sel_compiled sel_interpreted set_field rewrite expand rdump_facts fails o srcs eq_refl). Qed.

End WithRecords.

(* A failing source (whatever the kind of failure) contributes exactly the matching records of its intact prefix;
   the sources before and after it are read completely, and no exception leaves record_stream. *)
Theorem C16_failure_isolated : forall (R : Type) sel (before after : list (source R)) (s : source R),
  record_stream R rdump_facts sel (before ++ s :: after) =
  (fst (record_stream R rdump_facts sel before) ++ filter sel (intact_prefix s)
   ++ fst (record_stream R rdump_facts sel after), false).
Proof. exact (fun R sel b a s => failure_isolated R rdump_facts sel b a s eq_refl eq_refl). Qed.
Theorem C16_record_stream : forall (R : Type) sel (srcs : list (source R)),
  record_stream R rdump_facts sel srcs = (filter sel (List.concat (map intact_prefix srcs)), false).
Proof. exact (fun R sel srcs => record_stream_spec R rdump_facts sel srcs eq_refl eq_refl). Qed.

(* Without -w: for every mode (also an unknown one), every non-empty -F / -X / -f value is an item
   name=quote_plus(value) of the query of the URI the writer is opened with. *)
Theorem C16_uri_carries_query : forall o kv,
  truthy (o_writer o) = false -> In kv (live_params rdump_facts o) ->
  In (item_of kv) (query_items (mode_uri rdump_facts o)).
Proof. exact (fun o kv => uri_carries_query rdump_facts o kv eq_refl). Qed.
(* With -w the URI is the given text. *)
Theorem C16_writer_uri_verbatim : forall o w, o_writer o = Some w -> str_empty w = false -> mode_uri rdump_facts o = w.
Proof. exact (writer_uri_verbatim rdump_facts). Qed.

(* The joining rule with the old operator precedence loses the query exactly for the modes whose URI already has
   one: the statement above is false of it (witness: -m json -F a). *)
Definition o_json_fields : opts :=
  {| o_skip := 0; o_count := None; o_no_compile := false; o_fields := "a"; o_exclude := ""; o_expr := None;
     o_source := None; o_class := None; o_multi := false; o_list := false; o_writer := None;
     o_mode := Some "json"%string; o_format := ""; o_split := None; o_suffix_length := 2 |}.
Theorem C16_unparenthesised_join_refuted :
  let F := with_join rdump_facts JoinUnparen in
  In ("fields", "a")%string (live_params F o_json_fields)
  /\ existsb (String.eqb (item_of ("fields", "a")%string)) (query_items (mode_uri F o_json_fields)) = false.
Proof. split; [left; reflexivity|reflexivity]. Qed.

(* --split: usage error without -w; otherwise the writer URI gets the split prefix, its target and its other
   parameters are kept, and count / suffix-length are set. *)
Theorem C16_split_uri : forall o,
  final_uri rdump_facts o =
    match split_on_n o with
    | None => Some (mode_uri rdump_facts o)
    | Some n => if truthy (o_writer o)
                then Some (split_uri rdump_facts (mode_uri rdump_facts o) n (o_suffix_length o)) else None
    end.
Proof. exact (final_uri_cases rdump_facts). Qed.
Theorem C16_split_uri_parameters : forall uri n len,
  let p := split_parts rdump_facts uri n len in
  let u := ((if has_sub "://" uri then "split+" else "split://") +++ uri)%string in
  split_uri rdump_facts uri n len = (fst p +++ "?" +++ urlencode (snd p))
  /\ fst p = target_of u
  /\ lookup "count" (snd p) = Some (dec n)
  /\ lookup "suffix-length" (snd p) = Some (dec len)
  /\ (forall k, String.eqb "count" k = false -> String.eqb "suffix-length" k = false ->
        lookup k (snd p) = lookup k (dict_of (parse_qsl (query_items u)))).
Proof. exact (fun uri n len => split_params rdump_facts uri n len eq_refl). Qed.
Theorem C16_split_uri_plain : forall uri n len, no_char "?" uri = true -> no_char "#" uri = true ->
  split_uri rdump_facts uri n len =
  ((if has_sub "://" uri then "split+" else "split://") +++ uri +++ "?"
   +++ urlencode [("count", dec n); ("suffix-length", dec len)])%string.
Proof. exact (fun uri n len hq hh => split_plain rdump_facts uri n len eq_refl hq hh eq_refl eq_refl eq_refl eq_refl). Qed.

(* --multi-timestamp on a concrete record: one written record per datetime field (the record itself when it has
   none); each keeps all fields and values of the record (fields named ts / ts_description are replaced) AND the
   record's metadata -- hence the --record-source / --record-classification overrides, which `selected` has already
   applied.  The generated fact is which reserved fields iter_timestamped_records copies from the original. *)
Theorem C16_generated_expand_metadata : meta_all_copied (f_expand_meta rdump_facts) = true.
Proof. reflexivity. Qed.
Theorem C16_multi_timestamp : forall now r,
  expand_impl (f_expand_meta rdump_facts) now r = expand_spec r
  /\ List.length (expand_spec r) = Nat.max 1 (List.length (filter cf_dt (c_fields r)))
  /\ (forall r' f, In r' (expand_spec r) -> In f (c_fields r) -> is_ts_name (cf_name f) = false -> In f (c_fields r'))
  /\ (forall r', In r' (expand_spec r) -> c_meta r' = c_meta r).
Proof. exact (multi_timestamp_full (f_expand_meta rdump_facts) eq_refl). Qed.
(* Without the copying (the code before repo commit 4a5ea6a) the statement is false: the fresh TimestampRecord's
   reserved fields win and --record-source is lost. *)
Definition r_with_datetime : crec :=
  {| c_name := "t"; c_fields := [{| cf_name := "d"; cf_dt := true; cf_val := VId 1 |}];
     c_meta := {| m_source := Some "SRC2"%string; m_class := None; m_generated := 7 |} |}.
Theorem C16_multi_timestamp_uncopied_metadata_refuted :
  let F := with_expand_meta rdump_facts [] in
  let r' := expand_one (fresh_meta 0) r_with_datetime {| cf_name := "d"; cf_dt := true; cf_val := VId 1 |} in
  expand_impl (f_expand_meta F) 0 r_with_datetime = [r']
  /\ m_source (c_meta r_with_datetime) = Some "SRC2"%string /\ m_source (c_meta r') = None.
Proof. repeat split. Qed.

(* non-vacuity: options with a live query parameter and sources with a failure exist *)
Example C16_hyp_satisfiable :
  truthy (o_writer o_json_fields) = false /\ In ("fields", "a")%string (live_params rdump_facts o_json_fields)
  /\ existsb (String.eqb (item_of ("fields", "a")%string)) (query_items (mode_uri rdump_facts o_json_fields)) = true.
Proof. repeat split. left; reflexivity. Qed.
