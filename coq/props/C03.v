(* C03 -- Every record is decoded with the descriptor it was written with.  Statements only. *)
From Coq Require Import List Bool NArith ZArith String.
From Coq Require Import Init.Byte.
Import ListNotations.
From FR Require Import Bytes Msgpack Packer Stream Observe Gen_packer
                       Packer_proofs Values_proofs Stream_proofs Roundtrip_proofs Registry_proofs.
Open Scope Z_scope.

(* generated facts the statements rest on *)
Theorem C03_generated_guard_compares_descriptor : GUARD_COMPARES_DESC the_cfg = true.
Proof. reflexivity. Qed.
Theorem C03_generated_registry_is_per_writer : packer_registry_is_instance_state = true.
Proof. reflexivity. Qed.
Theorem C03_generated_hash_input_order : hash_field_order = ["name"; "type"]%string.
Proof. reflexivity. Qed.

(* 1. Emission before use: what one write(item) hands to the file is [header]? ++ the frames of exactly the
      descriptors that were not yet registered (also those met only inside nested records and group members),
      in the order they are met, and THEN the item's frame; the writer's registry afterwards is the old one plus
      those descriptors. *)
Theorem C03_descriptor_frames_precede : forall HASH st it,
  let v := visit_item the_cfg HASH (w_reg st) it in
  snd (write_bodies the_cfg HASH st it) =
    (if w_header st then [] else [header_body the_cfg]) ++
    map (fun d => body_of the_cfg (pack_desc the_cfg d)) (fst v) ++ [body_of the_cfg (pack_item the_cfg HASH it)]
  /\ w_reg (fst (write_bodies the_cfg HASH st it)) = fold_left (reg_add HASH) (fst v) (w_reg st).
Proof. intros. exact (write_bodies_shape the_cfg HASH st it). Qed.

(* a descriptor that has just been visited is registered under its identifier, whatever was there before *)
Theorem C03_registered_after_visit : forall HASH acc d,
  known the_cfg HASH (snd (visit_desc the_cfg HASH acc d)) d = true.
Proof. intros. exact (known_after_visit the_cfg HASH acc d C03_generated_guard_compares_descriptor). Qed.

(* 2. Decoded with its own descriptor: the records read back ARE the records written, descriptor included
      (name and ordered field list are part of [Rec d vals]). *)
Theorem C03_decoded_with_own_descriptor : forall (HASH : desc -> Z) depth items,
  stream_okb the_cfg HASH depth [] items = true ->
  read_stream the_cfg HASH depth (write_stream the_cfg HASH items) = Read (map RItem items) CleanEOF.
Proof. intros. apply stream_roundtrip; [reflexivity|assumption]. Qed.

(* 3. Independence: with two writers open at once, each writer's output is what it would have written alone *)
Theorem C03_writers_independent : forall HASH s1 s2 (h : list (bool * item)),
  fst (run_two the_cfg HASH s1 s2 h) = write_all_bodies the_cfg HASH s1 (map snd (filter (fun x => fst x) h)) /\
  snd (run_two the_cfg HASH s1 s2 h) = write_all_bodies the_cfg HASH s2 (map snd (filter (fun x => negb (fst x)) h)).
Proof. intros. exact (run_two_projections the_cfg HASH s1 s2 h). Qed.

(* ---- identifiers are not injective: the hash INPUT already coincides for two different descriptors ---- *)
Definition dC1 := Desc (B "t/c") [(B "stringlist", B "a"); (B "string", B "b")].
Definition dC2 := Desc (B "t/c") [(B "string", B "a"); (B "string", B "listb")].
Theorem C03_hash_input_not_injective : hash_input true dC1 = hash_input true dC2 /\ desc_eqb dC1 dC2 = false.
Proof. split; reflexivity. Qed.

Definition coll_hash (d : desc) : Z := 754736135.     (* any function of the hash input gives both the same value *)
Definition g0 := FDt (DtTuple 2020 1 1 0 0 0 0).
Definition rC1 := Rec dC1 [FNone; FStr (B "y"); FNone; FNone; g0; FInt 1].
Definition rC2 := Rec dC2 [FStr (B "p"); FStr (B "q"); FNone; FNone; g0; FInt 1].
(* with the guard that compares descriptors (current tree) the alternation is read back correctly *)
Theorem C03_colliding_identifiers_roundtrip :
  read_stream the_cfg coll_hash 12 (write_stream the_cfg coll_hash [IRec rC1; IRec rC2; IRec rC1])
  = Read [RItem (IRec rC1); RItem (IRec rC2); RItem (IRec rC1)] CleanEOF.
Proof. vm_compute. reflexivity. Qed.
(* with the identifier-only guard (pre-fix) the second descriptor is never written and its record is decoded
   with the first descriptor *)
Definition cfg_ident_guard : cfg :=
  {| EXT := EXT the_cfg; SUB_RECORD := SUB_RECORD the_cfg; SUB_DESC := SUB_DESC the_cfg; SUB_DATETIME := SUB_DATETIME the_cfg;
     SUB_VARINT := SUB_VARINT the_cfg; SUB_GROUPED := SUB_GROUPED the_cfg; VERSION := VERSION the_cfg; MAGIC := MAGIC the_cfg;
     GUARD_COMPARES_DESC := false; IP6_SMALL_PACKED := IP6_SMALL_PACKED the_cfg |}.
Theorem C03_refuted_identifier_only_guard :
  read_stream cfg_ident_guard coll_hash 12 (write_stream cfg_ident_guard coll_hash [IRec rC1; IRec rC2])
  <> Read [RItem (IRec rC1); RItem (IRec rC2)] CleanEOF.
Proof. vm_compute. discriminate. Qed.
