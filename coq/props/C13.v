(* C13 -- Timestamps are timezone-aware and keep their instant everywhere.
   Statements only; every proof is `exact <lemma>` (or a computation on GENERATED facts of gen/Gen_time.v).
   `valid` = datetime's own ranges: years 1..9999, proleptic Gregorian dates, 0 <= time < 24 h to the microsecond,
   offset strictly within +-24 h with seconds and microseconds.  A value is (wall clock, utcoffset()); zoneinfo
   is an oracle for the offset (folds and gaps are just two different offsets for one wall clock). *)
From Coq Require Import List ZArith Bool String.
Import ListNotations.
From FR Require Import IsoTime Gen_time IsoTime_proofs.
Open Scope Z_scope.

(* ---- the generated facts have the shape the proofs need (computed on what the code says now) *)
Theorem C13_generated_pack_rule_safe : rule_safe gen_pack_rule = true.
Proof. reflexivity. Qed.
Theorem C13_generated_new :
  gen_new_keeps_fold = true /\ gen_new_naive_rule = "replace(tzinfo=UTC)"%string
  /\ gen_new_epoch_rule = "cls.fromtimestamp(arg, UTC)"%string /\ gen_new_text_rule = "cls.fromisoformat(arg)"%string.
Proof. repeat split. Qed.
Theorem C13_generated_text_formats :
  gen_json_datetime_form = FormIsoText /\ gen_sqlite_datetime_form = FormIsoText
  /\ gen_sqlite_column_reads_as = "datetime"%string.
Proof. repeat split. Qed.
(* the column of a datetime field reads back as a datetime whether the table was created with it or the column was
   added to an existing table later *)
Theorem C13_generated_sqlite_columns :
  gen_sqlite_create_reads_as = "datetime"%string /\ gen_sqlite_alter_reads_as = "datetime"%string.
Proof. split; reflexivity. Qed.
Theorem C13_generated_avro :
  gen_avro_base_type = "long"%string /\ gen_avro_logical_type = "timestamp-micros"%string
  /\ gen_avro_epoch_micros = 0 /\ gen_avro_epoch_offset = 0 /\ gen_avro_guard_unit = "microseconds"%string.
Proof. repeat split. Qed.
(* the field type inherits its comparisons from the standard datetime (instant comparison); it overrides only these *)
Theorem C13_generated_class_defines :
  forall m, In m ["__eq__"; "__ne__"; "__lt__"; "__le__"; "__gt__"; "__ge__"]%string -> ~ In m gen_datetime_class_defines.
Proof. intros m Hm Hin. cbv in Hm, Hin. intuition (subst; discriminate). Qed.

(* ---- text form *)
(* fixed-width decimal fields: k digits printed and parsed give the number back, for every k and n < 10^k *)
Theorem C13_parse_print_digits : forall (k : nat) n, 0 <= n < 10 ^ Z.of_nat k ->
  parse_digits k 0 (print_digits k n) = Some (n, []).
Proof. exact parse_print_digits. Qed.

(* MAIN: isoformat() text read back by an exact fromisoformat() is the same value -- every valid value, any offset *)
Theorem C13_iso_roundtrip : forall d, valid d -> iso_parse false (iso_print d) = Some d.
Proof. exact iso_roundtrip. Qed.
(* The reader that exists (GENERATED probe gen_fromiso_drops_subsecond_offset: CPython's C fromisoformat takes an
   offset with zero whole seconds to be UTC) reads back every value whose offset is 0 or at least one second ... *)
Theorem C13_iso_roundtrip_partial : forall d, valid d -> off_exact gen_fromiso_drops_subsecond_offset (off d) = true ->
  iso_parse gen_fromiso_drops_subsecond_offset (iso_print d) = Some d.
Proof. exact (iso_roundtrip_q gen_fromiso_drops_subsecond_offset). Qed.
(* ... and the full statement is FALSE of a reader with that quirk: offset -0.000001 s comes back as UTC *)
Theorem C13_iso_roundtrip_refuted :
  let d := mkdt 2000 1 1 0 0 0 0 (Some (-1)) in
  valid d /\ iso_parse true (iso_print d) = Some (mkdt 2000 1 1 0 0 0 0 (Some 0)) /\ iso_parse false (iso_print d) = Some d.
Proof. exact iso_roundtrip_quirk_refuted. Qed.
Theorem C13_iso_roundtrip_space : forall d, valid d -> off_exact gen_fromiso_drops_subsecond_offset (off d) = true ->
  iso_parse gen_fromiso_drops_subsecond_offset (iso_print_space d) = Some d.
Proof. exact (iso_roundtrip_space_q gen_fromiso_drops_subsecond_offset). Qed.
Theorem C13_iso_parse_valid : forall q s d, iso_parse q s = Some d -> valid d.
Proof. exact iso_parse_valid. Qed.

(* ---- always aware; naive means UTC; the input's offset is kept *)
Theorem C13_always_aware : forall q i d, dt_new q gen_new_keeps_fold i = Some d -> aware d.
Proof. exact (fun q => dt_new_aware q gen_new_keeps_fold). Qed.
Theorem C13_naive_means_utc : forall q x o0, valid x -> off x = None ->
  dt_new q gen_new_keeps_fold (InObj x o0) = Some (coerce x) /\ off (coerce x) = Some 0 /\ wall (coerce x) = wall x.
Proof. intros q x o0 Hv Hn. split; [exact (dt_new_obj q x o0 Hv)|exact (coerce_naive x Hn)]. Qed.
(* an aware object -- including a fold=1 value, whose offset differs from the fold=0 answer o0 -- is kept as is *)
Theorem C13_object_input_keeps_offset : forall q x o0, valid x -> aware x ->
  dt_new q gen_new_keeps_fold (InObj x o0) = Some x.
Proof. intros q x o0 Hv Ha. rewrite <- (coerce_aware x Ha) at 2. exact (dt_new_obj q x o0 Hv). Qed.
(* ... and that depends on the generated fact: a constructor that does not pass `fold` moves this value by an hour *)
Theorem C13_refuted_if_fold_dropped : forall q,
  let x := mkdt 2021 10 31 2 30 0 0 (Some 3600000000) in
  valid x /\ aware x /\ dt_new q false (InObj x (Some 7200000000)) <> Some x
  /\ dt_new q true (InObj x (Some 7200000000)) = Some x.
Proof. exact fold_dropped_changes_offset. Qed.
Theorem C13_text_input : forall d, valid d -> dt_new false gen_new_keeps_fold (InText (iso_print d)) = Some (coerce d).
Proof. intros d Hv. exact (dt_new_text false gen_new_keeps_fold d Hv (off_exact_false (off d))). Qed.
Theorem C13_text_input_partial : forall d, valid d -> off_exact gen_fromiso_drops_subsecond_offset (off d) = true ->
  dt_new gen_fromiso_drops_subsecond_offset gen_new_keeps_fold (InText (iso_print d)) = Some (coerce d).
Proof. exact (dt_new_text gen_fromiso_drops_subsecond_offset gen_new_keeps_fold). Qed.
Theorem C13_epoch_input : forall q n, MIN_MICROS <= n <= MAX_MICROS ->
  dt_new q gen_new_keeps_fold (InEpochMicros n) = Some (from_micros_utc n)
  /\ to_micros (from_micros_utc n) = n /\ off (from_micros_utc n) = Some 0.
Proof.
  intros q n H. split; [exact (dt_new_epoch q gen_new_keeps_fold n H)|].
  split; [exact (to_micros_from_micros n)|exact (proj2 (proj2 (from_micros_fields n)))].
Qed.
Theorem C13_coercion_keeps_instant : forall d, to_micros (coerce d) = to_micros d /\ wall (coerce d) = wall d.
Proof. intros d. split; [exact (coerce_micros d)|exact (coerce_wall d)]. Qed.

(* ---- binary stream, JSON, SQLite: the same wall clock and the same offset come back *)
Theorem C13_tuple_roundtrip : forall d, valid d -> off d = Some 0 -> unpack_tuple (pack_tuple d) = Some d.
Proof. exact tuple_roundtrip. Qed.
Theorem C13_tuple_roundtrip_naive : forall d, valid d -> off d = None -> unpack_tuple (pack_tuple d) = Some (coerce d).
Proof. exact tuple_roundtrip_naive. Qed.
(* full strength, for an exact text reader *)
Theorem C13_stream_json_sqlite_keep_offset : forall k d, valid d -> aware d -> kind_ok k d ->
  stream_decode false (stream_encode gen_pack_rule k d) = Some d
  /\ obind (text_encode gen_json_datetime_form d) (text_wire_decode false) = Some d
  /\ obind (text_encode gen_sqlite_datetime_form d) (text_wire_decode false) = Some d.
Proof.
  intros k d Hv Ha Hk. pose proof (off_exact_false (off d)) as Hx.
  split; [exact (stream_roundtrip false gen_pack_rule k d eq_refl Hv Ha Hk Hx)|].
  split; [exact (text_format_roundtrip false _ d eq_refl Hv Ha Hx)|exact (text_format_roundtrip false _ d eq_refl Hv Ha Hx)].
Qed.
(* for the reader that exists: every value whose offset is 0 or at least one second (all zoneinfo offsets, all
   offsets with whole seconds) *)
Theorem C13_stream_json_sqlite_keep_offset_partial : forall k d, valid d -> aware d -> kind_ok k d ->
  off_exact gen_fromiso_drops_subsecond_offset (off d) = true ->
  stream_decode gen_fromiso_drops_subsecond_offset (stream_encode gen_pack_rule k d) = Some d
  /\ obind (text_encode gen_json_datetime_form d) (text_wire_decode gen_fromiso_drops_subsecond_offset) = Some d
  /\ obind (text_encode gen_sqlite_datetime_form d) (text_wire_decode gen_fromiso_drops_subsecond_offset) = Some d.
Proof.
  intros k d Hv Ha Hk Hx. split; [exact (stream_roundtrip _ gen_pack_rule k d eq_refl Hv Ha Hk Hx)|].
  split; [exact (text_format_roundtrip _ _ d eq_refl Hv Ha Hx)|exact (text_format_roundtrip _ _ d eq_refl Hv Ha Hx)].
Qed.
(* with the quirk the full statement is false: offset -0.000001 s comes back as UTC from all three, instant moved *)
Theorem C13_stream_json_sqlite_refuted :
  let d := mkdt 2000 1 1 0 0 0 0 (Some (-1)) in
  let d' := mkdt 2000 1 1 0 0 0 0 (Some 0) in
  valid d /\ aware d /\ kind_ok KOther d
  /\ stream_decode true (stream_encode gen_pack_rule KOther d) = Some d'
  /\ obind (text_encode FormIsoText d) (text_wire_decode true) = Some d'
  /\ to_micros d' <> to_micros d.
Proof. exact (formats_quirk_refuted gen_pack_rule eq_refl). Qed.

(* SQLite with descriptor evolution: the same for a column created with the table and for a column added later *)
Theorem C13_sqlite_created_and_added_column_partial : forall d, valid d -> aware d ->
  off_exact gen_fromiso_drops_subsecond_offset (off d) = true ->
  obind (text_encode gen_sqlite_datetime_form d) (sqlite_decode gen_sqlite_create_reads_as gen_fromiso_drops_subsecond_offset) = Some d
  /\ obind (text_encode gen_sqlite_datetime_form d) (sqlite_decode gen_sqlite_alter_reads_as gen_fromiso_drops_subsecond_offset) = Some d.
Proof.
  intros d Hv Ha Hx. split; exact (sqlite_roundtrip _ _ _ d eq_refl eq_refl Hv Ha Hx).
Qed.
Theorem C13_sqlite_text_column_refuted : forall q d, obind (text_encode FormIsoText d) (sqlite_decode "string" q) = None.
Proof. exact sqlite_text_column_refuted. Qed.

(* ---- every way a timestamp enters a record (constructor keyword/positional, attribute assignment, _replace,
   assignment through a grouped record and a nested group, grouped _replace, init_from_dict, init_from_record,
   extend_record, datetime[] elements by constructor and by assignment) runs the field type's constructor: the
   stored value is the constructor's value, hence aware *)
Theorem C13_every_route_coerces : forall r q i,
  enter_via (gen_route_functions r) q gen_new_keeps_fold i
    = match dt_new q gen_new_keeps_fold i with Some d => StoredValue d | None => Rejected end
  /\ (forall d, enter_via (gen_route_functions r) q gen_new_keeps_fold i = StoredValue d -> aware d).
Proof. intros r q i. apply every_route_coerces. vm_compute. reflexivity. Qed.
Theorem C13_route_without_constructor_refuted : forall q keep x o0,
  enter_via [] q keep (InObj x o0) = StoredRaw (InObj x o0).
Proof. exact route_without_constructor_refuted. Qed.

(* ---- field-wise construction (positional / keyword, explicit tzinfo=None included, and the classmethods that end
   in it): the value is aware, the wall clock is the argument's, naive means UTC, a given offset is kept *)
Theorem C13_fieldwise_construction_aware : forall x d, dt_of_fields x = Some d ->
  aware d /\ wall d = wall x /\ (off x = None -> off d = Some 0) /\ (forall z, off x = Some z -> off d = Some z).
Proof. exact dt_of_fields_aware. Qed.
(* replace(tzinfo=None) on a value of the field type gives the aware UTC value with the same wall clock, like every
   other construction form (GENERATED probe: the result is not a naive value of the field type) *)
Theorem C13_replace_tzinfo_none : forall d, valid d ->
  replace_tzinfo_none gen_replace_none_bypasses_constructor d = Some (coerce (strip_off d))
  /\ off (coerce (strip_off d)) = Some 0 /\ wall (coerce (strip_off d)) = wall d.
Proof. exact replace_none_constructed. Qed.
(* pre-fix witness (repo commit e65ada5): while the interpreter built the result without the field type's constructor
   (CPython <= 3.12 does so in C, and the field type did not override replace), the result was naive *)
Theorem C13_replace_tzinfo_none_refuted : forall d, exists r, replace_tzinfo_none true d = Some r /\ off r = None.
Proof. exact replace_none_bypass_refuted. Qed.

(* ---- instants: days-from-civil and civil-from-days are inverse for ALL proleptic Gregorian dates (any year) *)
Theorem C13_civil_days_inverse :
  (forall y m d, valid_date y m d = true -> civil_from_days (days_from_civil y m d) = (y, m, d))
  /\ (forall z, match civil_from_days z with (y, m, d) => valid_date y m d = true /\ days_from_civil y m d = z end).
Proof. split; [exact civil_from_days_from_civil|exact days_from_civil_from_days]. Qed.
Theorem C13_micros_roundtrip : forall d, valid d -> off d = Some 0 -> from_micros_utc (to_micros d) = d.
Proof. exact from_micros_to_micros. Qed.
Theorem C13_micros_roundtrip_inverse : forall n, to_micros (from_micros_utc n) = n.
Proof. exact to_micros_from_micros. Qed.

(* ---- Avro: the instant is kept to the microsecond, the value comes back normalised to UTC; instants whose UTC
   form leaves years 1..9999 are refused (the reader cannot build the value), not altered *)
Theorem C13_avro_keeps_instant : forall d, in_utc_range d = true ->
  avro_decode (String.eqb gen_avro_logical_type "timestamp-micros") gen_avro_guard (avro_encode d) = Some (to_utc d)
  /\ to_micros (to_utc d) = to_micros d /\ off (to_utc d) = Some 0 /\ valid (to_utc d).
Proof. intros d H. exact (avro_roundtrip _ gen_avro_guard d H (or_introl eq_refl)). Qed.
Theorem C13_avro_guard_branch : forall d, in_utc_range d = true -> gen_avro_guard < to_micros d ->
  avro_decode false gen_avro_guard (avro_encode d) = Some (to_utc d) /\ to_micros (to_utc d) = to_micros d.
Proof. intros d H Hg. destruct (avro_roundtrip false gen_avro_guard d H (or_intror Hg)) as (A & B & _). exact (conj A B). Qed.
Theorem C13_avro_utc_unchanged : forall d, valid d -> off d = Some 0 -> in_utc_range d = true /\ to_utc d = d.
Proof. exact avro_roundtrip_utc. Qed.
Theorem C13_avro_out_of_range_refused : forall d, in_utc_range d = false ->
  avro_decode (String.eqb gen_avro_logical_type "timestamp-micros") gen_avro_guard (avro_encode d) = None.
Proof. exact (avro_out_of_range_refused gen_avro_guard). Qed.

(* ---- the display setting: no storage / comparison / construction operation runs a function that mentions it *)
Definition storage_ops : list dt_op :=
  [OpPack; OpEq; OpHash; OpNew; OpWriteStream; OpWriteJson; OpWriteSqlite; OpWriteAvro;
   OpReadStream; OpReadJson; OpReadSqlite; OpReadAvro].
Theorem C13_display_setting_irrelevant : forall o, In o storage_ops ->
  reads_display gen_display_readers (gen_op_functions o) = false
  /\ forall (R : Type) (base : R) (shown : option Z -> R) s1 s2,
       observe gen_display_readers (gen_op_functions o) base shown s1
       = observe gen_display_readers (gen_op_functions o) base shown s2.
Proof. apply display_irrelevant. vm_compute. reflexivity. Qed.

(* non-vacuity: printing DOES read the setting (the analysis sees it); hypotheses are satisfiable *)
Example C13_display_read_by_printing :
  reads_display gen_display_readers (gen_op_functions OpStr) = true
  /\ reads_display gen_display_readers (gen_op_functions OpRepr) = true.
Proof. split; vm_compute; reflexivity. Qed.
Example C13_hyp_satisfiable :
  valid (mkdt 1 1 1 0 0 0 0 (Some 50400000000)) /\ valid (mkdt 9999 12 31 23 59 59 999999 (Some (-86399999999)))
  /\ in_utc_range (mkdt 1969 12 31 23 59 59 999999 (Some (-1000000))) = true
  /\ in_utc_range (mkdt 1 1 1 0 0 0 0 (Some 50400000000)) = false
  /\ kind_ok KOther (mkdt 2021 10 31 2 30 0 0 (Some 3600000000)) /\ kind_ok KEqUTC (mkdt 1970 1 1 0 0 0 0 (Some 0))
  /\ off_exact true (Some 1172000000) = true /\ off_exact true (Some (-1000000)) = true /\ off_exact true (Some 999999) = false.
Proof. repeat split; discriminate. Qed.
