(* C06 -- Descriptor names are validated; untrusted definitions cannot inject code.
   Statements only; every proof is `exact <lemma>` or a computation on the GENERATED facts (gen/Gen_names.v:
   both validation regexes as ASTs, is_valid_field_name as a decision tree, the order of the steps of
   _generate_record_class, RESERVED_FIELDS, WHITELIST, the class template). *)
From Coq Require Import List Bool NArith String.
Import ListNotations.
From FR Require Import Regex Regex_proofs Names Gen_names Names_proofs.
Open Scope N_scope.
Open Scope list_scope.

(* the generated facts have the shape the proofs need: regex ASTs of the two identifier shapes with classes that
   denote [A-Za-z], [A-Za-z0-9_], "_" and "/" (compared on every code point), end anchor "$" or "\Z";
   is_valid_field_name agrees with its reference on all 16 valuations of its four tests; field-name check,
   RecordField construction and type-name check all precede exec; reserved names start with "_" *)
Theorem C06_generated_facts_ok : facts_ok facts = true.
Proof. vm_compute. reflexivity. Qed.

(* every exec/eval/compile/__import__ of base.py is the one in _generate_record_class, which only
   RecordDescriptor.__init__ calls; RecordField validates the name before fieldtype(); fieldtype() tests the whitelist
   before importlib/getattr/type(); the stream-frame, JSON-line and Avro-schema routes hand the definition to
   RecordDescriptor(...) and to nothing else *)
Theorem C06_routes_guarded : guarded facts = true.
Proof. vm_compute. reflexivity. Qed.

(* the matcher used to give the regexes their meaning decides the standard denotation of regular expressions *)
Theorem C06_regex_matcher_correct : forall s r, re_fullmatch r s = true <-> matches r s.
Proof. exact re_fullmatch_spec. Qed.

(* the generated type-name regex (without its end anchor) denotes exactly "slash-separated ASCII identifiers" *)
Theorem C06_type_regex_exact : forall s,
  re_fullmatch (re_body (nf_type_re facts)) s = type_name_grammar s.
Proof. exact (type_regex_exact facts C06_generated_facts_ok). Qed.

(* the generated field-name regex, on names that pass the startswith("_") test, denotes exactly "ASCII identifier" *)
Theorem C06_field_regex_exact : forall s, starts_underscore s = false ->
  re_fullmatch (re_body (nf_field_re facts)) s = ident_no_underscore s.
Proof. exact (field_regex_exact facts C06_generated_facts_ok). Qed.

(* FOR ALL strings: whatever the validators let through to exec IS in the grammar (both generated regexes end in \Z):
   the type name is a slash-separated sequence of ASCII identifiers, every field name an ASCII identifier that does
   not start with an underscore (and is not reserved), every field type a whitelist entry or its list form *)
Theorem C06_generated_regexes_end_in_Z : ends_Z facts = true.
Proof. vm_compute. reflexivity. Qed.

Theorem C06_validators_exact : forall name d,
  validators_pass facts name d = true ->
  type_name_grammar name = true
  /\ Forall (fun f => ident_no_underscore f = true /\ mem f (reserved_names facts) = false) (map snd d)
  /\ Forall (fun t => whitelisted_opt_list (nf_whitelist facts) t = true) (map fst d).
Proof. exact (validators_exact_strict facts C06_generated_facts_ok C06_generated_regexes_end_in_Z). Qed.

(* and nothing in the grammar is refused by the validators *)
Theorem C06_validators_complete : forall name d,
  type_name_grammar name = true ->
  Forall (fun f => ident_no_underscore f = true) (map snd d) ->
  Forall (fun t => whitelisted_opt_list (nf_whitelist facts) t = true) (map fst d) ->
  validators_pass facts name d = true.
Proof. exact (validators_complete facts C06_generated_facts_ok). Qed.

(* validators = grammar *)
Theorem C06_validators_iff : forall name d,
  validators_pass facts name d = true <->
  (type_name_grammar name = true
   /\ Forall (fun f => ident_no_underscore f = true) (map snd d)
   /\ Forall (fun t => whitelisted_opt_list (nf_whitelist facts) t = true) (map fst d)).
Proof. exact (validators_iff facts C06_generated_facts_ok C06_generated_regexes_end_in_Z). Qed.

(* The same code with patterns that end in "$" (as before commit b422385) does NOT have this property: a name of the
   grammar plus one trailing newline passes the validators ... *)
Theorem C06_prefix_refuted_dollar :
  let F := with_end EndDollar facts in
  validators_pass F (s2n "a" ++ [NL]) [(s2n "string", s2n "x")] = true /\ type_name_grammar (s2n "a" ++ [NL]) = false
  /\ validators_pass F (s2n "a") [(s2n "string", s2n "x" ++ [NL])] = true /\ ident_no_underscore (s2n "x" ++ [NL]) = false.
Proof. vm_compute. repeat split. Qed.

Theorem C06_dollar_facts_ok : facts_ok (with_end EndDollar facts) = true.
Proof. vm_compute. reflexivity. Qed.

(* ... and that is the whole slack of "$": the grammar, or the grammar plus exactly one trailing newline *)
Theorem C06_dollar_slack : forall name d,
  validators_pass (with_end EndDollar facts) name d = true ->
  slack type_name_grammar name
  /\ Forall (fun f => slack ident_no_underscore f /\ mem f (reserved_names facts) = false) (map snd d)
  /\ Forall (fun t => whitelisted_opt_list (nf_whitelist facts) t = true) (map fst d).
Proof. exact (validators_exact (with_end EndDollar facts) C06_dollar_facts_ok). Qed.

(* names that arrive as bytes (constructor arguments, msgpack bin values in a descriptor frame) are decoded before they
   are validated; for a decoder that keeps ASCII and maps anything else to text with a non-ASCII code point
   (utf-8 + surrogateescape: the generated fact nf_to_str_surrogateescape, part of C06_routes_guarded) a byte string is
   accepted only if it is already the ASCII spelling of an acceptable name -- no byte is dropped on the way *)
Theorem C06_bytes_names_validated : forall (dec : list N -> str),
  (forall b, forallb is_ascii b = true -> dec b = b) ->
  (forall b, forallb is_ascii b = false -> forallb is_ascii (dec b) = false) ->
  (forall b, type_name_grammar (dec b) = true -> dec b = b /\ type_name_grammar b = true)
  /\ (forall b, ident_no_underscore (dec b) = true -> dec b = b /\ ident_no_underscore b = true).
Proof.
  exact (fun dec H1 H2 => conj (decoded_name_valid dec H1 H2 type_name_grammar type_name_ascii)
                               (decoded_name_valid dec H1 H2 ident_no_underscore ident_ascii)).
Qed.

(* a field type is resolved (importlib / getattr) only as a whitelist entry; the requested type is that entry or the
   entry followed by "[]" *)
Theorem C06_fieldtype_resolves_in_whitelist : forall p c, fieldtype facts p = Some c ->
  In c (nf_whitelist facts) /\ (p = c \/ p = c ++ s2n "[]") /\ whitelisted_opt_list (nf_whitelist facts) p = true.
Proof. exact (fun p c => fieldtype_in_whitelist facts p c eq_refl). Qed.

Theorem C06_fieldtype_rejects_others : forall p,
  whitelisted_opt_list (nf_whitelist facts) p = false -> fieldtype facts p = None.
Proof. exact (fun p => fieldtype_none facts p eq_refl). Qed.

(* an accepted definition's record has the declared names (first occurrence of each, in order) followed by the
   reserved metadata fields *)
Theorem C06_slots : forall name d, validators_pass facts name d = true ->
  slots facts d = dedup (map snd d) ++ reserved_names facts.
Proof. exact (fun name d => slots_accepted facts name d C06_generated_facts_ok). Qed.

(* ... which is exactly "the declared fields followed by the reserved fields" when no name is declared twice *)
Theorem C06_slots_partial : forall name d, validators_pass facts name d = true -> nodupb (map snd d) = true ->
  slots facts d = map snd d ++ reserved_names facts.
Proof. exact (fun name d => slots_accepted_nodup facts name d C06_generated_facts_ok). Qed.

(* the unrestricted statement is FALSE: a name declared twice is accepted and collapses (the survivor keeps the
   first position and gets the LAST declared type) *)
Theorem C06_refuted_slots_duplicates :
  let d := [(s2n "string", s2n "a"); (s2n "varint", s2n "a")] in
  validators_pass facts (s2n "t/dup") d = true
  /\ slots facts d <> map snd d ++ reserved_names facts
  /\ all_fields facts d = (s2n "a", s2n "varint") :: nf_reserved facts.
Proof. vm_compute. split; [reflexivity|split; [discriminate|reflexivity]]. Qed.

(* every piece of the rendered class source that comes from the definition is a non-empty run of [A-Za-z0-9_] *)
Theorem C06_no_injection : forall name d,
  type_name_grammar name = true -> Forall (fun f => ident_no_underscore f = true) (map snd d) ->
  forallb frag_clean (render facts name d) = true.
Proof. exact (no_injection facts). Qed.

(* ... and is the type name with "/" replaced by "_" or one of the declared field names *)
Theorem C06_interpolated_text_origin : forall name d,
  Forall (okfrag (fun s => s = sanitize name \/ In s (map snd d))) (render facts name d).
Proof. exact (fun name d => render_ok facts _ d (fun f H => or_intror H) name (or_introl eq_refl)). Qed.

(* a declared name can coincide with a global that the template's method bodies read: while the generated tail of
   __init__ says `... = RECORD_VERSION`, the field RECORD_VERSION is accepted and becomes a parameter of __init__, so
   that assignment reads the parameter *)
Theorem C06_refuted_template_global_capture :
  let d := [(s2n "varint", s2n "RECORD_VERSION")] in
  implb (substrb (s2n "= RECORD_VERSION") (nf_init_tail facts))
        (validators_pass facts (s2n "t/x") d
         && existsb (frag_eqb (Dyn (s2n "RECORD_VERSION"))) (render_hole facts HArgs (s2n "t/x") d)) = true.
Proof. vm_compute. reflexivity. Qed.

(* non-vacuity *)
Example C06_hyp_satisfiable :
  validators_pass facts (s2n "test/record") [(s2n "string", s2n "a"); (s2n "net.ipaddress[]", s2n "from")] = true
  /\ type_name_grammar (s2n "test/record") = true /\ ident_no_underscore (s2n "from") = true
  /\ nodupb [s2n "a"; s2n "from"] = true.
Proof. vm_compute. repeat split. Qed.
