(* C11 -- Compression and container format are detected transparently.
   Statements only; every proof is `exact <lemma of proofs/Detect_proofs.v>` or `reflexivity` on the GENERATED facts
   of gen/Gen_detect.v (the if-chains of open_stream / open_path / find_adapter_for_stream, the magic constants,
   RecordAdapter's extension table, the header frame a stream writer emits).  [std_magic] / [std_ext] are the
   formats' own signatures and conventional extensions, written down independently in model/Detect.v.
   Byte strings, paths and payloads are universally quantified: nothing here is sampled. *)
From Coq Require Import List Bool String.
From Coq Require Import Strings.Byte.
Import ListNotations.
From FR Require Import Detect Gen_detect Detect_proofs.
Open Scope list_scope.

(* the code as it is now has the shape the proofs need (computed on what the translator extracted) *)
Theorem C11_generated_facts_ok : facts_ok the_facts = true.
Proof. reflexivity. Qed.

Theorem C11_generated_constants :
  GZIP_MAGIC = std_magic Gzip /\ BZ2_MAGIC = std_magic Bz2 /\ LZ4_MAGIC = std_magic Lz4 /\ ZSTD_MAGIC = std_magic Zstd
  /\ AVRO_MAGIC = B "Obj"
  /\ stream_header_frame = [x00; x00; x00; x0f; xc4; x0d] ++ RECORDSTREAM_MAGIC
  /\ RECORDSTREAM_MAGIC = B "RECORDSTREAM" ++ [x0a]
  /\ RECORDSTREAM_MAGIC_DEPTH = List.length stream_header_frame
  /\ peek_depth the_facts = RECORDSTREAM_MAGIC_DEPTH.
Proof. repeat split; reflexivity. Qed.

(* no magic is a prefix of another, of the header frame, or of "Obj" (nor the other way round) *)
Theorem C11_magics_unambiguous :
  pairwise_incomparable [GZIP_MAGIC; BZ2_MAGIC; LZ4_MAGIC; ZSTD_MAGIC; AVRO_MAGIC; stream_header_frame] = true.
Proof. reflexivity. Qed.

(* open_stream: EVERY byte string that begins with the signature of codec c goes to c's decompressor (when c's
   optional module is missing it is treated as plain data) *)
Theorem C11_sniff_correct : forall (e : env) c payload, c <> Plain ->
  sniff_codec the_facts e (std_magic c ++ payload) = if avail e c then c else Plain.
Proof. exact (sniff_correct the_facts eq_refl). Qed.

(* ... and only such strings do *)
Theorem C11_sniff_sound : forall (e : env) pk c, sniff_codec the_facts e pk = c -> c <> Plain ->
  starts_with (std_magic c) pk = true /\ avail e c = true.
Proof. exact (sniff_sound the_facts eq_refl). Qed.

Theorem C11_sniff_plain : forall (e : env) pk,
  (forall c, c <> Plain -> avail e c = true -> starts_with (std_magic c) pk = false) ->
  sniff_codec the_facts e pk = Plain.
Proof. exact (sniff_plain the_facts eq_refl). Qed.

(* both decisions depend on the leading RECORDSTREAM_MAGIC_DEPTH bytes only *)
Theorem C11_leading_bytes_only : forall (e : env) pk bs,
  firstn (peek_depth the_facts) pk = firstn (peek_depth the_facts) bs ->
  sniff_codec the_facts e pk = sniff_codec the_facts e bs /\ sniff_container the_facts e pk = sniff_container the_facts e bs.
Proof. exact (leading_bytes_only the_facts eq_refl). Qed.

(* find_adapter_for_stream: header frame ++ anything is a record stream, "Obj" ++ anything is Avro, and the
   decision is exactly: "Obj" prefix (with fastavro) / stream magic inside the first 19 bytes / neither -> None;
   a plain container is never taken for compressed data *)
Theorem C11_container :
  (forall e rest, sniff_container the_facts e (stream_header_frame ++ rest) = Some (B "stream")) /\
  (forall e rest, e FAvro = true -> sniff_container the_facts e (B "Obj" ++ rest) = Some (B "avro")) /\
  (forall e pk, sniff_container the_facts e pk =
     if e FAvro && starts_with (B "Obj") pk then Some (B "avro")
     else if is_infix RECORDSTREAM_MAGIC (firstn (List.length stream_header_frame) pk) then Some (B "stream") else None) /\
  (forall e rest, sniff_codec the_facts e (stream_header_frame ++ rest) = Plain /\ sniff_codec the_facts e (B "Obj" ++ rest) = Plain).
Proof. exact (container_facts the_facts eq_refl). Qed.

(* second stage for record streams: the stream reader (RecordStreamReader.readheader) accepts content only when its first
   19 bytes END with the magic -- for content of at least 19 bytes: exactly <any 6 bytes> ++ magic ++ rest.  So a source in
   which find_adapter_for_stream merely FINDS the magic at another offset is refused by the reader (IOError), e.g. a text
   file that starts with the magic line. *)
Theorem C11_stream_header_exact :
  (forall d, stream_header_ok the_facts d = ends_with RECORDSTREAM_MAGIC (firstn 19 d)) /\
  (forall rest, stream_header_ok the_facts (stream_header_frame ++ rest) = true) /\
  (forall d, 19 <= List.length d ->
     (stream_header_ok the_facts d = true <->
      exists pre rest, List.length pre + 13 = 19 /\ d = pre ++ RECORDSTREAM_MAGIC ++ rest)).
Proof.
  exact (conj (header_exact the_facts eq_refl) (conj (header_frame_accepted the_facts eq_refl) (header_framed the_facts eq_refl))).
Qed.

Example C11_near_miss_two_stage : forall rest,
  sniff_container the_facts has_flags (RECORDSTREAM_MAGIC ++ [x00; x00; x00; x00; x00; x00] ++ rest) = Some (B "stream") /\
  stream_header_ok the_facts (RECORDSTREAM_MAGIC ++ [x00; x00; x00; x00; x00; x00] ++ rest) = false.
Proof. intros rest. split; reflexivity. Qed.

(* open_path(path, "wb"): the extension decides the compressor, for every stem *)
Theorem C11_writer_ext : forall (e : env) c stem x, In x (std_ext c) ->
  open_path_write the_facts e (stem ++ x) = if avail e c then OCodec c else ONotAvailable c.
Proof. exact (write_ext the_facts eq_refl). Qed.

Theorem C11_writer_plain : forall (e : env) path, (forall c x, In x (std_ext c) -> ends_with x path = false) ->
  open_path_write the_facts e path = OCodec Plain.
Proof. exact (write_plain the_facts eq_refl). Qed.

(* the extension chain never picks a codec for a name that does not end in one of that codec's extensions *)
Theorem C11_ext_sound : forall (e : env) path c,
  (ext_codec the_facts e path = ExtCodec c \/ ext_codec the_facts e path = ExtUnavailable c) ->
  c <> Plain /\ exists x, In x (std_ext c) /\ ends_with x path = true.
Proof. exact (ext_sound the_facts eq_refl). Qed.

(* Under the environment hypotheses [codec_hyps] (peek delivers the leading bytes; compressor output starts with the
   format's signature; decompress inverts compress): writer by extension, reader by extension and reader by sniffing
   all use the same codec. *)
Theorem C11_ext_sniff_agree : forall (e : env) peek compress decompress, codec_hyps the_facts peek compress decompress ->
  forall c k p stem x path,
  avail e c = true -> c <> Plain -> In x (std_ext c) -> is_container the_facts e k p -> ext_codec the_facts e path = ExtNone ->
  open_path_write the_facts e (stem ++ x) = OCodec c /\
  open_path_read the_facts e (stem ++ x) (peek (compress c p)) = OCodec c /\
  open_path_read the_facts e path (peek (compress c p)) = OCodec c.
Proof. intros e peek compress decompress HE. exact (ext_sniff_agree_pk the_facts eq_refl e peek compress decompress HE). Qed.

(* All ways of naming the source return what the adapter's reader yields on the plain content p:
   path with the codec's extension; path whose name reveals nothing; adapter class handed an open file object;
   RecordReader(fileobj=...) / stdin where codec AND container come from the leading bytes; standard input named
   through an explicit adapter scheme ("stream://-", "avro://": container from the scheme, codec from the bytes).
   PARTIAL: holds under [codec_hyps], whose first clause (the first peek() returns at least the leading 19 bytes)
   is more than the io contract promises -- see C11_access_paths_agree_refuted. *)
Theorem C11_access_paths_agree_partial :
  forall (e : env) peek compress decompress (R : Type) (parse : bytes -> bytes -> R),
  codec_hyps the_facts peek compress decompress ->
  forall c k p, avail e c = true -> is_container the_facts e k p ->
  (forall stem x, In x (std_ext c) ->
     read_path the_facts e peek decompress R parse k (stem ++ x) (compress c p) = Read k (parse k p)) /\
  (forall path, ext_codec the_facts e path = ExtNone ->
     read_path the_facts e peek decompress R parse k path (compress c p) = Read k (parse k p)) /\
  read_fileobj_as the_facts e peek decompress R parse k (compress c p) = Read k (parse k p) /\
  read_fileobj the_facts e peek decompress R parse (compress c p) = Read k (parse k p) /\
  read_stdin_as the_facts e peek decompress R parse k (compress c p) = Read k (parse k p).
Proof. intros e peek compress decompress R parse HE. exact (access_paths_agree the_facts eq_refl e peek compress decompress R parse HE). Qed.

(* The same statement with only what io.BufferedReader.peek guarantees (a non-empty prefix) is FALSE of the faithful
   model: a file object / pipe whose first read delivers 4 bytes of a valid, uncompressed record stream is refused
   (replayed on the implementation by the check as known finding C11-short-first-read). *)
Theorem C11_access_paths_agree_refuted :
  exists peek, weak_peek peek /\
    is_container the_facts has_flags (B "stream") stream_header_frame /\
    read_fileobj the_facts has_flags peek toy_decompress bytes (fun _ d => d) stream_header_frame = AdapterNotFound.
Proof.
  exists (firstn 4). split; [exact (firstn_weak_peek 4 (le_S _ _ (le_S _ _ (le_S _ _ (le_n 1)))))|].
  split; [left; split; [reflexivity|exists []; reflexivity]|reflexivity].
Qed.

(* refusal: a source whose leading bytes carry no codec signature, no "Obj" and no stream magic within the header
   depth gets RecordAdapterNotFound; and nothing is ever handed to an adapter unless its (decompressed) leading
   bytes look like that adapter's container *)
Theorem C11_refuses_other :
  forall (e : env) peek compress decompress (R : Type) (parse : bytes -> bytes -> R),
  codec_hyps the_facts peek compress decompress -> forall bs,
  (forall c, c <> Plain -> avail e c = true -> starts_with (std_magic c) bs = false) ->
  e FAvro && starts_with (B "Obj") bs = false ->
  is_infix RECORDSTREAM_MAGIC (firstn (List.length stream_header_frame) bs) = false ->
  read_fileobj the_facts e peek decompress R parse bs = AdapterNotFound.
Proof. intros e peek compress decompress R parse HE. exact (refuses_bytes_pk the_facts eq_refl e peek compress decompress R parse HE). Qed.

Theorem C11_never_misdispatched :
  forall (e : env) peek compress decompress (R : Type) (parse : bytes -> bytes -> R),
  codec_hyps the_facts peek compress decompress -> forall bs k r,
  read_fileobj the_facts e peek decompress R parse bs = Read k r ->
  exists d, open_stream_rd the_facts e peek decompress bs = Some d /\
    ((k = B "avro" /\ e FAvro = true /\ starts_with (B "Obj") d = true) \/
     (k = B "stream" /\ is_infix RECORDSTREAM_MAGIC (firstn (List.length stream_header_frame) d) = true)).
Proof. intros e peek compress decompress R parse HE. exact (read_fileobj_sound_pk the_facts eq_refl e peek compress decompress R parse HE). Qed.

(* the SPELLING of "standard input / no url" is not an input of the decision: omitted or None, "" and "-" normalise to one
   and the same source (whose codec and container are sniffed: read_source SrcStream = read_fileobj), any other url stays a url *)
Theorem C11_stdin_spelling_irrelevant :
  (forall u, In u [None; Some []; Some (B "-")] -> normalise_source the_facts u = SrcStream) /\
  (forall x, x <> [] -> x <> B "-" -> normalise_source the_facts (Some x) = SrcUrl x) /\
  (forall (e : env) peek decompress (R : Type) (parse : bytes -> bytes -> R) bs,
     read_source the_facts e peek decompress R parse SrcStream bs = read_fileobj the_facts e peek decompress R parse bs).
Proof.
  exact (conj (normalise_no_url the_facts eq_refl) (conj (normalise_url the_facts eq_refl) (fun _ _ _ _ _ _ => eq_refl))).
Qed.

(* for paths the container follows the extension (os.path.splitext) or the URL scheme *)
Theorem C11_path_container_by_extension : forall p, is_infix (B "://") p = false ->
  adapter_for_url the_facts p =
    {| d_adapter := assoc (splitext_ext p) ext_to_adapter (B "stream"); d_sub := []; d_cls_url := cut_query p |}.
Proof. exact (fun p => url_plain_path the_facts p eq_refl). Qed.

Theorem C11_url_scheme_selects_adapter : forall x t rest,
  is_alpha x = true -> forallb scheme_char (x :: t) = true ->
  adapter_for_url the_facts ((x :: t) ++ B "://" ++ rest) =
    let sc := lower (x :: t) in
    let '(ad, sub) := match split_first b_plus sc with Some (a, s) => (a, s) | None => (sc, []) end in
    {| d_adapter := ad; d_sub := sub;
       d_cls_url := match sub with [] => cut_query rest | _ => sub ++ B "://" ++ cut_query rest end |}.
Proof. exact (url_with_scheme the_facts). Qed.

(* what that means for concrete names: `x.avro` is Avro; `x.avro.gz` is a gzip-compressed RECORD STREAM (the last
   extension decides both); Avro with a codec needs the scheme: `avro://x.avro.gz` *)
Example C11_names :
  d_adapter (adapter_for_url the_facts (B "dir/x.avro")) = B "avro" /\
  d_adapter (adapter_for_url the_facts (B "dir/x.avro.gz")) = B "stream" /\
  d_adapter (adapter_for_url the_facts (B "dir/x.records.zst")) = B "stream" /\
  d_adapter (adapter_for_url the_facts (B "avro://dir/x.avro.gz")) = B "avro" /\
  d_cls_url (adapter_for_url the_facts (B "avro://dir/x.avro.gz")) = B "dir/x.avro.gz" /\
  ext_codec the_facts has_flags (B "dir/x.avro.gz") = ExtCodec Gzip /\
  ext_codec the_facts has_flags (B "dir/x.zstd") = ExtCodec Zstd /\ ext_codec the_facts has_flags (B "dir/x.zst") = ExtCodec Zstd /\
  ext_codec the_facts has_flags (B "dir/x.avro") = ExtNone.
Proof. repeat split; reflexivity. Qed.

(* non-vacuity: the environment hypotheses are satisfiable, and containers exist *)
Example C11_hyp_satisfiable :
  codec_hyps the_facts (fun bs => bs) toy_compress toy_decompress /\
  is_container the_facts has_flags (B "stream") (stream_header_frame ++ [x01]) /\
  is_container the_facts has_flags (B "avro") (B "Obj" ++ [x01]).
Proof.
  split; [exact (toy_hyps the_facts)|].
  split; [left; split; [reflexivity|exists [x01]; reflexivity]|right; split; [reflexivity|split; [reflexivity|exists [x01]; reflexivity]]].
Qed.
