(* C04 -- A damaged stream yields an intact prefix, never altered records.  Statements only. *)
From Coq Require Import List Bool NArith ZArith.
From Coq Require Import Init.Byte.
Import ListNotations.
From FR Require Import Bytes Msgpack Msgpack_proofs Packer Stream Observe Gen_packer
                       Packer_proofs Values_proofs Stream_proofs Roundtrip_proofs Cut_proofs Lost_proofs Lost_witness.
Open Scope Z_scope.

(* msgpack is a prefix code: a proper prefix of an encoding is never accepted by unpackb *)
Theorem C04_truncated_encoding_rejected : forall v p s, mv_wf v = true -> enc v = p ++ s -> s <> [] ->
  forall w, unpackb p <> UOk w.
Proof. exact unpackb_truncated. Qed.

(* Frame level, ANY byte offset k, any registry state, any frames whose bodies are msgpack encodings: the reader
   processes exactly the complete frames before the cut -- the same bodies in the same order, hence the same
   registry evolution as on the uncut stream -- and then ends cleanly (cut on a frame boundary or inside a 4-byte
   length prefix) or raises (cut inside a body). *)
Theorem C04_cut_frames : forall HASH depth bodies reg k fuel,
  Forall is_encoding bodies -> (List.length (firstn k (frames bodies)) < fuel)%nat ->
  exists j oc,
    read_loop the_cfg HASH fuel depth reg (firstn k (frames bodies)) =
    run_bodies the_cfg HASH depth reg (firstn j bodies) (fun _ => ([], oc)).
Proof. intros HASH depth. exact (cut_stream the_cfg HASH depth). Qed.

(* ... and what a run over a prefix of the bodies yields is a prefix of what the run over all of them yields *)
Theorem C04_prefix_of_full_run : forall HASH depth bodies reg j oc,
  exists rest,
    fst (run_bodies the_cfg HASH depth reg bodies (fun _ => ([], CleanEOF))) =
    fst (run_bodies the_cfg HASH depth reg (firstn j bodies) (fun _ => ([], oc))) ++ rest.
Proof.
  intros. destruct (run_bodies_prefix the_cfg HASH depth bodies reg j oc) as (rest & [H|[_ H]]); exists rest; exact H.
Qed.

(* Writer level: a stream the writer produced (hypotheses of C01), cut at any position at or after the end of
   the header frame, reads as the first j written items -- unmodified, in order, nothing invented, nothing
   skipped before the cut -- followed by a clean end or an error. *)
Theorem C04_cut_written_stream : forall HASH depth items k,
  stream_okb the_cfg HASH depth [] items = true -> items <> [] ->
  (List.length (frame (header_body the_cfg)) <= k)%nat ->
  exists j oc, read_stream the_cfg HASH depth (firstn k (write_stream the_cfg HASH items)) = Read (map RItem (firstn j items)) oc.
Proof. intros. apply cut_written; [reflexivity|assumption..]. Qed.

(* cut inside the header frame: not recognised as a record stream (IOError), for every one of the 19 offsets *)
Theorem C04_cut_inside_header :
  forallb (fun k => match read_header the_cfg (firstn k (frame (header_body the_cfg))) with None => true | Some _ => false end)
          (seq 0 (List.length (frame (header_body the_cfg)))) = true.
Proof. vm_compute. reflexivity. Qed.

(* a stream that ends exactly at a frame boundary reads without error: C01_stream_roundtrip (outcome CleanEOF) *)
Theorem C04_boundary_is_clean : forall HASH depth items,
  stream_okb the_cfg HASH depth [] items = true ->
  read_stream the_cfg HASH depth (write_stream the_cfg HASH items) = Read (map RItem items) CleanEOF.
Proof. intros. apply stream_roundtrip; [reflexivity|assumption]. Qed.

(* a failing write call leaves a prefix of the bytes: the chunks handed to fp.write are the 4-byte length and
   the body of each frame, so the file content after a failure is [firstn k] of the full stream for some k *)
Theorem C04_failed_write_leaves_prefix : forall (chunks : list bytes) i j,
  exists k, concat (firstn i chunks) ++ firstn j (nth i chunks []) = firstn k (concat chunks).
Proof. exact failed_write_prefix. Qed.

(* ---- a frame LOST as a whole: its write failed completely and the application carried on ---- *)

(* The lost frame held a record (IRec / IGroup), a foreign object or a repeated header: the reader yields exactly what it
   yields on the complete stream without that one object - every other object unaltered and in order, the same end. *)
Theorem C04_lost_record_frame : forall HASH depth pre b post reg k out r,
  run_pre the_cfg HASH depth reg pre = (out, Some r) ->
  let '(o, oc) := run_bodies the_cfg HASH depth r post k in
  match decode_body the_cfg depth r b with
  | OItem it =>
      run_bodies the_cfg HASH depth reg (pre ++ b :: post) k = (out ++ RItem it :: o, oc) /\
      run_bodies the_cfg HASH depth reg (pre ++ post) k = (out ++ o, oc)
  | OForeign =>
      run_bodies the_cfg HASH depth reg (pre ++ b :: post) k = (out ++ RForeign :: o, oc) /\
      run_bodies the_cfg HASH depth reg (pre ++ post) k = (out ++ o, oc)
  | OHeader => run_bodies the_cfg HASH depth reg (pre ++ b :: post) k = run_bodies the_cfg HASH depth reg (pre ++ post) k
  | _ => True
  end.
Proof.
  intros HASH depth pre b post reg k out r Hpre.
  pose proof (dropped_item_frame the_cfg HASH depth pre b post reg k) as H. rewrite Hpre in H. exact H.
Qed.

(* The lost frame held a DESCRIPTOR d that shadows nothing the reader already resolves ([fresh]: no earlier definition has
   d's (name, hash) identifier, and none has its bare name): decoding is monotone in the registry, so the reader yields a
   PREFIX of the objects of the complete stream - nothing altered, nothing invented - and stops at the first record that
   needs d.  PARTIAL: an earlier definition with the same NAME but another hash (an older version of the type) is not
   covered by [fresh]; records with (name, hash) identifiers are unaffected by it in the implementation, which the
   exhaustive dropped-frame enumeration of the check exercises (two versions of one type, both orders). *)
Theorem C04_lost_descriptor_frame_partial : forall HASH depth pre b post reg d r out oc1 oc2,
  run_pre the_cfg HASH depth reg pre = (out, Some r) ->
  decode_body the_cfg depth r b = ODesc d -> fresh HASH r d ->
  exists rest,
    fst (run_bodies the_cfg HASH depth reg (pre ++ b :: post) (fun _ => ([], oc2))) =
    fst (run_bodies the_cfg HASH depth reg (pre ++ post) (fun _ => ([], oc1))) ++ rest.
Proof. intros HASH depth. exact (lost_descriptor_frame the_cfg HASH depth). Qed.

(* ... and without [fresh] the statement is FALSE (known finding C04-lost-descriptor-frame-coincident-identifier): two
   different definitions with one identifier, the frame of the second lost - its record is read with the first. *)
Theorem C04_lost_descriptor_coincident_refuted :
  List.length lost_bodies = 5%nat /\
  fst (run_bodies the_cfg lost_hash 12 [] lost_bodies (fun _ => ([], CleanEOF))) = [RItem (IRec rL1); RItem (IRec rL2)] /\
  fst (run_bodies the_cfg lost_hash 12 [] (firstn 3 lost_bodies ++ skipn 4 lost_bodies) (fun _ => ([], CleanEOF)))
    = [RItem (IRec rL1); RItem (IRec rL2_misread)].
Proof. exact lost_descriptor_coincident_witness. Qed.

(* non-vacuity of the partial theorem: a first definition of a name is fresh in the empty registry *)
Example C04_fresh_satisfiable : fresh lost_hash [] dL1.
Proof. split; reflexivity. Qed.
