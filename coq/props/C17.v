(* C17 -- Writers lose nothing: close, split and rotation keep every record once.
   Statements only; every proof is `exact <lemma of proofs/Writers_proofs.v>` or a computation on the model
   instantiated with the GENERATED shape facts of gen/Gen_writers.v (writer_shapes: what AbstractWriter.__exit__ /
   __del__, AvroWriter.close, StreamWriter.close and SplitWriter.write do, read from the code on every run). *)
From Coq Require Import List Bool String NArith Arith Permutation.
Import ListNotations.
From FR Require Import Writers Gen_writers Writers_proofs.
Open Scope list_scope.

(* the record used in the witnesses *)
Definition c17_rec (i : N) : rec := mkRec 1%N i.

(* the generated facts have the shape the proofs need: __exit__ = flush; close -- when the with-block is left normally AND
   when it is left by an exception --, __del__ = close, AvroWriter.flush
   does not install the placeholder-schema writer, AvroWriter.close installs it when nothing was written and flushes,
   rotate_existing_file searches a free name, SplitWriter takes only (netloc "" or "-", empty path) for stdout, SplitWriter.write rolls over on `written >= count` by flush; close;
   written = 0; new writer.  Undoing any of the repairs in /repo flips a fact and this no longer computes. *)
Theorem C17_generated_shapes : shapes_ok writer_shapes = true /\ split_shapes_ok writer_shapes = true.
Proof. split; reflexivity. Qed.
(* the default split limit meets the hypothesis of C17_split *)
Theorem C17_generated_defaults : (0 < default_record_count)%N.
Proof. reflexivity. Qed.

(* ---------------------------------------------------------------------------------------------------- *)
(* 1. closed means durable.  For EVERY adapter, SQLite batch size and history of write / flush / close / with-exit /
   del that contains a closing operation (anything may follow it): the writer is closed and the file reads back exactly
   the records whose write() returned normally, in order (SQLite: table by table -- `expected`).
   Full statement for JSON/CSV/line/text, Avro and SQLite: *)
Theorem C17_closed_means_durable : forall batch k h,
  k <> AStream -> has_close h = true ->
  w_open (fst (run writer_shapes batch k (w_init k) h)) = false /\
  readable (w_file (fst (run writer_shapes batch k (w_init k) h)))
    = Some (expected k (snd (run writer_shapes batch k (w_init k) h))).
Proof. intros batch k h. exact (closed_means_durable_nonstream writer_shapes batch k h eq_refl). Qed.

(* all adapters, the stream adapter outside the one remaining known-finding class (excluded AStream h = the first
   operation is a bare close()/del; excluded k h = false for every other adapter) *)
Theorem C17_closed_means_durable_partial : forall batch k h,
  has_close h = true -> excluded k h = false ->
  w_open (fst (run writer_shapes batch k (w_init k) h)) = false /\
  readable (w_file (fst (run writer_shapes batch k (w_init k) h)))
    = Some (expected k (snd (run writer_shapes batch k (w_init k) h))).
Proof. intros batch k h. exact (closed_means_durable writer_shapes batch eq_refl k h). Qed.

(* the full statement -- every closed history of every adapter -- is false on the current tree *)
Theorem C17_closed_means_durable_full_refuted : ~ durable_full writer_shapes.
Proof. exact (durable_full_false writer_shapes eq_refl eq_refl). Qed.

(* what SQLite returns is a permutation of what was written (nothing lost, nothing twice) *)
Theorem C17_sqlite_order_is_permutation : forall rs, Permutation (expected ASqlite rs) rs.
Proof. exact sqlite_order_perm. Qed.

(* finding C17-stream-empty-close: every history of the excluded stream class leaves a 0-byte file, which is not a
   record stream -- the class is exact *)
Theorem C17_refuted_stream_empty_close : forall batch h, bare_close_first h = true ->
  w_file (fst (run writer_shapes batch AStream (w_init AStream) h)) = FileStream [] /\
  snd (run writer_shapes batch AStream (w_init AStream) h) = [] /\
  readable (w_file (fst (run writer_shapes batch AStream (w_init AStream) h))) = None.
Proof. intros batch h. exact (stream_bare_close_fails writer_shapes batch h eq_refl eq_refl). Qed.

(* what repair 73fee0f prevents (a statement about the generated facts with that repair undone: AvroWriter.flush
   installing the placeholder writer): flush(); write(r1) raises; write(r2) returns normally; close(): the file carries
   the schema "empty" and one field-less datum -- r2 is lost.  On the current facts the same history is harmless. *)
Theorem C17_refuted_avro_flush_before_write_if_reverted : forall batch,
  let h := [Flush; Write (c17_rec 0); Write (c17_rec 1); Close] in
  let sh := with_avro_unfixed writer_shapes in
  outcomes sh batch AAvro (w_init AAvro) h = [Ok; Raised; Ok; Ok] /\
  snd (run sh batch AAvro (w_init AAvro) h) = [c17_rec 1] /\
  readable (w_file (fst (run sh batch AAvro (w_init AAvro) h))) = None.
Proof. intros batch. repeat split. Qed.
Example C17_avro_flush_before_write_now : forall batch,
  let h := [Flush; Write (c17_rec 0); Write (c17_rec 1); Close] in
  outcomes writer_shapes batch AAvro (w_init AAvro) h = [Ok; Ok; Ok; Ok] /\
  readable (w_file (fst (run writer_shapes batch AAvro (w_init AAvro) h))) = Some [c17_rec 0; c17_rec 1].
Proof. intros batch. repeat split. Qed.

(* non-vacuity of the hypotheses *)
Example C17_hyp_satisfiable :
  has_close [Write (c17_rec 0); Close] = true /\ excluded AStream [Write (c17_rec 0); Close] = false /\
  excluded AStream [Flush; Close] = false.
Proof. repeat split. Qed.

(* ---------------------------------------------------------------------------------------------------- *)
(* 2. opened and closed without records: a valid empty output.  JSON/CSV/line/text, Avro, SQLite: however closed;
   stream: by leaving a with-block -- normally or by an exception -- or flush; close (a bare close() is the finding
   above) *)
Theorem C17_empty_output_valid : forall batch k c, is_closing c = true -> (k = AStream -> is_exit c = true) ->
  readable (w_file (fst (run writer_shapes batch k (w_init k) [c]))) = Some [].
Proof. intros batch k c. exact (empty_output_valid writer_shapes batch k c eq_refl). Qed.
(* what an __exit__ that skips the flush when an exception is in flight would do (a statement about the generated
   facts with that change): a with-block left by an exception before the first record leaves a 0-byte file *)
Theorem C17_refuted_exit_by_exception_if_close_only : forall batch,
  let sh := with_exit_exc_close_only writer_shapes in
  w_file (fst (run sh batch AStream (w_init AStream) [WithExitExc])) = FileStream [] /\
  readable (w_file (fst (run sh batch AStream (w_init AStream) [WithExitExc]))) = None.
Proof. intros batch. split; reflexivity. Qed.
Theorem C17_empty_output_valid_stream_flush_close : forall batch,
  w_file (fst (run writer_shapes batch AStream (w_init AStream) [Flush; Close])) = FileStream [FHdr] /\
  readable (FileStream [FHdr]) = Some [].
Proof. intros batch. split; reflexivity. Qed.

(* ---------------------------------------------------------------------------------------------------- *)
(* 3. split by count, closed by leaving the with-block -- normally (what rdump does) or by an exception --: for every inner adapter whose write() cannot fail
   (stream, JSON/CSV/line/text, SQLite), limit > 0, record sequence rs, and EVERY target that names a file: (netloc, path)
   = urlparse of the path SplitWriter receives; file_target = not (netloc in {"", "-"} and path = "") -- absolute paths,
   relative paths, and a bare file name behind an adapter scheme (which urlparse puts into netloc) alike.
   parts = rs cut every `limit` records, plus an empty trailing part when the last record fills a part (SplitWriter
   opens the next part at once). *)
Theorem C17_split : forall batch k limit netloc path rs c,
  always_accepts k = true -> 0 < limit -> file_target netloc path = true -> is_exit c = true ->
  let res := split_run writer_shapes batch k limit (split_is_stdout writer_shapes netloc path) (split_init k)
                       (map Write rs ++ [c]) in
  let files := map snd (split_files (fst res)) in
  let parts := chunks limit [] rs in
  snd res = rs /\                                                        (* every write accepted *)
  map fst (split_files (fst res)) = seq 0 (List.length parts) /\        (* part i carries file_count = i *)
  Forall2 (fun f cs => readable f = Some (expected k cs)) files parts /\ (* each part readable on its own *)
  List.concat parts = rs /\                                              (* record-wise concatenation *)
  Forall (fun cs => List.length cs <= limit) parts /\                    (* at most the limit *)
  Forall (fun cs => List.length cs = limit) (removelast parts) /\        (* all but the last are full *)
  List.length parts = List.length rs / limit + 1 /\
  (last parts [] = [] <-> List.length rs mod limit = 0) /\
  (k = AStream -> read_stream (raw_concat files) = Some rs).             (* raw concatenation is a stream *)
Proof.
  intros batch k limit netloc path rs c Hk Hl Hft He.
  exact (split_theorem_target writer_shapes batch k limit netloc path rs c eq_refl eq_refl Hk Hl Hft (closing_of_exit c He)
           (or_introl He)).
Qed.
(* a bare file name behind an adapter scheme (split+jsonfile://bare.json: netloc "bare.json", empty path) is a file *)
Example C17_split_bare_name_is_a_file :
  file_target "bare.json" "" = true /\ split_is_stdout writer_shapes "bare.json" "" = false /\
  split_is_stdout writer_shapes "" "" = true /\ split_is_stdout writer_shapes "-" "" = true.
Proof. repeat split. Qed.

(* closed by a bare close() / del: the same, unless the inner adapter is the stream adapter and the number of
   records is a multiple of the limit (the trailing part then is a 0-byte file: finding C17-stream-empty-close) *)
Theorem C17_split_bare_close_partial : forall batch k limit netloc path rs c,
  always_accepts k = true -> 0 < limit -> file_target netloc path = true -> c = Close \/ c = Del ->
  k <> AStream \/ List.length rs mod limit <> 0 ->
  let res := split_run writer_shapes batch k limit (split_is_stdout writer_shapes netloc path) (split_init k)
                       (map Write rs ++ [c]) in
  let files := map snd (split_files (fst res)) in
  let parts := chunks limit [] rs in
  snd res = rs /\
  map fst (split_files (fst res)) = seq 0 (List.length parts) /\
  Forall2 (fun f cs => readable f = Some (expected k cs)) files parts /\
  List.concat parts = rs /\
  Forall (fun cs => List.length cs <= limit) parts /\
  Forall (fun cs => List.length cs = limit) (removelast parts) /\
  List.length parts = List.length rs / limit + 1 /\
  (last parts [] = [] <-> List.length rs mod limit = 0) /\
  (k = AStream -> read_stream (raw_concat files) = Some rs).
Proof.
  intros batch k limit netloc path rs c Hk Hl Hft Hc Hok.
  exact (split_theorem_target writer_shapes batch k limit netloc path rs c eq_refl eq_refl Hk Hl Hft
           (closing_of_bare c Hc) (or_intror Hok)).
Qed.
Theorem C17_refuted_split_bare_close : forall batch,
  let res := split_run writer_shapes batch AStream 2 false (split_init AStream)
                       [Write (c17_rec 0); Write (c17_rec 1); Close] in
  map (fun nf => (fst nf, readable (snd nf))) (split_files (fst res)) =
    [(0, Some [c17_rec 0; c17_rec 1]); (1, None)].
Proof. intros batch. reflexivity. Qed.

(* part names: distinct values of file_count give distinct names for every suffix length (rjust never truncates,
   so this also holds once file_count needs more digits than suffix_length) ... *)
Theorem C17_split_part_names_distinct : forall name suffix_length i j,
  part_name name suffix_length i = part_name name suffix_length j -> i = j.
Proof. exact part_name_inj. Qed.
(* ... but then the names no longer sort in part order: part 100 sorts before part 11 for suffix length 2 *)
Theorem C17_note_split_suffix_overflow :
  part_name "out.records" (N.to_nat default_suffix_length) 100 = "out.100.records"%string /\
  String.compare (part_name "out.records" (N.to_nat default_suffix_length) 100)
                 (part_name "out.records" (N.to_nat default_suffix_length) 11) = Lt.
Proof. split; reflexivity. Qed.

(* ---------------------------------------------------------------------------------------------------- *)
(* 4. time-templated archiving.  ws = the records, each with the path its template yields; pre = the files that
   exist beforehand; clock = the "now" values the rotations consume; rot_name p s n = the rotated name of p for stamp s
   and counter n (distinct counters give distinct names -- C17_rotated_names_distinct for the names the code builds).
   For EVERY clock -- also one that stamps all rotations with the same second -- after close(): every write succeeded;
   no rename replaced an existing file (the free-name search of rotate_existing_file finds a free name); the files on
   disk are exactly the pre-existing files plus one file per segment (maximal run of consecutive records with the same
   path), each under its own name or a rotation of it; the segment written last sits under the name the template
   yields; every segment file reads back its records, in order; and the segments concatenate to the sequence written. *)
Theorem C17_rotation : forall batch (rot_name : path -> stamp -> nat -> path) k pre clock ws,
  (forall p s n m, rot_name p s n = rot_name p s m -> n = m) ->
  always_accepts k = true -> NoDup (map fst pre) ->
  let final := pt_final writer_shapes batch rot_name k pre clock ws in
  Forall (fun o => o = Ok) (snd (pt_run writer_shapes batch rot_name k (pt_init pre clock) (map pw ws))) /\
  Forall no_overwrite (p_log final) /\
  NoDup (map fst (pt_files final)) /\
  Permutation (map snd (pt_files final))
              (map snd pre ++ map (fun sg => seg_file writer_shapes batch k (snd sg)) (segs ws)) /\
  Forall (origin writer_shapes batch rot_name k pre (segs ws)) (pt_files final) /\
  (forall sg, snd (seg_run ([], None) ws) = Some sg -> In (seg_entry writer_shapes batch k sg) (pt_files final)) /\
  Forall (fun sg => readable (seg_file writer_shapes batch k (snd sg)) = Some (expected k (snd sg))) (segs ws) /\
  List.concat (map snd (segs ws)) = map snd ws.
Proof.
  intros batch rot_name k pre clock ws Hinj Hk Hpre.
  exact (rotation_keeps_everything writer_shapes batch eq_refl rot_name Hinj k Hk pre Hpre clock ws).
Qed.
(* the names "{fname}.{stamp}.{ext}", "{fname}.{stamp}-1.{ext}", "{fname}.{stamp}-2.{ext}", ... are pairwise distinct *)
Theorem C17_rotated_names_distinct : forall p s n m, rot_name_py p s n = rot_name_py p s m -> n = m.
Proof. exact rot_name_py_inj. Qed.

(* what repair b4f3e23 prevents (a statement about the generated facts with that repair undone: no free-name search):
   paths A B A B A, the three rotations stamped with the same second: the second rotation of A replaces the first
   rotated file -- record 0 is in no file any more *)
Definition c17_A : path := "records-20200101T01.records.gz"%string.
Definition c17_B : path := "records-20200101T02.records.gz"%string.
Definition c17_ws : list (path * rec) :=
  [(c17_A, c17_rec 0); (c17_B, c17_rec 1); (c17_A, c17_rec 2); (c17_B, c17_rec 3); (c17_A, c17_rec 4)].
Definition on_disk (st : pstate) (r : rec) : bool :=
  existsb (fun nf => match readable (snd nf) with Some rs => existsb (rec_eqb r) rs | None => false end) (pt_files st).
Theorem C17_refuted_rotation_same_second_if_reverted :
  let s := "20210505T100000"%string in
  let final := pt_final (with_rotation_unfixed writer_shapes) 1000 rot_name_py AStream [] [s; s; s] c17_ws in
  map ren_dst_existed (p_log final) = [false; false; true] /\
  on_disk final (c17_rec 0) = false /\
  map fst (pt_files final) =
    ["records-20200101T02.20210505T100000.records.gz"; "records-20200101T01.20210505T100000.records.gz";
     "records-20200101T02.records.gz"; "records-20200101T01.records.gz"]%string.
Proof. vm_compute. repeat split. Qed.
(* the same input on the current facts: the second rotation of A gets the counter 1, all five records are on disk *)
Example C17_rotation_same_second_now :
  let s := "20210505T100000"%string in
  let final := pt_final writer_shapes 1000 rot_name_py AStream [] [s; s; s] c17_ws in
  map ren_dst (p_log final) =
    ["records-20200101T01.20210505T100000.records.gz"; "records-20200101T02.20210505T100000.records.gz";
     "records-20200101T01.20210505T100000-1.records.gz"]%string /\
  forallb (fun pr => on_disk final (snd pr)) c17_ws = true.
Proof. vm_compute. split; reflexivity. Qed.

(* ---------------------------------------------------------------------------------------------------- *)
(* 5. every writer, every operation.  The writer classes that write to a path, with the model adapter each is an
   instance of (GENERATED: classified by what the real writer leaves on disk): the stream writer, JSON / CSV / line /
   text (APlain), Avro, SQLite.  C17_closed_means_durable(_partial) quantify over `adapter`, hence over all of them;
   the check runs each of them with every compression extension its opener supports. *)
Theorem C17_generated_writer_table :
  forallb (fun n => existsb (String.eqb n) (map fst writer_table))
          ["StreamWriter"; "JsonfileWriter"; "CsvfileWriter"; "LineWriter"; "TextWriter"; "AvroWriter"; "SqliteWriter"]%string
  = true.
Proof. reflexivity. Qed.
Theorem C17_writer_set : forall w k, In (w, k) writer_table -> forall batch h,
  has_close h = true -> excluded k h = false ->
  w_open (fst (run writer_shapes batch k (w_init k) h)) = false /\
  readable (w_file (fst (run writer_shapes batch k (w_init k) h)))
    = Some (expected k (snd (run writer_shapes batch k (w_init k) h))).
Proof. intros w k _ batch h. exact (closed_means_durable writer_shapes batch eq_refl k h). Qed.

(* flush(), close(), leaving a with-block (either way) and del never raise, in any state -- in particular a writer may
   be closed twice, closed inside its with-block, flushed after close; only write() may raise *)
Theorem C17_close_flush_never_raise : forall batch k st h,
  Forall outcome_allowed (combine h (outcomes writer_shapes batch k st h)).
Proof. intros batch k st h. exact (close_flush_never_raise writer_shapes batch eq_refl k h st). Qed.

(* ---------------------------------------------------------------------------------------------------- *)
(* 6. the stdout target ("-"): sys.stdout is a buffered file object the writer does not close.  stdout_shapes
   (GENERATED: observed with sys.stdout replaced by a buffered file / a terminal) says for each writer kind whether
   write() / flush() / close() empty that buffer. *)
Theorem C17_generated_stdout_shapes :
  forallb (fun k => o_flush_delivers (stdout_shapes k)) all_okinds = true /\
  o_write_delivers (stdout_shapes OText) = true /\ o_write_delivers (stdout_shapes OPrinter) = true.
Proof. repeat split. Qed.
(* every kind: a writer that is closed by leaving its with-block (normally or by an exception) while it is still open
   has delivered every record it accepted -- nothing is left in the buffer.  (Second hypothesis: either this kind refuses
   write() on a closed writer -- all but the CSV writer, whose DictWriter keeps sys.stdout --, or the history has no
   write() after the close.) *)
Theorem C17_stdout_exit_delivers : forall kind h, first_close_is_exit h = true ->
  o_write_after_close (stdout_shapes kind) = false \/ no_write_after_close h = true ->
  o_pending (fst (o_run writer_shapes (stdout_shapes kind) o_init h)) = [] /\
  o_delivered (fst (o_run writer_shapes (stdout_shapes kind) o_init h))
    = snd (o_run writer_shapes (stdout_shapes kind) o_init h).
Proof. exact (stdout_exit_delivers writer_shapes stdout_shapes eq_refl eq_refl). Qed.
(* the text writer and the record printer (stream writer on a terminal) flush after every record: whatever the
   history, nothing is ever left in the buffer *)
Theorem C17_stdout_text_delivers_at_once : forall h,
  o_pending (fst (o_run writer_shapes (stdout_shapes OText) o_init h)) = [] /\
  o_delivered (fst (o_run writer_shapes (stdout_shapes OText) o_init h))
    = snd (o_run writer_shapes (stdout_shapes OText) o_init h).
Proof. exact (stdout_autoflush_delivers writer_shapes (stdout_shapes OText) eq_refl eq_refl). Qed.
Theorem C17_stdout_printer_delivers_at_once : forall h,
  o_pending (fst (o_run writer_shapes (stdout_shapes OPrinter) o_init h)) = [] /\
  o_delivered (fst (o_run writer_shapes (stdout_shapes OPrinter) o_init h))
    = snd (o_run writer_shapes (stdout_shapes OPrinter) o_init h).
Proof. exact (stdout_autoflush_delivers writer_shapes (stdout_shapes OPrinter) eq_refl eq_refl). Qed.
(* NOT claimed (and false on the current tree for stream / JSON / CSV / line): a bare close() on the stdout target
   delivers what is pending -- those writers neither flush nor close stdout in close() *)
Example C17_stdout_bare_close_leaves_pending :
  o_pending (fst (o_run writer_shapes (stdout_shapes OLine) o_init [Write (c17_rec 0); Close])) = [c17_rec 0].
Proof. reflexivity. Qed.

(* ---------------------------------------------------------------------------------------------------- *)
(* 7. writers constructed on a CALLER-SUPPLIED file object (RecordStreamWriter(fp), RecordOutput(fp), RecordPrinter(fp),
   the adapters' writer classes given a file object) while the caller keeps its reference.  given_fp_table (GENERATED:
   observed on plain files, gzip.GzipFile and a large BufferedWriter) says for each class whether close() closes that
   object and whether the content on disk is complete after close().  It is complete for every one of them; the check
   runs histories of write / flush / close on each against the same state machines (stream / plain / avro). *)
Theorem C17_generated_given_fp : forallb (fun e => snd (snd e)) given_fp_table = true.
Proof. reflexivity. Qed.
