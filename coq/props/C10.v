(* C10 -- Reading with a selector equals filtering afterwards; matching is pure.
   Statements only; every proof is `exact <lemma>` or a computation on the GENERATED facts of gen/Gen_filter.v
   (the shapes of the five readers' filter loops, the reset/frame facts of RecordContextMatcher.matches,
   Selector.match, CompiledSelector.match, make_selector's table). *)
From Coq Require Import List Bool String.
Import ListNotations.
From FR Require Import Filter Gen_filter Filter_proofs.

(* ---- the generated facts have the shape the proofs need (computed on what the code says now) ---- *)
Theorem C10_generated_shapes_ok : forall k, shape_ok (shape_of k) = true.
Proof. intros []; reflexivity. Qed.
Theorem C10_generated_matcher_ok :
  interpreted_ok matcher = true /\ data_fresh_of matcher = true /\ smem "rec" (mf_reset_fresh matcher) = true
  /\ mf_compiled_ns_copied matcher = true.
Proof. repeat split; reflexivity. Qed.
Theorem C10_generated_no_record_writes : record_write_sites = [].
Proof. reflexivity. Qed.

(* ---- reading with a selector = filtering afterwards ---- *)
(* For each of the five readers, ALL lists of decoded objects, and EVERY stateful matcher whose result does not
   depend on its state: same records, same order, same multiplicity; when the selector raises on some record,
   both settings yield the same records before it and both raise. *)
Theorem C10_filter :
  forall (R S : Type) (match_step : S -> R -> S * option bool) (k : reader_kind),
    (forall s s' r, snd (match_step s r) = snd (match_step s' r)) ->
    forall (items : list (item R)) (s0 : S),
      iter_reader match_step k (Some s0) items
      = post_filter (fun r => snd (match_step s0 r)) (fst (iter_reader match_step k None items)).
Proof.
  intros R S ms k H items s0.
  exact (run_loop_filter R S ms (shape_of k) (C10_generated_shapes_ok k) H items s0 None).
Qed.

(* the same under the weaker reset law: the result is state-independent on the states the matcher can reach *)
Theorem C10_filter_reachable :
  forall (R S : Type) (match_step : S -> R -> S * option bool) (Inv : S -> Prop) (k : reader_kind),
    (forall s r, Inv s -> Inv (fst (match_step s r))) ->
    (forall s s' r, Inv s -> Inv s' -> snd (match_step s r) = snd (match_step s' r)) ->
    forall (items : list (item R)) (s0 : S), Inv s0 ->
      iter_reader match_step k (Some s0) items
      = post_filter (fun r => snd (match_step s0 r)) (fst (iter_reader match_step k None items)).
Proof.
  intros R S ms Inv k H1 H2 items s0 H0.
  exact (run_loop_filter_inv R S ms (shape_of k) Inv (C10_generated_shapes_ok k) H1 H2 items s0 None H0).
Qed.

(* a selector that never raises: the iteration does not raise and is List.filter of the unfiltered iteration *)
Theorem C10_filter_total :
  forall (R S : Type) (match_step : S -> R -> S * option bool) (k : reader_kind),
    (forall s s' r, snd (match_step s r) = snd (match_step s' r)) ->
    forall (items : list (item R)) (s0 : S),
      (forall r, In r (fst (iter_reader match_step k None items)) -> exists b, snd (match_step s0 r) = Some b) ->
      iter_reader match_step k (Some s0) items
      = (filter (truth (fun r => snd (match_step s0 r))) (fst (iter_reader match_step k None items)), false).
Proof.
  intros R S ms k H items s0 Htot.
  rewrite (C10_filter R S ms k H items s0).
  exact (post_filter_total R (fun r => snd (ms s0 r)) _ Htot).
Qed.

(* a selector that raises somewhere: the records yielded are the matching ones before the first offending record *)
Theorem C10_filter_raising_prefix :
  forall (R S : Type) (match_step : S -> R -> S * option bool) (k : reader_kind),
    (forall s s' r, snd (match_step s r) = snd (match_step s' r)) ->
    forall (items : list (item R)) (s0 : S),
      snd (iter_reader match_step k (Some s0) items) = true ->
      exists pre r post,
        fst (iter_reader match_step k None items) = pre ++ r :: post
        /\ snd (match_step s0 r) = None /\ (forall x, In x pre -> snd (match_step s0 x) <> None)
        /\ fst (iter_reader match_step k (Some s0) items) = filter (truth (fun r => snd (match_step s0 r))) pre.
Proof.
  intros R S ms k H items s0. rewrite (C10_filter R S ms k H items s0).
  exact (post_filter_prefix R (fun r => snd (ms s0 r)) _).
Qed.

(* without selector every decoded record is yielded and nothing raises; SQLite: table after table *)
Theorem C10_no_selector_yields_all :
  forall (R S : Type) (match_step : S -> R -> S * option bool) (k : reader_kind) (rs : list R),
    iter_reader match_step k None (map IRec rs) = (rs, false).
Proof. intros R S ms k rs. exact (run_loop_nosel_recs R S ms (shape_of k) None rs). Qed.

Theorem C10_filter_sqlite_tables :
  forall (R S : Type) (match_step : S -> R -> S * option bool),
    (forall s s' r, snd (match_step s r) = snd (match_step s' r)) ->
    forall (tables : list (list R)) (s0 : S),
      iter_reader match_step KSqlite (Some s0) (sqlite_items tables)
      = post_filter (fun r => snd (match_step s0 r)) (List.concat tables).
Proof.
  intros R S ms H tables s0. rewrite (C10_filter R S ms KSqlite H (sqlite_items tables) s0).
  unfold sqlite_items. rewrite (C10_no_selector_yields_all R S ms KSqlite (List.concat tables)). reflexivity.
Qed.

(* what is yielded is an object of the unfiltered iteration, and it is the object that was tested (and matched) *)
Theorem C10_yielded_object_is_tested_object :
  (forall k, s_tested_same (on_record (shape_of k)) = true
             /\ match on_plain (shape_of k) with Some s => s_tested_same s = true | None => True end)
  /\ forall (R S : Type) (match_step : S -> R -> S * option bool) (k : reader_kind),
      (forall s s' r, snd (match_step s r) = snd (match_step s' r)) ->
      forall (items : list (item R)) (s0 : S) (r : R),
        In r (fst (iter_reader match_step k (Some s0) items)) ->
        In r (fst (iter_reader match_step k None items)) /\ snd (match_step s0 r) = Some true.
Proof.
  split.
  - intros []; split; exact eq_refl || exact I.
  - intros R S ms k H items s0 r. rewrite (C10_filter R S ms k H items s0).
    exact (post_filter_in R (fun r => snd (ms s0 r)) _ r).
Qed.

(* ---- matching is deterministic and history independent ---- *)
(* Interpreted engine (Selector.match + RecordContextMatcher.matches with the generated reuse/reset facts), for
   EVERY evaluation function of the namespace (it may bind generator variables, it may raise) and ALL histories:
   the result for r after any records equals the result on a brand-new Selector, which is the evaluation in the
   namespace built from r alone. *)
Theorem C10_match_history_independent :
  forall (R V : Type) (base_ns : R -> ns V) (evalx : ns V -> ns V * option bool) (h1 h2 : list R) (r : R),
    let sm := selector_match base_ns evalx (mf_selector_reuses_matcher matcher) (data_fresh_of matcher) in
    let after := after_history base_ns evalx (mf_selector_reuses_matcher matcher) (data_fresh_of matcher) no_matcher in
    snd (sm (after h1) r) = snd (sm (after h2) r) /\ snd (sm (after h1) r) = snd (evalx (base_ns r)).
Proof.
  intros R V base_ns evalx h1 h2 r. cbv zeta. split.
  - exact (selector_match_independent R V base_ns evalx _ _ (interpreted_ok_inv matcher eq_refl) _ _ r).
  - exact (selector_match_result R V base_ns evalx _ _ (interpreted_ok_inv matcher eq_refl) _ r).
Qed.

(* hence the filter law for the interpreted engine as it is *)
Theorem C10_filter_interpreted :
  forall (R V : Type) (base_ns : R -> ns V) (evalx : ns V -> ns V * option bool) (k : reader_kind)
         (items : list (item R)) (st : mstate V),
    let sm := selector_match base_ns evalx (mf_selector_reuses_matcher matcher) (data_fresh_of matcher) in
    iter_reader sm k (Some st) items
    = post_filter (fun r => snd (evalx (base_ns r))) (fst (iter_reader sm k None items)).
Proof.
  intros R V base_ns evalx k items st. cbv zeta.
  rewrite (C10_filter R (mstate V) _ k
             (selector_match_independent R V base_ns evalx _ _ (interpreted_ok_inv matcher eq_refl)) items st).
  apply post_filter_ext. intros r.
  exact (selector_match_result R V base_ns evalx _ _ (interpreted_ok_inv matcher eq_refl) st r).
Qed.

(* Compiled engine: the namespace of a call is a copy -- whatever the evaluation binds in it (a walrus) is gone
   afterwards; self.ns is the same after every history, so the result is a function of the record. *)
Theorem C10_compiled_ns_not_shared :
  forall (R V : Type) (call_ns : R -> ns V) (evalc : ns V -> ns V * option bool) (shared : ns V) (h : list R) (r : R),
    compiled_after call_ns evalc (mf_compiled_ns_copied matcher) shared h = shared
    /\ snd (compiled_match call_ns evalc (mf_compiled_ns_copied matcher)
              (compiled_after call_ns evalc (mf_compiled_ns_copied matcher) shared h) r)
       = snd (evalc (ns_update shared (call_ns r))).
Proof.
  intros R V call_ns evalc shared h r.
  exact (compiled_not_shared R V call_ns evalc _ eq_refl shared h r).
Qed.

Theorem C10_filter_compiled :
  forall (R V : Type) (call_ns : R -> ns V) (evalc : ns V -> ns V * option bool) (k : reader_kind)
         (items : list (item R)) (shared : ns V),
    let cm := compiled_match call_ns evalc (mf_compiled_ns_copied matcher) in
    iter_reader cm k (Some shared) items
    = post_filter (fun r => snd (evalc (ns_update shared (call_ns r)))) (fst (iter_reader cm k None items)).
Proof.
  intros R V call_ns evalc k items shared. cbv zeta.
  rewrite (C10_filter_reachable R (ns V) (compiled_match call_ns evalc (mf_compiled_ns_copied matcher))
             (fun s => s = shared) k
             (compiled_inv_step R V call_ns evalc _ eq_refl shared)
             (compiled_inv_result R V call_ns evalc _ shared) items shared eq_refl).
  reflexivity.
Qed.

(* ---- make_selector ---- *)
(* falsy -> no selector; text -> Selector (CompiledSelector when forced) of the same text; a Selector object ->
   itself (recompiled from its text when forced); a CompiledSelector or any other object -> itself *)
Theorem C10_make_selector :
  forall i force_compiled, ms_lookup make_selector_table i force_compiled = Some (make_selector_spec i force_compiled).
Proof. exact (make_selector_from_table make_selector_table eq_refl). Qed.

(* ---- the hypotheses are needed: each deviation has a counterexample (these are what a changed fact would mean) ---- *)
Theorem C10_refuted_unguarded_site :
  run_loop ms_eq1 (sh_of {| s_guard := GNone; s_tested_same := true; s_nonmatch_stops := false |}) (Some tt) None [IRec 0]
  <> post_filter (fun r => snd (ms_eq1 tt r)) [0].
Proof. exact refuted_unguarded_site. Qed.
Theorem C10_refuted_break_on_nonmatch :
  run_loop ms_eq1 (sh_of {| s_guard := GSelOrMatch; s_tested_same := true; s_nonmatch_stops := true |}) (Some tt) None
    [IRec 0; IRec 1]
  <> post_filter (fun r => snd (ms_eq1 tt r)) [0; 1].
Proof. exact refuted_break_on_nonmatch. Qed.
Theorem C10_refuted_tests_other_object :
  run_loop ms_eq1 (sh_of {| s_guard := GSelOrMatch; s_tested_same := false; s_nonmatch_stops := false |}) (Some tt) None
    [IRec 1; IRec 0]
  <> post_filter (fun r => snd (ms_eq1 tt r)) [1; 0].
Proof. exact refuted_tests_other_object. Qed.
Theorem C10_refuted_namespace_updated_in_place :
  snd (selector_match genvar_base genvar_eval true false no_matcher 7) = Some true
  /\ snd (selector_match genvar_base genvar_eval true false
            (after_history genvar_base genvar_eval true false no_matcher [3]) 7) = None.
Proof. exact refuted_namespace_updated_in_place. Qed.
Theorem C10_refuted_compiled_ns_shared :
  snd (compiled_match genvar_base walrus_eval false [] 7) = Some false
  /\ snd (compiled_match genvar_base walrus_eval false (compiled_after genvar_base walrus_eval false [] [3]) 7) = Some true.
Proof. exact refuted_compiled_ns_shared. Qed.

(* non-vacuity: a history-independent matcher and a total one exist *)
Example C10_hyp_satisfiable :
  (forall s s' r, snd (ms_eq1 s r) = snd (ms_eq1 s' r)) /\ (forall r, exists b, snd (ms_eq1 tt r) = Some b).
Proof. split; [reflexivity | intros r; eexists; reflexivity]. Qed.
