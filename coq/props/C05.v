(* C05 -- Record fields always hold values of their declared type.
   Statements only; every proof is `exact <lemma>` (or `reflexivity` for computed side conditions on the
   GENERATED facts of gen/Gen_coerce.v and for the witnesses of refuted statements).
   [E] is the Python runtime / standard library the constructors delegate to (model/Coerce.v, env);
   every theorem holds for all E (env_ok E: ip_address answers addresses in range, iterating text or
   bytes yields characters / integers). *)
From Coq Require Import List Bool ZArith NArith String.
Import ListNotations.
From FR Require Import Bytes Coerce Gen_coerce Coerce_proofs.
Open Scope Z_scope.

(* the generated facts have the shape the proofs need: the three range tests are `value < 0 or value > MAX`
   with MAX = 0xFFFF / 0xFFFFFFFF / 1 AND are followed by the integrality test `value != int(self)`; uint16/uint32
   keep int(self) as packed value; bytes tests isinstance; string decodes bytes with surrogateescape; the digest
   setters demand 16 / 20 / 32 bytes and digest.__init__ raises for anything that is not a tuple, list, dict or
   None; __setattr__ stores after converting and lets None through; GroupedRecord.__setattr__ delegates to it;
   fieldtype(T + "[]") is the list class of exactly fieldtype(T) for every whitelist entry in either resolution order;
   typedlist converts every element; datetime ends with the tzinfo fix-up.  Reverting any of the repairs e636926 / f4497f4 / b7afec5 makes this fail. *)
Theorem C05_generated_facts : facts_ok gen_facts = true.
Proof. reflexivity. Qed.

(* ---- conversion is sound: whatever a constructor accepts is a value of the type ---- *)
(* FULL statement over all field types, all candidate values and every runtime.  cand_ok is the property's own
   quantifier for the documented pass-through type `record` (its candidates are records); it is `true` for every
   value of every other type.  (Text with a lone surrogate IS a value of the text types; that class is excluded
   only from the serialisation clause below.) *)
Theorem C05_coerce_sound : forall E, env_ok E -> forall t v s,
  cand_ok t v = true -> coerce gen_facts E t v = Ok s -> has_type t s = true.
Proof. intros E HE t v s. exact (coerce_sound gen_facts E eq_refl HE v t s). Qed.

Definition half : pv := PFloat 4602678819172646912%N (FFinite 0 false).                  (* 0.5 *)
Definition five_point_seven : pv := PFloat 4617653499156575027%N (FFinite 5 false).      (* 5.7 *)
Definition md5_text : pv := PStr (bytes_of_string "d41d8cd98f00b204e9800998ecf8427e") false.

(* the three former findings, now rejected -- for EVERY non-integral float / every malformed digest value *)
Theorem C05_rejects_fractions : forall E bits fl,
  (exists e, coerce gen_facts E TUint16 (PFloat bits (FFinite fl false)) = Raise e)
  /\ (exists e, coerce gen_facts E TUint32 (PFloat bits (FFinite fl false)) = Raise e)
  /\ (exists e, coerce gen_facts E TBoolean (PFloat bits (FFinite fl false)) = Raise e).
Proof.
  intros E bits fl.
  exact (conj (uint_fraction_rejected gen_facts E eq_refl bits fl)
          (conj (uint32_fraction_rejected gen_facts E eq_refl bits fl) (boolean_fraction_rejected gen_facts E eq_refl bits fl))).
Qed.

(* each repaired test is load-bearing: with the facts of the code before the repair the model accepts the old
   failing input (boolean(0.5) -> int object 0 with packed value True; uint16(5.7) keeps 5.7; digest(<text>) empty) *)
Theorem C05_without_boolean_fix : forall E,
  coerce (without_boolean_fix gen_facts) E TBoolean half = Ok (SBool 0 true)
  /\ has_type TBoolean (SBool 0 true) = false.
Proof. intros E. split; reflexivity. Qed.

Theorem C05_without_uint_fix : forall E,
  coerce (without_uint_fix gen_facts) E TUint16 five_point_seven = Ok (SUInt 5 (UFloat 4617653499156575027%N))
  /\ coerce (without_uint_fix gen_facts) E TUint32 five_point_seven = Ok (SUInt 5 (UFloat 4617653499156575027%N))
  /\ has_type TUint16 (SUInt 5 (UFloat 4617653499156575027%N)) = false.
Proof. intros E. repeat split. Qed.

Theorem C05_without_digest_fix : forall E,
  coerce (without_digest_fix gen_facts) E TDigest md5_text = Ok (SDigest None None None)
  /\ unrepresentable E TDigest md5_text = true.
Proof. intros E. split; reflexivity. Qed.

(* ---- well-typedness is an invariant of every operation history ---- *)
(* FULL statement: op_ok only restricts the values handed to `record` slots to records or None (the property's
   quantifier); every value is allowed for every other slot. *)
Theorem C05_invariant : forall E, env_ok E -> forall kw ops r,
  forallb (op_ok (types r)) ops = true -> well_typed r = true ->
  well_typed (fst (run_ops gen_facts E kw r ops)) = true.
Proof. intros E HE kw ops r. exact (run_ops_invariant gen_facts E eq_refl HE kw ops r). Qed.

Theorem C05_invariant_blank : forall E, env_ok E -> forall kw ts ops,
  forallb (op_ok ts) ops = true -> well_typed (fst (run_ops gen_facts E kw (blank kw ts) ops)) = true.
Proof. intros E HE. exact (invariant_blank gen_facts E eq_refl HE). Qed.

(* e.g. the history that used to break the invariant now leaves the record untouched *)
Theorem C05_invariant_former_witness : forall E,
  run_ops gen_facts E false (blank false [TUint16]) [OSet 0 five_point_seven]
  = ([(TUint16, SNone)], [Raised EValueError]).
Proof. intros E. reflexivity. Qed.

(* ---- a step that raises leaves the record as it was ---- *)
Theorem C05_failed_op_is_noop : forall E kw r o r' e, step gen_facts E kw r o = (r', Raised e) -> r' = r.
Proof. intros E. exact (step_noop gen_facts E eq_refl). Qed.

(* assignment through a GroupedRecord view is the member's own (converting, checking) assignment -- the generated
   fact f_grouped_delegates: GroupedRecord.__setattr__ hands the member's field to setattr(member, attr, val).
   OSetGrouped is one of the operations C05_invariant and C05_failed_op_is_noop quantify over. *)
Theorem C05_grouped_assignment_is_member_assignment : forall E kw r i v,
  step gen_facts E kw r (OSetGrouped i v) = step gen_facts E kw r (OSet i v).
Proof. intros E. exact (step_grouped gen_facts E eq_refl). Qed.

(* ---- several records of one type: no state is shared between them ---- *)
(* the constructor is a function of its arguments: the same record whatever was done before (other records built,
   their lists / digests mutated in place) ... *)
Theorem C05_constructor_state_free : forall E kw ts w w' args,
  match construct gen_facts E kw ts args with
  | Ok r => wstep gen_facts E kw ts w (WNew args) = (w ++ [r], Accepted)
            /\ wstep gen_facts E kw ts w' (WNew args) = (w' ++ [r], Accepted)
  | Raise e => wstep gen_facts E kw ts w (WNew args) = (w, Raised e) /\ wstep gen_facts E kw ts w' (WNew args) = (w', Raised e)
  end.
Proof. intros E. exact (new_record_state_free gen_facts E). Qed.

(* ... built without values it holds default(T) in every slot (an empty list for T[], an empty digest) ... *)
Theorem C05_new_record_holds_defaults : forall E kw ts w,
  wstep gen_facts E kw ts w (WNew []) = (w ++ [blank kw ts], Accepted).
Proof. intros E. exact (new_without_values_is_default gen_facts E). Qed.

(* ... and an operation on record j -- in-place mutation of the objects it holds included -- leaves every other
   record exactly as it was *)
Theorem C05_records_do_not_share_state : forall E kw ts w o k r,
  nth_error w k = Some r -> targets o k = false -> nth_error (fst (wstep gen_facts E kw ts w o)) k = Some r.
Proof. intros E. exact (wstep_frame gen_facts E eq_refl). Qed.

(* assigning None is always accepted (and unsets the slot) *)
Theorem C05_none_is_always_accepted : forall E r i sl, nth_error r i = Some sl ->
  setattr gen_facts E r i PNone = (firstn i r ++ (fst sl, SNone) :: skipn (S i) r, Accepted).
Proof. intros E. exact (setattr_none gen_facts E eq_refl). Qed.

(* ---- the property's list of values a type cannot represent is rejected ---- *)
(* FULL statement: unrepresentable = out-of-range or non-integral number for uint16/uint32, number other than 0/1
   for boolean, anything but None / a well-formed tuple, list or dict for digest, what ip_address / ip_network
   refuse, non-bytes for bytes, a list with such an element. *)
Theorem C05_rejects_unrepresentable : forall E t v,
  unrepresentable E t v = true -> exists e, coerce gen_facts E t v = Raise e.
Proof. intros E t v. exact (rejects_unrepresentable gen_facts E eq_refl v t). Qed.

(* the same, spelled out per class, for ALL values of the class *)
Theorem C05_rejects_uint16_out_of_range : forall E z, z < 0 \/ z > 65535 ->
  coerce gen_facts E TUint16 (PInt z) = Raise EValueError.
Proof. intros E. exact (uint16_out_of_range gen_facts E eq_refl). Qed.

Theorem C05_rejects_uint32_out_of_range : forall E z, z < 0 \/ z > 4294967295 ->
  coerce gen_facts E TUint32 (PInt z) = Raise EValueError.
Proof. intros E. exact (uint32_out_of_range gen_facts E eq_refl). Qed.

Theorem C05_rejects_boolean_other_integer : forall E z, z <> 0 -> z <> 1 ->
  coerce gen_facts E TBoolean (PInt z) = Raise EValueError.
Proof. intros E. exact (boolean_other_integer gen_facts E eq_refl). Qed.

Theorem C05_rejects_non_bytes : forall E v, plain v = true -> (forall b, v <> PBytes b) ->
  exists e, coerce gen_facts E TBytes v = Raise e.
Proof. intros E. exact (non_bytes_rejected gen_facts E eq_refl). Qed.

Theorem C05_rejects_malformed_digest : forall E v, plain v = true -> digest_wellformed v = false ->
  exists e, coerce gen_facts E TDigest v = Raise e.
Proof. intros E. exact (malformed_digest_rejected gen_facts E eq_refl). Qed.

Theorem C05_rejects_address_out_of_range : forall E z, z < 0 \/ z >= 2 ^ 128 ->
  exists e, coerce gen_facts E TIpAddress (PInt z) = Raise e.
Proof. intros E. exact (address_out_of_range gen_facts E eq_refl). Qed.

(* ---- ... and the values the type does represent are accepted, unchanged ---- *)
Theorem C05_accepts_representable : forall E,
  (forall z, 0 <= z <= 65535 -> coerce gen_facts E TUint16 (PInt z) = Ok (SUInt z (UInt z)))
  /\ (forall z, 0 <= z <= 4294967295 -> coerce gen_facts E TUint32 (PInt z) = Ok (SUInt z (UInt z)))
  /\ (forall b, coerce gen_facts E TBoolean (PBool b) = Ok (SBool (Z_of_bool b) b))
  /\ coerce gen_facts E TBoolean (PInt 0) = Ok (SBool 0 false)
  /\ coerce gen_facts E TBoolean (PInt 1) = Ok (SBool 1 true)
  /\ (forall b, coerce gen_facts E TBytes (PBytes b) = Ok (SBytes b)).
Proof. intros E. exact (accepts_representable gen_facts E eq_refl). Qed.

(* ---- input is converted on the way in ---- *)
Theorem C05_conversions : forall E,
  (forall w, coerce gen_facts E TDatetime (PDatetime w None) = Ok (SDt w (Some 0)))          (* naive => UTC, same wall clock *)
  /\ (forall w o, coerce gen_facts E TDatetime (PDatetime w (Some o)) = Ok (SDt w (Some o)))  (* aware: unchanged *)
  /\ (forall b, coerce gen_facts E TString (PBytes b) = Ok (SStr b false))                   (* bytes => text whose
                                                                      surrogateescape encoding is b *)
  /\ (forall s l, coerce gen_facts E TString (PStr s l) = Ok (SStr s l)).
Proof. intros E. exact (conversions gen_facts E eq_refl). Qed.

(* ---- serialisation ---- *)
(* FULL statement: well_typed r = true -> serialisable r = true is false (C05_refuted_lone_surrogate).  Partial:
   no text with a lone (non-escape) surrogate, and no untyped legacy container (stringlist / dictlist / dynamic). *)
Theorem C05_serialisable_partial : forall r,
  well_typed r = true -> forallb (fun sl => no_lone (snd sl)) r = true -> forallb typed_only (types r) = true ->
  serialisable r = true.
Proof. exact well_typed_serialisable. Qed.

Definition lone_text : pv := PStr (unhex "78eda080") true.     (* "x\ud800" *)
Theorem C05_refuted_lone_surrogate : forall E,
  let run := run_ops gen_facts E false (blank false [TString]) [OSet 0 lone_text] in
  snd run = [Accepted] /\ well_typed (fst run) = true /\ serialisable (fst run) = false.
Proof. intros E. repeat split. Qed.

(* ---- typed lists ---- *)
Theorem C05_list_elements : forall E, env_ok E -> forall e l s,
  coerce gen_facts E (TList e) (PList l) = Ok s ->
  exists ss, s = SList ss /\ Forall2 (fun x s' => coerce gen_facts E e x = Ok s') l ss
             /\ (forallb (cand_ok e) l = true -> forallb (has_type e) ss = true).
Proof. intros E HE. exact (list_elements gen_facts E eq_refl HE). Qed.

Theorem C05_list_bad_element_rejects_all : forall E e l x e0, In x l -> coerce gen_facts E e x = Raise e0 ->
  exists e1, coerce gen_facts E (TList e) (PList l) = Raise e1.
Proof. intros E. exact (coerce_list_bad_element gen_facts E eq_refl). Qed.

(* ---- the hypotheses are satisfiable ---- *)
Example C05_hyp_satisfiable :
  env_ok env0
  /\ cand_ok TUint16 (PInt 65535) = true /\ cand_ok (TList TBoolean) (PList [PBool true; PInt 0]) = true
  /\ op_ok [TUint16; TDigest] (OReplace [(0%nat, PInt 7); (1%nat, PNone)]) = true
  /\ unrepresentable env0 (TList TUint16) (PList [PInt 1; PInt 65536]) = true
  /\ unrepresentable env0 TDigest md5_text = true /\ plain md5_text = true /\ digest_wellformed md5_text = false
  /\ (let r := fst (run_ops gen_facts env0 false (blank false [TUint16; TList TString])
                      [OSet 0 (PInt 80); OSet 1 (PList [PBytes (bytes_of_string "a")]); OSet 0 (PInt 65536)]) in
      r = [(TUint16, SUInt 80 (UInt 80)); (TList TString, SList [SStr (bytes_of_string "a") false])]
      /\ serialisable r = true).
Proof. repeat split; try reflexivity; try apply env0_ok. Qed.
