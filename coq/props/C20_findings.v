(* C20 -- witnesses of known findings that a repair of /repo makes false (built separately: when this file
   stops compiling the finding no longer reproduces at model level; it does not decide the check). *)
From Coq Require Import List Bool NArith String.
Import ListNotations.
From FR Require Import Csv Gen_text C20.
Open Scope list_scope.
Open Scope N_scope.

(* "no writer fails" is FALSE for the CSV writer on a surrogate-escaped byte (strict encoder), which the
   other two writers accept *)
Theorem C20_csv_total_refuted :
  let rs := [rec_with_s [97; 56575] (tx "'a<dcff>'")] in
  forallb (rec_ok true) rs = true /\ csv_out gen_cfg no_opts rs = None
  /\ line_out gen_cfg no_opts rs <> None /\ utf8 (g_text_se gen_cfg) (rec_repr gen_cfg (hd (rec_with_s [] []) rs)) <> None.
Proof. repeat split; try reflexivity; discriminate. Qed.
