(* C09 -- The interpreted selector is a sandbox.  Statements only.
   [sandbox_facts] is GENERATED from selector.py (namespace of matches(), WHITELIST, shape of the Call guard). *)
From Coq Require Import List Bool String.
Import ListNotations.
From FR Require Import Sandbox Gen_sandbox Sandbox_proofs.
Open Scope string_scope.
Open Scope list_scope.

Theorem C09_generated_guard_by_identity : guard_by_identity sandbox_facts = true.
Proof. reflexivity. Qed.

(* the field_* helpers read the fields a selector names through _field_value, which refuses double-underscore names *)
Theorem C09_generated_helpers_refuse_dunder : helpers_refuse_dunder sandbox_facts = true.
Proof. reflexivity. Qed.

(* what selectors may call: str repr any all, `fields`, and exactly the FUNCTION_WHITELIST helpers *)
Theorem C09_generated_exposed_callables :
  exposed_callables sandbox_facts = ["str"; "repr"; "fields"; "any"; "all"] ++ function_whitelist_names.
Proof. reflexivity. Qed.

(* HEADLINE.  For EVERY expression tree (every node kind the parser can produce, any nesting), every behaviour of the
   objects involved (truthiness, iteration, what helpers find in their arguments -- the three oracles are universally
   quantified) and every evaluation budget: every call the evaluation performs has a callee that is one of the exposed
   functions or a whitelisted field-type constructor, and every attribute it reads -- for an ast.Attribute node, or inside
   a field_* helper for a field name the selector passes -- has a name that does not start with two underscores.  A refused call/attribute performs no event for the refused object. *)
Theorem C09_sandbox : forall truthy elems helper_fields fuel n,
  Forall (fun e => ev_ok sandbox_facts e = true)
         (snd (snd (eval sandbox_facts truthy elems helper_fields fuel (ns0 sandbox_facts, []) n))).
Proof.
  intros. apply (eval_preserves sandbox_facts truthy elems helper_fields C09_generated_guard_by_identity
                             C09_generated_helpers_refuse_dunder fuel).
  constructor.
Qed.

(* the same from any state reached during an evaluation (namespace with generator variables bound to ANY objects) *)
Theorem C09_sandbox_any_namespace : forall truthy elems helper_fields fuel d n,
  Forall (fun e => ev_ok sandbox_facts e = true)
         (snd (snd (eval sandbox_facts truthy elems helper_fields fuel (d, []) n))).
Proof.
  intros. apply (eval_preserves sandbox_facts truthy elems helper_fields C09_generated_guard_by_identity
                             C09_generated_helpers_refuse_dunder fuel).
  constructor.
Qed.

(* allowed callees are exactly: exposed functions and field-type constructors whose dotted path is whitelisted *)
Theorem C09_allowed_spec : forall o, allowed sandbox_facts o = true ->
  (exists n, o = OFun n /\ In n (exposed_callables sandbox_facts)) \/
  (exists p, o = OMod p /\ In p (whitelist sandbox_facts)).
Proof. exact (allowed_spec sandbox_facts). Qed.

(* evaluation has no operation that assigns to the record: the only effects are the events above *)
(* (the constructors of [event] are attribute READS, calls of allowed callees and operator applications) *)

(* ---- witnesses: with the pre-fix guard (decision by resolved name) the statement is false ---- *)
Definition prefix_facts : facts :=
  {| exposed_callables := exposed_callables sandbox_facts; plain_names := plain_names sandbox_facts;
     whitelist := whitelist sandbox_facts; guard_by_identity := false; helper_names := helper_names sandbox_facts;
     helpers_refuse_dunder := helpers_refuse_dunder sandbox_facts |}.
Definition t_true (o : obj) := true.
Definition no_elems (o : obj) : list obj := match o with OSeq l => l | _ => [] end.
Definition no_fields (o : obj) : list string := [].
(* lower(r.s).upper() : the method `upper` of a field value is invoked *)
Definition hostile1 := NCall (NAttr (NCall (NName "lower") [NAttr (NName "r") "s"] []) "upper") [] [].
Theorem C09_refuted_name_guard :
  existsb (fun e => negb (ev_ok prefix_facts e)) (snd (snd (eval prefix_facts t_true no_elems no_fields 8 (ns0 prefix_facts, []) hostile1))) = true.
Proof. vm_compute. reflexivity. Qed.
Theorem C09_hostile1_refused_now :
  eval sandbox_facts t_true no_elems no_fields 8 (ns0 sandbox_facts, []) hostile1
  = (Err InvalidOperation,
     (ns0 sandbox_facts, [EvGetattr ORec "s"; EvCall (OFun "lower") 1; EvGetattr (OCall (OFun "lower") [OAttr ORec "s"]) "upper"])).
Proof. vm_compute. reflexivity. Qed.

(* field_equals(r, [<names>], ...) where the helper finds "a" and then "__class__" in its field list: "a" is read, the
   double-underscore name is refused with InvalidOperation before the record is touched *)
Definition helper_dunder := NCall (NName "field_equals") [NName "r"; NList [NConst true; NConst true]; NList [NConst true]] [].
Theorem C09_helper_dunder_refused_now :
  eval sandbox_facts t_true no_elems (fun _ => ["a"; "__class__"; "b"]) 8 (ns0 sandbox_facts, []) helper_dunder
  = (Err InvalidOperation, (ns0 sandbox_facts, [EvCall (OFun "field_equals") 3; EvHelperGetattr "a"])).
Proof. vm_compute. reflexivity. Qed.
(* witness: with helpers that getattr(r, <user string>) directly (the code before fix cdcae2a) the statement is false *)
Definition prefix_helper_facts : facts :=
  {| exposed_callables := exposed_callables sandbox_facts; plain_names := plain_names sandbox_facts;
     whitelist := whitelist sandbox_facts; guard_by_identity := true; helper_names := helper_names sandbox_facts;
     helpers_refuse_dunder := false |}.
Theorem C09_refuted_helper_reads_dunder :
  existsb (fun e => negb (ev_ok prefix_helper_facts e))
          (snd (snd (eval prefix_helper_facts t_true no_elems (fun _ => ["a"; "__class__"; "b"]) 8 (ns0 prefix_helper_facts, []) helper_dunder))) = true.
Proof. vm_compute. reflexivity. Qed.

(* non-vacuity: a hostile expression that reaches calls and attribute reads *)
Example C09_trace_nonempty :
  List.length (snd (snd (eval sandbox_facts t_true no_elems no_fields 8 (ns0 sandbox_facts, []) hostile1))) = 3.
Proof. vm_compute. reflexivity. Qed.
