(* C18 -- SQLite export keeps every record, independent of batch size.
   Statements only; every proof is `exact <lemma>` (or `reflexivity` on GENERATED facts / concrete witnesses).
   sqlite_config (FIELD_MAP, SQLITE_FIELD_MAP, RESERVED_FIELDS, default batch size), writer_code (the bodies of
   SqliteWriter.__init__/write/tx_cycle/flush/close as statement lists) and name_chars are the GENERATED facts
   of gen/Gen_sqlite.v.  A history is a list of events (EWrite record | EFlush | EReopen = close and open a new writer on the same
   file) over arbitrary descriptors;
   [final_db b h] is the database file after  with SqliteWriter(path, batch_size=b): <h>. *)
From Coq Require Import List Bool String Ascii ZArith NArith.
Import ListNotations.
From FR Require Import Sqlite Gen_sqlite Sqlite_proofs.
Open Scope list_scope.

Notation C := sqlite_config.

(* ---- the generated facts have the shape the proofs are about ---- *)
Theorem C18_generated_code : writer_code = canonical_code.
Proof. reflexivity. Qed.

(* the model's write / tx_cycle / flush / close / __init__ ARE the generated statement lists, interpreted *)
Theorem C18_generated_code_refines :
  (forall b, code_init C writer_code b = init C b) /\
  (forall w r, code_write_fn C writer_code w r = write C w r) /\
  (forall w, code_tx C writer_code w = tx_cycle C w) /\
  (forall w, code_flush_fn C writer_code w = flush C w) /\
  (forall w, code_close_fn C writer_code w = close C w) /\
  (forall w, code_reopen C writer_code w = reopen C w).
Proof. exact (code_refines C writer_code C18_generated_code). Qed.

Theorem C18_generated_value_maps : value_side_ok C = true.
Proof. reflexivity. Qed.

(* `desc not in self.descriptors_seen` = structural inequality to every descriptor seen (model: desc_eqb); probed on
   constructed pairs incl. definitions with the same identifier *)
Theorem C18_generated_descriptor_equality : descriptor_equality_structural = true.
Proof. reflexivity. Qed.

(* SqliteReader enumerates every table of the file (no further predicate in the sqlite_master query) and reads each *)
Theorem C18_generated_reader_lists_all_tables :
  reader_table_query = all_tables_query /\ reader_iterates_all_tables = true.
Proof. split; reflexivity. Qed.

(* ---- every write succeeds (no SQL error) on well-formed, case-distinct histories with 64-bit integers ---- *)
Theorem C18_every_write_succeeds : forall b h, b <> 0%N ->
  wf_history C h -> case_distinct C h -> ints_in_range h -> no_reserved_names h ->
  exists w, run C b h = Ok w /\ final_db C b h = Ok (spec_tables C h).
Proof. exact (every_write_succeeds C). Qed.

(* ---- one table per record type name (in order of first use), one column per field: the columns of a table
   are the fields of all descriptors of that name, first declaration first, added as descriptors gain fields ---- *)
Theorem C18_tables_and_columns : forall b h, b <> 0%N ->
  wf_history C h -> case_distinct C h -> ints_in_range h -> no_reserved_names h ->
  exists ts, final_db C b h = Ok ts /\
    map t_name ts = dedup_by self (type_names h) /\
    forall t, In t ts -> t_cols t = spec_cols C (t_name t) h.
Proof. exact (tables_and_columns C). Qed.

(* ---- one row per record, in write order; each value under its own field's column, NULL elsewhere ---- *)
Theorem C18_rows_in_order : forall b h, b <> 0%N ->
  wf_history C h -> case_distinct C h -> ints_in_range h -> no_reserved_names h ->
  exists ts, final_db C b h = Ok ts /\
    forall t, In t ts -> select_all t = map (spec_row C (t_cols t)) (records_named (t_name t) h).
Proof. exact (rows_in_order C). Qed.

(* ---- reading back: every table is read (as the type of its name) with as many records as were written ---- *)
Theorem C18_read_back_counts : forall b h, b <> 0%N ->
  wf_history C h -> case_distinct C h -> ints_in_range h -> no_reserved_names h ->
  exists ts, final_db C b h = Ok ts /\
    map fst (read_db C ts) = dedup_by self (type_names h) /\
    forall t, In t ts -> List.length (read_table C t) = List.length (records_named (t_name t) h).
Proof. exact (read_back_counts C). Qed.

(* ---- the stored content does not depend on the batch size (for EVERY history, failing ones included) ---- *)
Theorem C18_batch_independent : forall b1 b2 h, b1 <> 0%N -> b2 <> 0%N -> final_db C b1 h = final_db C b2 h.
Proof. exact (batch_independent C). Qed.

(* ---- at every point of every history another connection sees exactly the rows of the first
   [last_commit b h] events -- a prefix that ends at the LAST commit point (nothing yet | explicit flush |
   end of a writer session | every b-th record of a session | just before the first record of a descriptor new to the session); never part of a batch ---- *)
Theorem C18_other_connection_sees_commit_points : forall b h w, b <> 0%N -> run C b h = Ok w ->
  let c := last_commit b h in
  c <= List.length h /\
  (exists tc, content C (firstn c h) = Ok tc /\ forall name, raw_rows (visible w) name = raw_rows tc name) /\
  is_commit_point b h c /\
  (forall c', c < c' <= List.length h -> ~ is_commit_point b h c').
Proof. exact (other_connection C). Qed.

(* ---- after close everything is committed, nothing is pending, and the file holds the transaction-free content ---- *)
Theorem C18_close_commits_all : forall b h w, b <> 0%N -> finish C b h = Ok w ->
  Ok (visible w) = content C h /\ w_open w = false /\ c_pending (w_con w) = [] /\ c_in_tx (w_con w) = false.
Proof. exact (close_commits_all C). Qed.

(* ---- value fidelity: written value -> db_insert_record -> column affinity -> SqliteReader ---- *)
Theorem C18_value_fidelity :
  (forall s, expected_back C "string" (PText s) = Some (PText s)) /\
  (forall ty z, In ty int_types -> int64_ok z = true -> expected_back C ty (PInt z) = Some (PInt z)) /\
  (forall bits, is_finite bits = true ->
     expected_back C "float" (PFloat bits) = Some (PFloat (if (bits =? neg_zero)%N then 0%N else bits))) /\
  (forall b, expected_back C "bytes" (PBytes b) = Some (PBytes b)) /\
  (forall iso, In ":"%char (list_ascii_of_string iso) -> expected_back C "datetime" (PTime iso) = Some (PTime iso)) /\
  (forall ty, In ty ("string" :: "boolean" :: "float" :: "bytes" :: "datetime" :: int_types)%string ->
     expected_back C ty PNone = Some PNone) /\
  (forall b, expected_back C "boolean" (PBool b) = Some (PInt (if b then 1 else 0)%Z)) /\
  (forall ty txt, lookup ty (cfg_field_map C) = None -> expected_back C ty (POther txt) = Some (PText txt)) /\
  (forall ty z, lookup ty (cfg_field_map C) = None -> int64_ok z = true -> expected_back C ty (PInt z) = Some (PText (dec z))).
Proof. exact (value_fidelity C C18_generated_value_maps). Qed.

(* ---- accepted names cannot break the quoted identifiers ---- *)
Theorem C18_quoting_safe : forall s,
  forallb (fun x => existsb (Ascii.eqb x) (list_ascii_of_string name_chars)) (list_ascii_of_string s) = true ->
  ~ In """"%char (list_ascii_of_string s).
Proof. exact (alphabet_excludes (list_ascii_of_string name_chars) """"%char eq_refl). Qed.

(* ---- the statements above are FALSE without [case_distinct]: witnesses (known finding C18-case-insensitive-names) ---- *)
Definition ts0 : pval := PTime "2020-01-01T00:00:00+00:00".
Definition d_lower : desc := {| d_name := "t/x"; d_fields := [("string", "a")]%string |}.
Definition d_upper : desc := {| d_name := "T/X"; d_fields := [("string", "a")]%string |}.
Definition d_aA : desc := {| d_name := "t/y"; d_fields := [("string", "a"); ("string", "A")]%string |}.
Definition h_two_types : list event :=
  [EWrite {| r_desc := d_lower; r_vals := [PText "1"; PNone; PNone; ts0; PInt 1] |};
   EWrite {| r_desc := d_upper; r_vals := [PText "2"; PNone; PNone; ts0; PInt 1] |}].
Definition h_two_fields : list event :=
  [EWrite {| r_desc := d_aA; r_vals := [PText "1"; PText "2"; PNone; PNone; ts0; PInt 1] |}].

(* two type names that differ only in case share ONE table, which holds the rows of both *)
Theorem C18_refuted_case_type_names :
  wf_history C h_two_types /\ ints_in_range h_two_types /\
  dedup_by self (type_names h_two_types) = ["t/x"; "T/X"]%string /\
  exists t, final_db C 1000 h_two_types = Ok [t] /\ t_name t = "t/x"%string /\ List.length (t_rows t) = 2.
Proof.
  split; [exact (proj1 (hypsb_sound_wf_ints C h_two_types eq_refl))|].
  split; [exact (proj2 (hypsb_sound_wf_ints C h_two_types eq_refl))|].
  split; [reflexivity|]. eexists. split; [reflexivity|]. split; reflexivity.
Qed.

(* two field names that differ only in case cannot be written at all *)
Theorem C18_refuted_case_field_names :
  wf_history C h_two_fields /\ ints_in_range h_two_fields /\ final_db C 1000 h_two_fields = Err EDuplicateColumn.
Proof.
  split; [exact (proj1 (hypsb_sound_wf_ints C h_two_fields eq_refl))|].
  split; [exact (proj2 (hypsb_sound_wf_ints C h_two_fields eq_refl))|]. reflexivity.
Qed.

(* a type name that begins with "sqlite_" cannot be written at all (known finding C18-reserved-table-name) *)
Definition d_reserved : desc := {| d_name := "sqlite_stat"; d_fields := [("string", "a")]%string |}.
Definition h_reserved : list event :=
  [EWrite {| r_desc := d_reserved; r_vals := [PText "1"; PNone; PNone; ts0; PInt 1] |}].
Theorem C18_refuted_reserved_name :
  wf_history C h_reserved /\ case_distinct C h_reserved /\ ints_in_range h_reserved /\
  final_db C 1000 h_reserved = Err EReservedName.
Proof.
  split; [exact (proj1 (hypsb_sound_wf_ints C h_reserved eq_refl))|].
  split; [exact (case_distinctb_sound C h_reserved eq_refl)|].
  split; [exact (proj2 (hypsb_sound_wf_ints C h_reserved eq_refl))|]. reflexivity.
Qed.

(* ---- non-vacuity: a history with three descriptors (two of one name, the second gaining a field), mixed-case
   but case-distinct names, boundary integers, an explicit flush and a second writer session meets all hypotheses ---- *)
Definition d1 : desc := {| d_name := "Net/Conn"; d_fields := [("string", "host"); ("varint", "Port")]%string |}.
Definition d2 : desc := {| d_name := "Net/Conn"; d_fields := [("string", "host"); ("varint", "Port"); ("bytes", "payload")]%string |}.
Definition d3 : desc := {| d_name := "fs/file"; d_fields := [("path", "p"); ("float", "ratio"); ("datetime", "mtime")]%string |}.
Definition h_example : list event :=
  [EWrite {| r_desc := d1; r_vals := [PText "a"; PInt 9223372036854775807; PNone; PNone; ts0; PInt 1] |};
   EWrite {| r_desc := d3; r_vals := [POther "/tmp/x"; PFloat 4609434218613702656; ts0; PNone; PNone; ts0; PInt 1] |};
   EFlush;
   EReopen;
   EWrite {| r_desc := d2; r_vals := [PText "b"; PInt (-9223372036854775808); PBytes "xyz"; PNone; PNone; ts0; PInt 1] |};
   EWrite {| r_desc := d1; r_vals := [PNone; PInt 0; PNone; PNone; ts0; PInt 1] |}].
Example C18_hyp_satisfiable :
  wf_history C h_example /\ case_distinct C h_example /\ ints_in_range h_example /\ no_reserved_names h_example.
Proof. exact (hypsb_sound C h_example eq_refl). Qed.
