(* C12 -- Record equality and hashing obey the value-object contract.
   Statements only; every proof is `exact <lemma>` (or `reflexivity` on GENERATED facts / concrete witnesses).
   [facts_now] (gen/Gen_equality.v) is what the translator reads off flow/record/base.py on every run; the
   lemmas need [facts_ok facts_now = true], supplied as [eq_refl], so they stop checking when the code no
   longer passes the ignore set to both sides, no longer freezes deeply, no longer forwards excluded_fields
   to the members of a grouped record, no longer restores the ignore set in a `finally`, ...

   Reading guide: a record object is [PRec name fields values] (plain) or [PGrp name members] (grouped);
   [rec_eq ign a b] is `a == b` under the global ignore set [ign] ([None] = an exception), [rec_hash] is
   `hash(a)`; [py_eq] is Python's element comparison of packed values (model/Equality.v). *)
From Coq Require Import List Bool String ZArith.
Import ListNotations.
From FR Require Import Equality Gen_equality Equality_proofs.

(* the generated facts have the shape the proofs need *)
Theorem C12_generated_facts : facts_ok facts_now = true.
Proof. reflexivity. Qed.
Theorem C12_generated_hash_freezes_deep : hash_freezes_deep = true /\ f_hash_deep facts_now = hash_freezes_deep.
Proof. split; reflexivity. Qed.

(* ---- what == decides ---- *)
(* the values that take part are those whose slot name is not in the ignore set *)
Theorem C12_kept_spec : forall ign ns vs,
  kept facts_now ign ns vs = map snd (filter (fun nv => negb (mem (fst nv) ign)) (combine ns vs)).
Proof. intros. exact (kept_spec facts_now ign ns vs eq_refl). Qed.

(* two plain records are equal exactly when they have the same descriptor (name and declared fields) and their
   kept values are pairwise equal -- for EVERY descriptor-hash function H, colliding or not *)
Theorem C12_eq_spec : forall H ign n1 f1 v1 n2 f2 v2,
  rec_eq facts_now H ign (PRec n1 f1 v1) (PRec n2 f2 v2) = Some true <->
  (n1, f1) = (n2, f2) /\
  Forall2 (fun a b => py_eq facts_now H ign ign a b = true)
          (kept facts_now ign (slots facts_now f1) v1) (kept facts_now ign (slots facts_now f2) v2).
Proof. intros. exact (rec_eq_spec facts_now H eq_refl ign n1 f1 v1 n2 f2 v2). Qed.

(* in particular two descriptors that share their identifier (name, 32-bit hash) -- e.g.
   ("t/c", [stringlist a; string b]) and ("t/c", [string a; string listb]), whose hash inputs coincide -- never
   give equal records, whatever the values *)
Theorem C12_distinct_descriptors_unequal : forall H ign n1 f1 v1 n2 f2 v2, (n1, f1) <> (n2, f2) ->
  rec_eq facts_now H ign (PRec n1 f1 v1) (PRec n2 f2 v2) = Some false.
Proof. intros H ign n1 f1 v1 n2 f2 v2. exact (distinct_descriptors_unequal facts_now H eq_refl ign n1 f1 v1 n2 f2 v2). Qed.

(* grouped records: same name and pairwise equal members *)
Theorem C12_eq_spec_grouped : forall H ign n1 m1 n2 m2, forallb is_record m2 = true ->
  (rec_eq facts_now H ign (PGrp n1 m1) (PGrp n2 m2) = Some true <->
   n1 = n2 /\ Forall2 (fun a b => rec_eq facts_now H ign a b = Some true) m1 m2).
Proof. intros H ign n1 m1 n2 m2. exact (rec_eq_spec_grouped facts_now H eq_refl ign n1 m1 n2 m2). Qed.

(* ---- == and != never raise; != is the negation ---- *)
Theorem C12_eq_total : forall H ign a b, exists x, rec_eq facts_now H ign a b = Some x.
Proof. intros. exact (rec_eq_total facts_now H eq_refl ign a b). Qed.

Theorem C12_ne_negates : forall H ign a b,
  exists x, rec_eq facts_now H ign a b = Some x /\ rec_ne facts_now H ign a b = Some (negb x).
Proof. intros. exact (rec_ne_negates facts_now H eq_refl ign a b). Qed.

(* ---- reflexive and symmetric, for plain, nested and grouped records (any nesting), NaN included: the
   comparison of `r` with itself meets the very same float objects, and CPython's container comparison answers
   "equal" for identical objects.  (A rebuilt copy holds ANOTHER NaN object and is unequal: C12_nan below.) ---- *)
Theorem C12_eq_refl : forall H ign r, wf r = true -> is_record r = true -> rec_eq facts_now H ign r r = Some true.
Proof. intros H ign r. exact (rec_eq_refl facts_now H eq_refl ign r). Qed.

Theorem C12_eq_sym : forall H ign a b, wf a = true -> wf b = true -> is_record a = true -> is_record b = true ->
  rec_eq facts_now H ign a b = rec_eq facts_now H ign b a.
Proof. intros H ign a b. exact (rec_eq_sym facts_now H eq_refl ign a b). Qed.

(* ---- every record is hashable: the deep freeze leaves no list / dict behind at any depth ---- *)
Theorem C12_freeze_total : forall H il v, wf v = true -> frozen (freeze true true (dpack facts_now H il v)) = true.
Proof. intros H il v Hw. exact (key_frozen facts_now H v Hw il). Qed.

Theorem C12_hashable : forall H Hs ign r, wf r = true -> exists h, rec_hash facts_now H Hs ign r = Some h.
Proof. intros H Hs ign r. exact (rec_hashable facts_now H eq_refl Hs ign r). Qed.

(* ---- equal records have equal hashes; environment: Python's hash agrees with == on hashable values ---- *)
Theorem C12_eq_hash : forall H Hs,
  (forall a b, frozen a = true -> frozen b = true -> py_eq facts_now H [] [] a b = true -> Hs a = Hs b) ->
  forall ign a b, wf a = true -> wf b = true ->
    rec_eq facts_now H ign a b = Some true -> rec_hash facts_now H Hs ign a = rec_hash facts_now H Hs ign b.
Proof. intros H Hs Hyp ign a b. exact (rec_eq_hash facts_now H eq_refl Hs Hyp ign a b). Qed.

(* ---- the scoped override is undone however the scope ends -- normally, with an Exception, with a
   KeyboardInterrupt / SystemExit, by closing or collecting a suspended generator, by return / break / continue
   ([exit_kind]) -- and the way it ended is passed on unchanged (an exception keeps propagating); the body is
   arbitrary: it may set the ignore set again or open further scopes ---- *)
Theorem C12_scope_restored : forall xs (b : body) g,
  fst (with_ignore facts_now xs b g) = g /\ snd (with_ignore facts_now xs b g) = snd (b xs).
Proof. intros. exact (with_ignore_restores facts_now eq_refl xs b g). Qed.

Theorem C12_scope_restored_every_exit : forall k xs g g',
  with_ignore facts_now xs (fun _ => (g', k)) g = (g, k).
Proof. intros k xs g g'. destruct k; reflexivity. Qed.

Theorem C12_scope_restored_nested : forall xs ys (b : body) g,
  fst (with_ignore facts_now xs (with_ignore facts_now ys b) g) = g.
Proof. intros. exact (proj1 (with_ignore_restores facts_now eq_refl xs (with_ignore facts_now ys b) g)). Qed.

(* ---- witnesses ---- *)
Definition H0 : string -> list (string * string) -> Z := fun _ _ => 7%Z.
Definition nan_bits : N := 9221120237041090560%N.
Definition nan_rec (oid : Z) : pval :=
  PRec "t/f" [("float", "f"); ("float[]", "fl")]
       [PFloat nan_bits oid; PList [PFloat nan_bits oid]; PNone; PNone; PDt 0 0 0 false; PInt 1].
(* NaN: the record equals itself, a rebuilt copy (other float objects) is unequal -- consistent with
   "equal field values", since NaN != NaN *)
Example C12_nan : is_nan nan_bits = true /\
  rec_eq facts_now H0 [] (nan_rec 1) (nan_rec 1) = Some true /\
  rec_eq facts_now H0 [] (nan_rec 1) (nan_rec 2) = Some false.
Proof. repeat split. Qed.

(* the former identifier coincidence, under a hash that collides for ALL descriptors: unequal, also nested and grouped *)
Definition coll1 : pval := PRec "t/c" [("stringlist", "a"); ("string", "b")] [PNone; PStr "79"; PNone; PNone; PDt 0 0 0 false; PInt 1].
Definition coll2 : pval := PRec "t/c" [("string", "a"); ("string", "listb")] [PNone; PStr "79"; PNone; PNone; PDt 0 0 0 false; PInt 1].
Definition nest (r : pval) : pval := PRec "sp/n" [("record", "r"); ("record[]", "rs")] [r; PList [r]; PNone; PNone; PDt 0 0 0 false; PInt 1].
Example C12_coincidence_unequal :
  rec_eq facts_now H0 [] coll1 coll2 = Some false /\ rec_eq facts_now H0 [] coll2 coll1 = Some false /\
  rec_ne facts_now H0 [] coll1 coll2 = Some true /\
  rec_eq facts_now H0 [] (nest coll1) (nest coll2) = Some false /\
  rec_eq facts_now H0 [] (PGrp "g" [coll1]) (PGrp "g" [coll2]) = Some false /\
  rec_eq facts_now H0 [] coll1 coll1 = Some true.
Proof. repeat split. Qed.

(* non-vacuity: a nested / grouped record with a list, a dict and a command-like value meets the hypotheses,
   is hashable and equal to its copy, also when a differing field is ignored *)
Definition inner (s : string) : pval :=
  PRec "t/in" [("string", "s"); ("dictlist", "d")]
       [PStr s; PList [PDict [("6b", PInt 1); ("6c", PList [PInt 2])]]; PNone; PNone; PDt 5 0 0 false; PInt 1].
Definition outer (s : string) (t : Z) : pval :=
  PRec "t/out" [("record", "r"); ("record[]", "rs"); ("command", "c")]
       [inner s; PList [inner s; inner "00"]; PTuple [PTuple [PStr "6c73"; PList [PStr "2d6c"]]; PInt 0];
        PNone; PNone; PDt t 0 0 false; PInt 1].
Example C12_hyp_satisfiable :
  wf (PGrp "g" [outer "61" 1; inner "62"]) = true /\
  rec_eq facts_now H0 [] (PGrp "g" [outer "61" 1; inner "62"]) (PGrp "g" [outer "61" 1; inner "62"]) = Some true /\
  rec_eq facts_now H0 [] (outer "61" 1) (outer "61" 2) = Some false /\
  rec_eq facts_now H0 ["_generated"] (outer "61" 1) (outer "61" 2) = Some true /\
  rec_eq facts_now H0 ["_generated"] (outer "61" 1) (outer "62" 2) = Some false /\
  rec_eq facts_now H0 ["_generated"; "s"] (outer "61" 1) (outer "62" 2) = Some true /\
  frozen (hkey facts_now H0 [] (PGrp "g" [outer "61" 1; inner "62"])) = true.
Proof. repeat split. Qed.
