(* C15 -- Record composition follows the documented precedence rules.
   Statements only; every proof is `exact <lemma>` (proofs/Compose_proofs.v) or a computation on GENERATED facts.
   gen_facts / gen_ts / gen_reserved / gen_ts_extends_previous are regenerated from flow/record/base.py and
   stream.py on every run (gen/Gen_compose.v).  p_* is the model of the implementation's algorithms with those
   facts plugged in, ref_* the dictionary-based reference written from the property's wording
   (model/Compose.v).  Values are abstract (any type V): the composition code only moves them. *)
From Coq Require Import List Bool String NArith.
Import ListNotations.
From FR Require Import Compose Gen_compose Compose_proofs.
Open Scope string_scope.
Open Scope list_scope.

(* ---- the generated facts have the shape the proofs need (computed on what the code says now) ---- *)
Theorem C15_generated_facts : facts_ok gen_facts = true.
Proof. reflexivity. Qed.
Theorem C15_generated_timestamp_record :
  gen_ts = {| ts_desc_name := "record/timestamp"; ts_k1 := "ts"; ts_t1 := "datetime";
              ts_k2 := "ts_description"; ts_t2 := "string"; ts_select := "datetime";
              ts_meta := ["_source"; "_classification"; "_generated"] |}.
Proof. reflexivity. Qed.
(* reserved names are distinct; 'ts' and 'ts_description' are different names and not reserved; the slots copied
   from the original record onto every expansion output are exactly the reserved slots other than _version *)
Theorem C15_generated_reserved_distinct : tables_ok gen_reserved gen_ts = true.
Proof. reflexivity. Qed.

(* the model takes a record's descriptor to be the immutable list of its declared fields, and a group's view to be
   served by the routing table: get_all_fields() works on a copy of descriptor.fields (no operation changes what a
   descriptor reports), and GroupedRecord._asdict reads every key through the owning member in both branches *)
Theorem C15_generated_purity_shapes : gen_all_fields_copies = true /\ gen_group_asdict_reads_member = true.
Proof. split; reflexivity. Qed.

(* ---- memoisation: merge_record_descriptors (and through it extend_record / iter_timestamped_records) is cached on
        (descriptors, replace, name).  With the GENERATED shape of RecordDescriptor.__eq__ any sequence of calls through
        the cache returns exactly what the uncached function returns: the caches are keyed by the definition. ---- *)
Theorem C15_caches_keyed_by_definition :
  forall (R : Type) (f : mkey -> R) (ks : list mkey),
    run_cached (mkey_eqb gen_desc_eq_structural) f [] ks = map f ks.
Proof. intros R f ks. exact (merge_cache_transparent gen_desc_eq_structural R f ks eq_refl). Qed.

(* with equality of identifiers instead, demo/extra[(string aw)] and demo/extra[(wstring a)] are one key: the second
   merge returns the first's cached descriptor (field a is lost) *)
Definition w_base : dkey := ("demo/base", [("x", "varint")]).
Definition w_first : dkey := ("demo/extra", [("aw", "string")]).
Definition w_second : dkey := ("demo/extra", [("a", "wstring")]).
Definition w_merge (k : mkey) : list (string * string) := p_merge_descs gen_facts (fst (snd k)) (map snd (fst k)).
Theorem C15_cache_identifier_key_refuted :
  run_cached (mkey_eqb false) w_merge [] [([w_base; w_first], (false, None)); ([w_base; w_second], (false, None))]
  = [[("x", "varint"); ("aw", "string")]; [("x", "varint"); ("aw", "string")]] /\
  map w_merge [([w_base; w_first], (false, None)); ([w_base; w_second], (false, None))]
  = [[("x", "varint"); ("aw", "string")]; [("x", "varint"); ("a", "wstring")]].
Proof. split; reflexivity. Qed.

(* ---- merge_record_descriptors = the reference, for ALL lists of descriptors (replacement needs
        duplicate-free descriptors: duplicates inside one descriptor are C06's finding) ---- *)
Theorem C15_merge_order_and_precedence :
  forall replace (ds : list (list (string * string))),
    (replace = true -> Forall (fun d => NoDup (keys d)) ds) ->
    p_merge_descs gen_facts replace ds = ref_merge replace ds.
Proof. exact (merge_facts gen_facts eq_refl). Qed.

(* the reference says what the property says: every field of the first input in order, then the unseen fields
   of the later ones in order of first appearance; each entry (type, or type and value) is the one of the first
   input that has the name -- of the last one with replacement *)
Theorem C15_merge_wording :
  forall (P : Type) replace (l : list (string * P)) ls,
    NoDup (keys l) ->
    keys (ref_entries replace (l :: ls)) =
      keys l ++ filter (fun y => negb (mem y (keys l))) (dedup (List.concat (map keys ls)))
    /\ forall e, In e (ref_entries replace (l :: ls)) ->
         exists h, holder (fst e) (if replace then rev (l :: ls) else l :: ls) = Some h /\ assoc (fst e) h = Some (snd e).
Proof. intros P replace l ls H. exact (conj (keys_ref_entries_first replace l ls H) (In_ref_entries replace (l :: ls))). Qed.

(* ---- extend_record: descriptor AND values AND reserved slots = the reference, never raises ---- *)
Theorem C15_extend_values :
  forall (V : Type) (vver : V) (dflt : string -> V) replace name (r : @rec V) others,
    Forall (wf gen_reserved) (r :: others) ->
    p_extend gen_reserved vver dflt gen_facts replace name r others
    = Some (ref_extend gen_reserved vver replace name r others).
Proof. intros V vver dflt. exact (extend_facts gen_reserved vver dflt gen_ts gen_facts eq_refl eq_refl). Qed.

(* ---- per-timestamp expansion: one output per datetime field f, at any position and under any name:
        ts = the ORIGINAL record's value of f, ts_description = f's name, then every original field not called
        ts / ts_description with its own type and value, in order; the reserved slots are the ORIGINAL record's
        _source / _classification / _generated (whatever a fresh TimestampRecord carries in them: tsres) and the
        stamped _version; no datetime field => the record itself.
        Holds whether or not the loop extends the previously yielded record (gen_ts_extends_previous). ---- *)
Theorem C15_expand :
  forall (V : Type) (vver : V) (vname dflt : string -> V) (tsres : list V) (r : @rec V),
    List.length tsres = List.length gen_reserved -> wf gen_reserved r ->
    p_iter_timestamped gen_reserved vver vname dflt gen_ts tsres gen_facts gen_ts_extends_previous r
    = Some (ref_expand gen_reserved vver vname gen_ts r).
Proof.
  intros V vver vname dflt tsres.
  exact (expand_facts gen_reserved vver vname dflt gen_ts tsres gen_facts eq_refl eq_refl gen_ts_extends_previous).
Qed.

(* ---- grouped records: whatever the constructor builds from well-formed records and from groups built the
        same way (any nesting) holds the flattened members, routes every slot to the first member that has it,
        and its flat view is the union of the members' fields, first member winning ---- *)
Theorem C15_grouped_view :
  forall (V : Type) (dflt : string -> V) nm (args : list (@garg V)),
    Forall (arg_ok gen_reserved) args -> List.concat (map (@arg_members V) args) <> [] ->
    group_ok gen_reserved (p_group_make gen_reserved gen_group_attrs gen_facts nm args) /\
    gmembers (p_group_make gen_reserved gen_group_attrs gen_facts nm args) = List.concat (map (@arg_members V) args) /\
    p_group_view gen_reserved dflt gen_facts (p_group_make gen_reserved gen_group_attrs gen_facts nm args)
    = ref_group_view gen_reserved dflt nm (List.concat (map (@arg_members V) args)).
Proof. intros V dflt. exact (group_view_facts gen_reserved dflt gen_ts gen_group_attrs gen_facts eq_refl eq_refl). Qed.

(* in particular: a group built from nested groups has exactly the flat view of the group built from the flattened
   list of member records *)
Theorem C15_nested_group_flattens :
  forall (V : Type) (dflt : string -> V) nm (args : list (@garg V)),
    Forall (arg_ok gen_reserved) args -> List.concat (map (@arg_members V) args) <> [] ->
    p_group_view gen_reserved dflt gen_facts (p_group_make gen_reserved gen_group_attrs gen_facts nm args) =
    p_group_view gen_reserved dflt gen_facts
      (p_group_make gen_reserved gen_group_attrs gen_facts nm (map (@ARec V) (List.concat (map (@arg_members V) args)))).
Proof. intros V dflt. exact (nested_flatten_facts gen_reserved dflt gen_ts gen_group_attrs gen_facts eq_refl eq_refl). Qed.

(* setting through the group goes to the first member that has the slot *)
Theorem C15_grouped_set :
  forall (V : Type) (g : @group V) k v, group_ok gen_reserved g ->
    group_set gen_reserved g k v =
    mkGroup (gname g)
            (match first_index gen_reserved k (gmembers g) with
             | Some i => upd_nth i (fun m => rec_set gen_reserved m k v) (gmembers g)
             | None => gmembers g
             end) (gtab g) (gattr g).
Proof. intros V. exact (group_set_ref gen_reserved). Qed.

(* ---- originals unchanged: every function of the model is pure (it cannot modify its arguments; the harness
        checks the deep observation of the input objects before and after each call).  The one mutating
        operation, setattr through a group, touches exactly one slot of exactly one member. ---- *)
Theorem C15_originals_unchanged :
  forall (V : Type) (g : @group V) k v, group_ok gen_reserved g ->
    gtab (group_set gen_reserved g k v) = gtab g /\
    (forall j, nth_error (gmembers (group_set gen_reserved g k v)) j =
               match first_index gen_reserved k (gmembers g) with
               | Some i => if Nat.eqb i j then option_map (fun m => rec_set gen_reserved m k v) (nth_error (gmembers g) j)
                           else nth_error (gmembers g) j
               | None => nth_error (gmembers g) j
               end) /\
    (forall (m : @rec V) k', rec_get gen_reserved (rec_set gen_reserved m k v) k' =
                             if String.eqb k k' then option_map (fun _ => v) (rec_get gen_reserved m k')
                             else rec_get gen_reserved m k') /\
    (forall m : @rec V, desc_of (rec_set gen_reserved m k v) = desc_of m /\ rname (rec_set gen_reserved m k v) = rname m).
Proof. intros V. exact (group_set_frame gen_reserved). Qed.

(* ---- GroupedRecord._replace: every member keeps its own values; a named slot is replaced in the first member
        that has it; a name no member has => ValueError (None) ---- *)
Theorem C15_grouped_replace :
  forall (V : Type) (vver : V) (dflt : string -> V) (g : @group V) (kw : list (string * V)),
    Forall (wf gen_reserved) (gmembers g) -> NoDup (keys kw) ->
    p_group_replace gen_reserved vver dflt gen_group_attrs gen_facts g kw =
    option_map (fun ms => p_group_make gen_reserved gen_group_attrs gen_facts (gname g) (map (@ARec V) ms))
               (ref_group_replace gen_reserved vver (gmembers g) kw).
Proof. intros V vver dflt. exact (group_replace_facts gen_reserved vver dflt gen_ts gen_group_attrs gen_facts eq_refl eq_refl). Qed.

(* ---- Record._replace and RecordFieldRewriter change only the named fields ---- *)
Theorem C15_replace_project_only_named :
  forall (V : Type) (vver : V) (dflt : string -> V) (r : @rec V) (kw : list (string * V)) fields exclude,
    wf gen_reserved r -> NoDup (keys kw) ->
    p_rec_replace gen_reserved vver dflt gen_facts r kw = ref_replace gen_reserved vver r kw /\
    p_rewrite gen_reserved vver dflt gen_facts r fields exclude = Some (ref_project gen_reserved vver r fields exclude).
Proof. intros V vver dflt. exact (replace_project_facts gen_reserved vver dflt gen_ts gen_facts eq_refl eq_refl). Qed.

(* ---- init_from_record: the target's fields, each with the source's value when the source has the name ---- *)
Theorem C15_init_from_record :
  forall (V : Type) (vver : V) (dflt : string -> V) nm (d : list (string * string)) (r : @rec V),
    wf gen_reserved r -> (forall k, In k (keys d) -> ~ In k (res_names gen_reserved)) ->
    p_init_from_dict gen_reserved vver dflt gen_facts nm d (keys (asdict gen_reserved r)) (rec_get gen_reserved r) =
    Some (mkRec nm (map (fun e => (fst e, (snd e, match assoc (fst e) (rfields r) with
                                                  | Some tv => snd tv | None => dflt (snd e) end))) d)
                (restamp gen_reserved vver (rres r))).
Proof. intros V vver dflt. exact (init_from_record_facts gen_reserved vver dflt gen_ts gen_facts eq_refl eq_refl). Qed.

(* ---- the two behaviours before the repairs are refuted: the same model with the one fact flipped ---- *)
Definition w_ver : val := VTok 1%N.
Definition w_dflt (_ : string) : val := VNone.
Definition w_tsres : list val := [VNone; VNone; VTok 0%N; w_ver].
(* t/a(datetime a, string x, datetime ts) *)
Definition w_rec : @rec val :=
  mkRec "t/a" [("a", ("datetime", VTok 11%N)); ("x", ("string", VTok 12%N)); ("ts", ("datetime", VTok 13%N))]
        [VName "host1"; VNone; VTok 2%N; w_ver].
(* before 090c4ab the second output carried the first field's value (VTok 11) under ts_description = 'ts' *)
Theorem C15_expand_prefix_refuted :
  wf gen_reserved w_rec /\
  orecs_eqb (p_iter_timestamped gen_reserved w_ver VName w_dflt gen_ts w_tsres (unfix_expand gen_facts) gen_ts_extends_previous w_rec)
            (Some (ref_expand gen_reserved w_ver VName gen_ts w_rec)) = false /\
  option_map (map (fun o => rec_get gen_reserved o "ts"))
             (p_iter_timestamped gen_reserved w_ver VName w_dflt gen_ts w_tsres (unfix_expand gen_facts) gen_ts_extends_previous w_rec)
  = Some [Some (VTok 11%N); Some (VTok 11%N)].
Proof. exact (conj (wfb_wf val gen_reserved w_rec eq_refl) (conj eq_refl eq_refl)). Qed.

(* before 4a5ea6a the outputs carried the fresh TimestampRecord's _source / _classification / _generated
   (None, None, now = VTok 0) instead of the original record's ("host1", None, VTok 2) *)
Theorem C15_expand_metadata_prefix_refuted :
  orecs_eqb (p_iter_timestamped gen_reserved w_ver VName w_dflt (unfix_meta gen_ts) w_tsres gen_facts gen_ts_extends_previous w_rec)
            (Some (ref_expand gen_reserved w_ver VName gen_ts w_rec)) = false /\
  option_map (map (@rres val))
             (p_iter_timestamped gen_reserved w_ver VName w_dflt (unfix_meta gen_ts) w_tsres gen_facts gen_ts_extends_previous w_rec)
  = Some [[VNone; VNone; VTok 0%N; w_ver]; [VNone; VNone; VTok 0%N; w_ver]] /\
  map (@rres val) (ref_expand gen_reserved w_ver VName gen_ts w_rec)
  = [[VName "host1"; VNone; VTok 2%N; w_ver]; [VName "host1"; VNone; VTok 2%N; w_ver]].
Proof. exact (conj eq_refl (conj eq_refl eq_refl)). Qed.

(* [m/a(x='ax', p=1), m/b(x='bx', z='bz')]._replace(z=...) *)
Definition w_m1 : @rec val := mkRec "m/a" [("x", ("string", VTok 21%N)); ("p", ("varint", VTok 22%N))] [VNone; VNone; VTok 2%N; w_ver].
Definition w_m2 : @rec val := mkRec "m/b" [("x", ("string", VTok 23%N)); ("z", ("string", VTok 24%N))] [VNone; VNone; VTok 3%N; w_ver].
Definition w_grp : @group val := group_make gen_reserved "grp/x" [ARec w_m1; ARec w_m2].
(* before d74a9d7 the later member's shadowed field x got the first member's value (VTok 21) *)
Theorem C15_grouped_replace_prefix_refuted :
  Forall (wf gen_reserved) (gmembers w_grp) /\
  option_map (fun g => map (fun m => rec_get gen_reserved m "x") (gmembers g))
             (p_group_replace gen_reserved w_ver w_dflt gen_group_attrs (unfix_group_replace gen_facts) w_grp [("z", VTok 25%N)])
  = Some [Some (VTok 21%N); Some (VTok 21%N)] /\
  option_map (map (fun m => rec_get gen_reserved m "x")) (ref_group_replace gen_reserved w_ver (gmembers w_grp) [("z", VTok 25%N)])
  = Some [Some (VTok 21%N); Some (VTok 23%N)].
Proof. exact (conj (Forall_wfb val gen_reserved (gmembers w_grp) eq_refl) (conj eq_refl eq_refl)). Qed.

(* GroupedRecord('grp/o', [GroupedRecord('grp/i', [probe/user(name='alice', uid)])]): before 9fb63bd the outer group mapped
   'name' to the nested group OBJECT, whose own attribute `name` was served instead of the member's value (here: not a
   member value at all, None), while the flat view of the flattened members has 'alice' *)
Definition w_user : @rec val :=
  mkRec "probe/user" [("name", ("string", VName "alice")); ("uid", ("varint", VTok 31%N))] [VNone; VNone; VTok 2%N; w_ver].
Definition w_nested (F : facts) : @group val :=
  p_group_make gen_reserved gen_group_attrs F "grp/o" [AGrp (p_group_make gen_reserved gen_group_attrs F "grp/i" [ARec w_user])].
Theorem C15_nested_group_prefix_refuted :
  map (@fval val) (rfields (p_group_view gen_reserved w_dflt (unfix_nested gen_facts) (w_nested (unfix_nested gen_facts))))
  = [VNone; VTok 31%N] /\
  map (@fval val) (rfields (ref_group_view gen_reserved w_dflt "grp/o" [w_user])) = [VName "alice"; VTok 31%N] /\
  rec_eqb (p_group_view gen_reserved w_dflt gen_facts (w_nested gen_facts)) (ref_group_view gen_reserved w_dflt "grp/o" [w_user]) = true.
Proof. exact (conj eq_refl (conj eq_refl eq_refl)). Qed.

(* non-vacuity: concrete records and a nested group meet the hypotheses *)
Example C15_hyp_satisfiable :
  wf gen_reserved w_rec /\
  Forall (arg_ok gen_reserved) [ARec w_m1; AGrp (group_make gen_reserved "g" [ARec w_m2; ARec w_rec])] /\
  group_ok gen_reserved w_grp.
Proof.
  assert (H1 : wf gen_reserved w_m1) by (apply wfb_wf; reflexivity).
  assert (H2 : wf gen_reserved w_m2) by (apply wfb_wf; reflexivity).
  assert (H3 : wf gen_reserved w_rec) by (apply wfb_wf; reflexivity).
  split; [exact H3|]. split.
  - constructor; [exact H1|]. constructor; [|constructor]. split; [|discriminate].
    apply group_make_ok. constructor; [exact H2|constructor; [exact H3|constructor]].
  - apply group_make_ok. constructor; [exact H1|constructor; [exact H2|constructor]].
Qed.
