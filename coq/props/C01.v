(* C01 -- Record stream round-trip preserves every record exactly.
   Statements only.  [the_cfg] is GENERATED from packer.py/base.py/net/ip.py on every run. *)
From Coq Require Import List Bool NArith ZArith String.
From Coq Require Import Init.Byte.
Import ListNotations.
From FR Require Import Bytes Msgpack Msgpack_proofs Packer Stream Observe Gen_packer
                       Packer_proofs Values_proofs Stream_proofs Roundtrip_proofs Append_proofs.
Open Scope Z_scope.

(* the generated constants make a sane configuration (ext type fits a byte, sub-types distinct, magic short) *)
Theorem C01_generated_cfg_good : cfg_good the_cfg = true.
Proof. reflexivity. Qed.

(* what the writer packs does not depend on process configuration: Record._pack / GroupedRecord._pack leave a field out
   only when the caller passes excluded_fields (record comparison does, RecordPacker.pack_obj never does) and do not read
   the ignored-fields setting themselves -- so the model's pack_rec, which has no such parameter, is the function the
   writer runs under EVERY setting of FLOW_RECORD_IGNORE / set_ignored_fields_for_comparison *)
Theorem C01_generated_pack_is_config_free : pack_is_config_free = true.
Proof. reflexivity. Qed.

(* HEADLINE: for every descriptor-hash function, every nesting bound and EVERY sequence of items (plain, nested,
   grouped; any field types of the typed fragment; any values) that satisfies the executable side conditions
   [stream_okb] (values are of their declared type and inside msgpack's 32-bit length limits; within one item no two
   different descriptors share an identifier), reading what the writer wrote yields exactly the items written, in
   order, and ends cleanly. *)
Theorem C01_stream_roundtrip : forall (HASH : desc -> Z) (depth : nat) (items : list item),
  stream_okb the_cfg HASH depth [] items = true ->
  read_stream the_cfg HASH depth (write_stream the_cfg HASH items) = Read (map RItem items) CleanEOF.
Proof. intros. apply stream_roundtrip; [exact C01_generated_cfg_good|assumption]. Qed.

(* APPENDED STREAMS: several complete streams one after the other in one file (cat a.records b.records; a second writer
   appending to the file a first one left) read back as the concatenation of their records, in order, with a clean end:
   the later headers are skipped, repeated or changed definitions are taken as they come, and the records of a later
   part decode as they would on that part alone (decoding is monotone in the registry). *)
Lemma C01_header_ok : forall depth, (0 < depth)%nat -> body_ok the_cfg depth (XBin (MAGIC the_cfg)) = true.
Proof.
  intros depth Hd. unfold body_ok.
  assert (E : (xv_ok the_cfg (XBin (MAGIC the_cfg)) && mv_wf (lower the_cfg (XBin (MAGIC the_cfg))) &&
               (blen (enc (lower the_cfg (XBin (MAGIC the_cfg)))) <? 2 ^ 32)%N) = true) by (vm_compute; reflexivity).
  rewrite E. cbn [andb xdepth]. apply Nat.ltb_lt. exact Hd.
Qed.
Theorem C01_appended_streams : forall (HASH : desc -> Z) (depth : nat) (parts : list (list item)),
  parts <> [] -> (0 < depth)%nat ->
  Forall (fun items => stream_okb the_cfg HASH depth [] items = true) parts ->
  read_stream the_cfg HASH depth (List.concat (map (write_stream the_cfg HASH) parts)) = Read (map RItem (List.concat parts)) CleanEOF.
Proof.
  intros HASH depth parts Hne Hd Hall.
  exact (appended_roundtrip the_cfg HASH depth (C01_header_ok depth Hd) parts C01_generated_cfg_good Hne Hall).
Qed.

(* per value: every typed field value survives pack -> unpack under its declared type *)
Theorem C01_field_roundtrip : forall (HASH : desc -> Z) v reg t dp,
  val_okb the_cfg HASH reg t v = true -> (fdepth v < dp)%nat ->
  unpack_f the_cfg dp reg t (pack_f the_cfg HASH v) = Some v.
Proof. intros HASH v. exact (field_roundtrip the_cfg HASH v). Qed.

(* integers of any size and sign survive the ext envelope (msgpack range or VARINT sub-type) *)
Theorem C01_envelope_roundtrip : forall x, xv_ok the_cfg x = true ->
  forall d, (xdepth x < d)%nat -> raise_ the_cfg d (lower the_cfg x) = Some x.
Proof. exact (raise_lower the_cfg eq_refl). Qed.

(* non-vacuity: a sequence mixing two descriptors, a nested record, a typed list, a big integer, both address
   families, both path flavours, a grouped record -- satisfies the hypotheses *)
Definition toy_hash (d : desc) : Z := Z.of_nat (List.length (d_name d)) + 7 * Z.of_nat (List.length (d_fields d)).
Definition dA := Desc (B "test/a") [(B "varint", B "n"); (B "net.ipaddress", B "ip"); (B "path", B "p"); (B "string[]", B "l")].
Definition dB := Desc (B "b") [(B "record", B "r"); (B "datetime", B "t"); (B "digest", B "d")].
Definition gen0 := FDt (DtTuple 2023 5 6 7 8 9 123456).
Definition rA (n : Z) := Rec dA [FInt n; FIp 6 1; FPath (B "C:\x") 1; FList [FStr (B "a"); FStr (B "")]; FNone; FStr (B "s"); gen0; FInt 1].
Definition rB := Rec dB [FRec (rA (2 ^ 70)); FDt (DtIso (B "2020-01-01T00:00:00+02:00")); FDigest None None None; FNone; FNone; gen0; FInt 1].
Definition sample_items : list item := [IRec (rA (-5)); IRec rB; IGroup (B "g") [rA 1; rB]; IRec (rA 0)].
Example C01_hypotheses_satisfiable : stream_okb the_cfg toy_hash 12 [] sample_items = true.
Proof. vm_compute. reflexivity. Qed.
Example C01_sample_reads_back :
  read_stream the_cfg toy_hash 12 (write_stream the_cfg toy_hash sample_items) = Read (map RItem sample_items) CleanEOF.
Proof. exact (C01_stream_roundtrip toy_hash 12 sample_items C01_hypotheses_satisfiable). Qed.

(* the sample sequence, an empty stream and the sample again, one after the other in one file *)
Example C01_appended_sample_reads_back :
  read_stream the_cfg toy_hash 12 (List.concat (map (write_stream the_cfg toy_hash) [sample_items; []; sample_items]))
  = Read (map RItem (sample_items ++ sample_items)) CleanEOF.
Proof.
  rewrite (C01_appended_streams toy_hash 12 [sample_items; []; sample_items]).
  - cbn [List.concat app]. rewrite app_nil_r. reflexivity.
  - discriminate.
  - apply Nat.lt_0_succ.
  - repeat constructor; try exact C01_hypotheses_satisfiable.
Qed.

(* ---- statements that are FALSE of the faithful model (known findings; replayed on the implementation) ---- *)
(* a record whose _version was assigned another value comes back with the current version *)
Definition dV := Desc (B "v") [(B "varint", B "n")].
Theorem C01_refuted_version_restamped :
  read_stream the_cfg toy_hash 12 (write_stream the_cfg toy_hash [IRec (Rec dV [FInt 1; FNone; FNone; gen0; FInt 5])])
  = Read [RItem (IRec (Rec dV [FInt 1; FNone; FNone; gen0; FInt 1]))] CleanEOF.
Proof. vm_compute. reflexivity. Qed.
(* a list nested inside a stringlist/dictlist element comes back as a tuple (use_list=False) *)
Theorem C01_refuted_nested_list_becomes_tuple :
  unpack_f the_cfg 3 [] TStringlist (pack_f the_cfg toy_hash (FPy (YList [YList [YInt 1]]))) = Some (FPy (YList [YTuple [YInt 1]])).
Proof. reflexivity. Qed.
(* with the pre-fix representation (IP6_SMALL_PACKED = false) a small IPv6 address reads back as IPv4 *)
Definition cfg_ip6_int : cfg :=
  {| EXT := EXT the_cfg; SUB_RECORD := SUB_RECORD the_cfg; SUB_DESC := SUB_DESC the_cfg; SUB_DATETIME := SUB_DATETIME the_cfg;
     SUB_VARINT := SUB_VARINT the_cfg; SUB_GROUPED := SUB_GROUPED the_cfg; VERSION := VERSION the_cfg; MAGIC := MAGIC the_cfg;
     GUARD_COMPARES_DESC := GUARD_COMPARES_DESC the_cfg; IP6_SMALL_PACKED := false |}.
Theorem C01_refuted_small_ipv6_as_integer :
  unpack_f cfg_ip6_int 2 [] TIpAddr (pack_f cfg_ip6_int toy_hash (FIp 6 1)) = Some (FIp 4 1).
Proof. reflexivity. Qed.
Theorem C01_generated_ip6_small_packed : IP6_SMALL_PACKED the_cfg = true.
Proof. reflexivity. Qed.
