(* C07 -- Both selector engines compute the Python meaning of the expression.
   Statements only; every proof is `exact <lemma>` or a computation on GENERATED facts / concrete witnesses.

   interpreted R e  = RecordContextMatcher._eval transcribed (model/SelSem.v part 3), run from the namespace
                      `matches` builds, parametrised by the generated facts of gen/Gen_selsem.v and Gen_selector.v;
   py_eval R e      = the Python meaning of e over the record's field values (part 2);
   py_strict R e    = the same, with and/or evaluating every operand and the missing-field sentinel / operators
                      outside the language counting as "not defined";  all_defined R e := exists v, py_strict R e = Val v;
   compiled R e     = py_eval over the compiled engine's namespace with r wrapped. *)
From Coq Require Import List Bool String ZArith NArith.
Import ListNotations.
From FR Require Import SelAst Gen_selector Gen_selsem SelSem SelSem_proofs.
Open Scope string_scope.

(* ---- the facts OBSERVED on the live engines (witness expressions, logging probes, function identities) are the ones
   the model transcribes ---- *)
Theorem C07_generated_shapes :
  facts_ok gen_facts = true /\
  boolop_eager_bool_fold = true /\ boolop_swallows_nonetype_typeerror = true /\ binop_sentinel_guard = true /\
  call_allowed_by_identity = true /\ final_raise_typeerror = true /\ typematcher_shapes_ok = true /\
  forallb (fun root => in_list root compiled_extra_names) whitelist_roots = true /\
  compiled_roots_dynamic = true /\ fieldtype_roots_resolve = true /\
  evaluation_order_as_transcribed = true /\
  map fst data_names = ["None"; "True"; "False"; "str"; "repr"; "fields"; "any"; "all"; "lower"; "upper"; "name"; "names";
                        "get_type"; "field_contains"; "field_equals"; "field_regex"; "has_field"; "r"; "Type"].
Proof. repeat split; reflexivity. Qed.

Theorem C07_generated_operator_table :
  operator_table = [("Add", "add"); ("And", "and_"); ("BitAnd", "and_"); ("BitOr", "or_"); ("Div", "truediv");
                    ("Mod", "mod"); ("Mult", "mul"); ("Not", "not_"); ("Or", "or_")].
Proof. reflexivity. Qed.

Theorem C07_generated_comparators :
  comparator_kinds = ["Eq"; "Gt"; "GtE"; "In"; "Is"; "IsNot"; "Lt"; "LtE"; "NotEq"; "NotIn"] /\
  comparator_table = [("Eq", "eq"); ("Gt", "gt"); ("GtE", "ge"); ("Is", "is_"); ("IsNot", "is_not"); ("Lt", "lt");
                      ("LtE", "le"); ("NotEq", "ne")].
Proof. split; reflexivity. Qed.

(* ---- the property ---- *)
(* For EVERY record and EVERY expression of the language (in_language: and/or in boolean positions) whose generator
   variables are properly scoped (fresh_vars: no generator expression re-binds a variable of one that encloses it, the
   `for` clauses of one generator expression bind distinct names, no variable is a name of the selector namespace or
   of a field type -- sibling and nested generator expressions may use the same names), on which all sub-expressions
   are defined: the interpreted engine returns a value with the truth value of the Python meaning. *)
Theorem C07_interpreted : forall R e,
  in_language e = true -> fresh_vars e = true -> all_defined R e ->
  exists b, truth (interpreted R e) = Some b /\ truth (py_eval R e) = Some b.
Proof.
  intros R e HL HF [v H].
  destruct (interpreted_correct gen_facts R e v eq_refl HL HF H) as [[v' [E T]] P].
  exists (truthy v). unfold interpreted, py_eval. rewrite E, P. cbn. rewrite T. split; reflexivity.
Qed.

(* without and/or at the top the interpreted engine returns exactly the value Python computes *)
Theorem C07_interpreted_values : forall R e v,
  lang false e = true -> fresh_vars e = true -> py_strict R e = Val v ->
  interpreted R e = Val v /\ py_eval R e = Val v.
Proof. intros R e v HL HF H. exact (interpreted_values gen_facts R e v eq_refl HL HF H). Qed.

(* all_defined implies that plain Python evaluation is defined, with the same value *)
Theorem C07_strict_is_python : forall R e v, py_strict R e = Val v -> py_eval R e = Val v.
Proof. intros R e v H. exact (strict_is_python R whitelist_roots false true e std_data v H). Qed.

(* the compiled engine IS Python evaluation, in its own namespace (helpers, net, r wrapped, Type, builtins); the tie
   to CompiledSelector.match is the correspondence check *)
Theorem C07_compiled : forall R e,
  compiled R e = py_eval_gen R compiled_extra_names true typematcher_recursion_keeps_attrs false compiled_names e.
Proof. reflexivity. Qed.

(* ---- outside the language: rejected with an error ---- *)
(* node kinds without a branch (IfExp, Subscript, Dict, Set, ListComp, JoinedStr, Lambda ...) and unary operators
   absent from AST_OPERATORS: always an exception, from any namespace, whatever the operand *)
Theorem C07_rejects_outside : forall F R d e, outside_node e = true -> exists x, fst (interp F R d e) = Exc x.
Proof. exact rejects_outside. Qed.

(* binary operators absent from AST_OPERATORS (- ** // ^ << >> @): KeyError before any operand is evaluated *)
Theorem C07_rejects_outside_binop : forall R d op l r, lang_binop op = false ->
  fst (interp gen_facts R d (EBinOp op l r)) = Exc EKeyError.
Proof. intros R d op l r H. exact (rejects_binop gen_facts R d op l r eq_refl H). Qed.

(* after a successful evaluation the namespace is what `matches` built: generator variables do not leak *)
Theorem C07_generator_variables_do_not_leak : forall R e,
  in_language e = true -> fresh_vars e = true -> all_defined R e -> snd (interp gen_facts R std_data e) = std_data.
Proof. intros R e HL HF [v H]. exact (interpreted_state_restored gen_facts R e v eq_refl HL HF H). Qed.

(* ---- witnesses ---- *)
Definition cp (s : string) : str := string_to_str s.
Definition R1 : record :=
  {| rec_name := cp "test/c07";
     rec_fields := [("n", "varint", VInt 100); ("m", "varint", VInt 5); ("s", "string", VStr (cp "abc"));
                    ("t", "string", VStr (cp "x")); ("a", "varint[]", VList [VInt 1; VInt 2; VInt 3]); ("u", "varint", VNone)] |}.
Definition fld n := EAttr (EName "r") n.
Definition int z := EConst (VInt z).
Definition txt s := EConst (VStr (cp s)).

(* (r.n and r.m) == 5  with n = 100, m = 5: Python True, interpreter False (known finding) *)
Definition w_boolop := ECompare (EBoolOp And [fld "n"; fld "m"]) [(CEq, int 5)].
Theorem C07_refuted_boolop_as_operand :
  fresh_vars w_boolop = true /\ (exists v, py_strict R1 w_boolop = Val v) /\ in_language w_boolop = false /\
  py_eval R1 w_boolop = Val (VBool true) /\ interpreted R1 w_boolop = Val (VBool false).
Proof. repeat split; try reflexivity. eexists; reflexivity. Qed.

(* any(name == 1 for name in r.a): the variable shadows a name of the selector namespace (known finding) *)
Definition w_builtin := EQuant false (ECompare (EName "name") [(CEq, int 1)]) [Comp "name" (fld "a") []].
Theorem C07_refuted_generator_variable_builtin :
  in_language w_builtin = true /\ (exists v, py_strict R1 w_builtin = Val v) /\ fresh_vars w_builtin = false /\
  py_eval R1 w_builtin = Val (VBool true) /\ interpreted R1 w_builtin = Exc EInvalidOperation.
Proof. repeat split; try reflexivity. eexists; reflexivity. Qed.

(* all(any(x >= 1 for x in r.a) for x in r.a): the inner generator re-binds the variable of the enclosing one --
   fine in Python, refused by the interpreter's single namespace (same known finding) *)
Definition w_enclosing :=
  EQuant true (EQuant false (ECompare (EName "x") [(CGtE, int 1)]) [Comp "x" (fld "a") []]) [Comp "x" (fld "a") []].
Theorem C07_refuted_generator_variable_shadows_enclosing :
  in_language w_enclosing = true /\ (exists v, py_strict R1 w_enclosing = Val v) /\ fresh_vars w_enclosing = false /\
  py_eval R1 w_enclosing = Val (VBool true) /\ interpreted R1 w_enclosing = Exc EInvalidOperation.
Proof. repeat split; try reflexivity. eexists; reflexivity. Qed.

(* Type.string not in ['abc']  (fields s = 'abc', t = 'x'): the interpreter unrolls the typed matcher and asks whether
   SOME string field is not in the list (True); Python's `not in` negates the membership test (False).  Documented as
   interpreter-only; excluded by all_defined. *)
Definition w_typed := ECompare (EAttr (EName "Type") "string") [(CNotIn, EList [txt "abc"])].
Theorem C07_refuted_typed_matcher_left_of_not_in :
  in_language w_typed = true /\ py_strict R1 w_typed = Exc EUndefined /\ interpreted R1 w_typed = Val (VBool true).
Proof. repeat split; reflexivity. Qed.

(* the two repaired defects, visible as soon as a generated fact flips *)
Definition w_chain := ECompare (int 1) [(CLt, fld "n"); (CLt, int 3)].       (* 1 < r.n < 3, n = 100 *)
Theorem C07_prefix_refuted_first_link_only :
  in_language w_chain = true /\ fresh_vars w_chain = true /\ py_strict R1 w_chain = Val (VBool false) /\
  fst (interp {| chained := false; ifs_honoured := true; tm_keeps_attrs := true; genvars_scoped := true; binop_lookup_first := true |} R1 std_data w_chain) = Val (VBool true) /\
  interpreted R1 w_chain = Val (VBool false).
Proof. repeat split; reflexivity. Qed.

Definition w_ifs := EQuant false (EName "x") [Comp "x" (EList [int 1; int 2]) [ECompare (EName "x") [(CGt, int 5)]]].
Theorem C07_prefix_refuted_ifs_ignored :       (* any(x for x in [1, 2] if x > 5) *)
  in_language w_ifs = true /\ fresh_vars w_ifs = true /\ py_strict R1 w_ifs = Val (VBool false) /\
  fst (interp {| chained := true; ifs_honoured := false; tm_keeps_attrs := true; genvars_scoped := true; binop_lookup_first := true |} R1 std_data w_ifs) = Val (VBool true) /\
  interpreted R1 w_ifs = Val (VBool false).
Proof. repeat split; reflexivity. Qed.

(* Type.varint.denominator == 1 on a record whose only varint field sits in a nested record: the typed matcher must
   hand its attribute path on when _op recurses into `record` / `record[]` fields.  If the recursion drops it (generated
   fact false) the nested field's whole value (5) is compared with 1 instead of its attribute. *)
Definition R2 : record :=
  {| rec_name := cp "test/outer";
     rec_fields := [("s", "string", VStr (cp "top"));
                    ("sub", "record", VSub (cp "test/inner") [("num", "varint", VInt 5)])] |}.
Definition w_attrs := ECompare (EAttr (EAttr (EName "Type") "varint") "denominator") [(CEq, int 1)].
Theorem C07_prefix_refuted_attrs_dropped :
  in_language w_attrs = true /\ fresh_vars w_attrs = true /\ py_strict R2 w_attrs = Val (VBool true) /\
  fst (interp {| chained := true; ifs_honoured := true; tm_keeps_attrs := false; genvars_scoped := true; binop_lookup_first := true |} R2 std_data w_attrs) = Val (VBool false) /\
  interpreted R2 w_attrs = Val (VBool true) /\ compiled R2 w_attrs = Val (VBool true).
Proof. repeat split; reflexivity. Qed.

(* generator variables that stay in self.data (fact false): a later generator expression with the same variable, or the
   same generator expression entered again for the next element of an enclosing one, is refused.
     any(x == 1 for x in r.a) and any(x == 2 for x in r.a)        all(any(y >= x for y in r.a) for x in r.a) *)
Definition leaking := {| chained := true; ifs_honoured := true; tm_keeps_attrs := true; genvars_scoped := false; binop_lookup_first := true |}.
Definition w_reuse :=
  EBoolOp And [EQuant false (ECompare (EName "x") [(CEq, int 1)]) [Comp "x" (fld "a") []];
               EQuant false (ECompare (EName "x") [(CEq, int 2)]) [Comp "x" (fld "a") []]].
Definition w_nested :=
  EQuant true (EQuant false (ECompare (EName "y") [(CGtE, EName "x")]) [Comp "y" (fld "a") []]) [Comp "x" (fld "a") []].
Theorem C07_prefix_refuted_generator_variables_leak :
  in_language w_reuse = true /\ fresh_vars w_reuse = true /\ py_strict R1 w_reuse = Val (VBool true) /\
  fst (interp leaking R1 std_data w_reuse) = Exc EInvalidOperation /\ interpreted R1 w_reuse = Val (VBool true) /\
  in_language w_nested = true /\ fresh_vars w_nested = true /\ py_strict R1 w_nested = Val (VBool true) /\
  fst (interp leaking R1 std_data w_nested) = Exc EInvalidOperation /\ interpreted R1 w_nested = Val (VBool true).
Proof. repeat split; reflexivity. Qed.

(* the operator looked up after the missing-field guard (fact false): r.zz - 1 is False instead of an error *)
Theorem C07_prefix_refuted_binop_lookup_last :
  fst (interp {| chained := true; ifs_honoured := true; tm_keeps_attrs := true; genvars_scoped := true; binop_lookup_first := false |}
              R1 std_data (EBinOp Sub (fld "zz") (int 1))) = Val (VBool false) /\
  interpreted R1 (EBinOp Sub (fld "zz") (int 1)) = Exc EKeyError.
Proof. split; reflexivity. Qed.

(* a compiled namespace with `net` only (before 57f8e26): string('abc') == r.s is a NameError *)
Definition w_ftype := ECompare (ECall (EName "string") [txt "abc"] []) [(CEq, fld "s")].
Theorem C07_prefix_refuted_compiled_without_fieldtypes :
  in_language w_ftype = true /\ py_strict R1 w_ftype = Val (VBool true) /\ interpreted R1 w_ftype = Val (VBool true) /\
  py_eval_gen R1 ["net"] true true false compiled_names w_ftype = Exc ENameError /\
  compiled R1 w_ftype = Val (VBool true).
Proof. repeat split; reflexivity. Qed.

(* why all_defined speaks about EVERY operand: `False and r.n % 0 == 1` is False in Python, the interpreter evaluates
   the second operand too and raises -- not a finding, the hypothesis of the property *)
Definition w_eager := EBoolOp And [EConst (VBool false); ECompare (EBinOp Mod (fld "n") (int 0)) [(CEq, int 1)]].
Theorem C07_eager_needs_all_defined :
  in_language w_eager = true /\ fresh_vars w_eager = true /\ py_eval R1 w_eager = Val (VBool false) /\
  py_strict R1 w_eager = Exc EZeroDivision /\ interpreted R1 w_eager = Exc EZeroDivision.
Proof. repeat split; reflexivity. Qed.

(* the hypotheses are satisfiable by a non-trivial expression:
   not (1 < r.m < 100) or any(lower(c) == 'b' and x > 1 for x in r.a for c in r.s if x != 2) *)
Definition w_sat :=
  EBoolOp Or [EUnary Not (ECompare (int 1) [(CLt, fld "m"); (CLt, int 100)]);
              EQuant false (EBoolOp And [ECompare (ECall (EName "lower") [EName "c"] []) [(CEq, txt "b")];
                                         ECompare (EName "x") [(CGt, int 1)]])
                     [Comp "x" (fld "a") [ECompare (EName "x") [(CNotEq, int 2)]]; Comp "c" (fld "s") []]].
Example C07_hyp_satisfiable :
  in_language w_sat = true /\ fresh_vars w_sat = true /\ all_defined R1 w_sat /\
  interpreted R1 w_sat = Val (VBool true) /\ py_eval R1 w_sat = Val (VBool true).
Proof. repeat split; try reflexivity. eexists; reflexivity. Qed.
