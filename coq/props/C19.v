(* C19 -- Avro export preserves supported values and never corrupts silently.
   Statements only; every proof is `exact <lemma>` or a computation on GENERATED facts.
   avro_cfg (AVRO_TYPE_MAP, RECORD_TYPE_MAP, RESERVED_FIELDS, the datetime union, the doc-detection affixes, the
   reader's guard, EPOCH), avro_code (AvroWriter.write/flush/close as statement lists) and avro_schema_probes are
   the generated facts of gen/Gen_avro.v.  to_f32 (double -> float -> double on bit patterns) and of_int are
   oracles: the theorems hold for every such function. *)
From Coq Require Import List Bool String ZArith NArith.
Import ListNotations.
From FR Require Import Avro Gen_avro Avro_proofs.
Open Scope string_scope.

(* ---- the generated facts have the shape the proofs need ------------------------------------------------ *)

(* the model's descriptor_to_schema computes exactly the schema the real function builds, for one descriptor
   per whitelisted field type T and per T[], several names, field-less and many-field descriptors
   (union members and their order, logical type, namespace/name split at the last "/", doc, refusal) *)
Theorem C19_generated_schema_probes :
  forallb (fun p => opt_schema_eqb (descriptor_to_schema avro_cfg (fst p)) (snd p)) avro_schema_probes = true.
Proof. vm_compute. reflexivity. Qed.

(* AvroWriter.write: fix the descriptor and create schema + writer on the first record; refuse another
   descriptor BEFORE handing the record to fastavro; encode the record into a scratch buffer (DryRun) BEFORE it is
   appended to the block buffer; flush: only if there is a writer; close: a placeholder writer if nothing was
   written, flush, close the file, forget file and writer *)
Theorem C19_generated_writer_code :
  avro_code = {|
    code_write := [When CNoDesc [Do SetDesc; Do MakeSchema; Do ParseSchema; Do MakeWriter]; When CDescDiffers [Do RaiseMixed];
                   Do DryRun; Do WriterWrite];
    code_flush := [When CHasWriter [Do WriterFlush]];
    code_close := [When CHasFp [When CNoWriter [Do MakeEmptyWriter]; Do CallFlush]; When CHasFpNotStdout [Do FpClose];
                   Do SetFpNone; Do SetWriterNone] |}.
Proof. reflexivity. Qed.

Theorem C19_generated_facts :
  cfg_doc_ok avro_cfg = true                                     (* doc = JSON of the descriptor; detection affixes *)
  /\ cfg_guard avro_cfg = 4294967295%Z /\ cfg_epoch_us avro_cfg = 0%Z
  /\ cfg_datetime_union avro_cfg = [ADict "long" (Some "timestamp-micros"); ADict "null" None]
  /\ cfg_null_branch avro_cfg = APrim "null"
  /\ map fst (cfg_avro_map avro_cfg)
     = ["boolean"; "datetime"; "filesize"; "uint16"; "uint32"; "float"; "string"; "unix_file_mode"; "varint"; "wstring";
        "uri"; "digest"; "bytes"]
  /\ lookup "uint16" (cfg_avro_map avro_cfg) = Some "int" /\ lookup "uint32" (cfg_avro_map avro_cfg) = Some "int"
  /\ lookup "varint" (cfg_avro_map avro_cfg) = Some "long" /\ lookup "float" (cfg_avro_map avro_cfg) = Some "float".
Proof. repeat split; reflexivity. Qed.

(* ---- the descriptor is carried -------------------------------------------------------------------------- *)

(* whatever schema descriptor_to_schema builds for a descriptor with JSON-plain names (and, when it has no
   fields, a name without "." that neither starts nor ends with "/"), the reader rebuilds the same descriptor
   from the schema as fastavro stores it *)
Theorem C19_descriptor_carried : forall d sch,
  wf_descriptor d = true -> descriptor_to_schema avro_cfg d = Some sch ->
  schema_to_descriptor avro_cfg (stored_schema sch) = Some d.
Proof. intros d sch. exact (descriptor_carried avro_cfg d sch eq_refl). Qed.

(* the detection condition (doc starts with bracket-quote, ends with three closing brackets) holds for the
   printed descriptor exactly when it has at least one field; the text of a field-less descriptor ends with
   an empty list and one closing bracket, so it takes the fallback path (covered above) *)
Theorem C19_doc_detected_iff_fields : forall d,
  doc_detected avro_cfg (json_of_desc d) = negb (match d_fields d with [] => true | _ => false end)
  /\ (plain_desc d = true -> parse_desc (json_of_desc d) = Some d).
Proof.
  intros d. split; [|exact (parse_json_of_desc d)].
  unfold doc_detected. destruct (doc_detection_printed d) as [A [B C]].
  change (cfg_doc_prefix avro_cfg) with "[""". change (cfg_doc_suffix avro_cfg) with "]]]".
  rewrite A, B, C. reflexivity.
Qed.

(* ---- one field -------------------------------------------------------------------------------------------- *)

(* for every field type the adapter maps (union u) and every value a typed record can hold: fastavro accepts it
   iff the mapping can represent it, and what it stores reads back as the value itself -- a float rounded to
   single precision, a timestamp as the same instant in UTC (an error when that instant is outside year 1..9999) *)
Theorem C19_field_roundtrip : forall (to_f32 : N -> N) (of_int : Z -> N) t u v,
  field_union avro_cfg t = Some u -> well_typed t v = true ->
  match enc_field to_f32 of_int u v with
  | FOk s => representable avro_cfg t v = true
             /\ load u s = (if time_ok v then Some (normalise to_f32 v) else None)
  | FBad _ _ => representable avro_cfg t v = false
  end.
Proof. intros to_f32 of_int t u v H. exact (field_sound to_f32 of_int t u H v). Qed.

(* ---- one write -------------------------------------------------------------------------------------------- *)

(* never a different value: a write that is ACCEPTED (by a writer that holds the schema of d) appended exactly one
   record, and that record decodes to the written values (normalised) *)
Theorem C19_never_altered : forall to_f32 of_int d sch st st' r,
  descriptor_to_schema avro_cfg d = Some sch -> est d sch st ->
  well_typed_rec avro_cfg d (r_vals r) = true ->
  step to_f32 of_int avro_cfg avro_code st (OWrite r) = (st', Accepted) ->
  exists l, st' = add_pending st (IRec l)
            /\ desc_eqb d (r_desc r) = true /\ representable_rec avro_cfg d (r_vals r) = true
            /\ load_fields (map snd (s_fields sch)) l
               = (if times_ok (r_vals r) then Some (map (normalise to_f32) (r_vals r)) else None).
Proof. exact write_accepted_faithful. Qed.

(* unmapped field type: refused when the schema is built; whatever follows (writes of any record, flushes), every
   write is refused too; the closed file holds no record *)
Theorem C19_refuses_unmapped_type : forall to_f32 of_int r ops,
  descriptor_to_schema avro_cfg (r_desc r) = None ->
  step to_f32 of_int avro_cfg avro_code w_init (OWrite r) = (stuck (r_desc r), Refused EUnsupported)
  /\ exists outs, session to_f32 of_int avro_cfg avro_code (OWrite r :: ops)
                   = (File (Some empty_schema) [], Refused EUnsupported :: outs, Accepted)
                  /\ map is_accepted outs = map (fun o => match o with OFlush => true | OWrite _ => false end) ops.
Proof. intros to_f32 of_int r ops H. split; [exact (write_unmapped to_f32 of_int r H)|exact (session_unmapped to_f32 of_int r ops H)]. Qed.

(* a value the mapping cannot represent -- an integer outside the range of the Avro type AVRO_TYPE_MAP gives the
   field (uint16/uint32 -> 32-bit int, varint/filesize/unix_file_mode -> 64-bit long), text without a UTF-8
   encoding, a digest: the record is refused and the writer's state (buffer, file) is UNCHANGED *)
Theorem C19_refuses_out_of_range_integer : forall to_f32 of_int d sch st r,
  descriptor_to_schema avro_cfg d = Some sch -> est d sch st -> desc_eqb d (r_desc r) = true ->
  well_typed_rec avro_cfg d (r_vals r) = true -> representable_rec avro_cfg d (r_vals r) = false ->
  exists e, step to_f32 of_int avro_cfg avro_code st (OWrite r) = (st, Refused e).
Proof. exact write_unrepresentable. Qed.
Theorem C19_integer_ranges :
  (forall t a z, lookup t (cfg_avro_map avro_cfg) = Some a -> representable avro_cfg t (VInt z) = int_range_of a z)
  /\ representable avro_cfg "uint32" (VInt 2147483647) = true /\ representable avro_cfg "uint32" (VInt 2147483648) = false
  /\ representable avro_cfg "varint" (VInt 9223372036854775807) = true
  /\ representable avro_cfg "varint" (VInt 9223372036854775808) = false
  /\ representable avro_cfg "varint" (VInt (-9223372036854775808)) = true
  /\ representable avro_cfg "filesize" (VInt (-9223372036854775809)) = false.
Proof. split; [exact representable_int|repeat split; reflexivity]. Qed.

(* an object whose _packdict() lacks the fields of its descriptor (a GroupedRecord: the dict is empty) is refused and
   nothing changes: the union of a datetime field -- every record has _generated -- has no "null" STRING member, so
   fastavro finds no value and no default *)
Theorem C19_refuses_missing_values : forall to_f32 of_int d sch st r,
  descriptor_to_schema avro_cfg d = Some sch -> est d sch st -> desc_eqb d (r_desc r) = true ->
  r_vals r = map (fun _ => VMissing) (all_fields avro_cfg d) ->
  exists e, step to_f32 of_int avro_cfg avro_code st (OWrite r) = (st, Refused e).
Proof. exact write_all_missing. Qed.

(* a second record type in one file: refused, the writer's state (and so the file) is unchanged *)
Theorem C19_refuses_second_descriptor : forall to_f32 of_int d sch st r,
  est d sch st -> desc_eqb d (r_desc r) = false ->
  step to_f32 of_int avro_cfg avro_code st (OWrite r) = (st, Refused EMixed).
Proof. exact write_second_descriptor. Qed.

(* and everything the mapping can represent is accepted *)
Theorem C19_accepts_representable : forall to_f32 of_int d sch st r,
  descriptor_to_schema avro_cfg d = Some sch -> est d sch st -> desc_eqb d (r_desc r) = true ->
  well_typed_rec avro_cfg d (r_vals r) = true -> representable_rec avro_cfg d (r_vals r) = true ->
  exists l, step to_f32 of_int avro_cfg avro_code st (OWrite r) = (add_pending st (IRec l), Accepted)
            /\ load_fields (map snd (s_fields sch)) l
               = (if times_ok (r_vals r) then Some (map (normalise to_f32) (r_vals r)) else None).
Proof. exact write_representable. Qed.

(* ---- whole sessions --------------------------------------------------------------------------------------- *)

(* ROUND TRIP: any number of representable records of one mappable descriptor, written and closed (no explicit
   flush needed), read back with AvroReader as the same descriptor and the same values, normalised *)
Theorem C19_roundtrip : forall to_f32 of_int r0 rs sch,
  let d := r_desc r0 in
  wf_descriptor d = true -> descriptor_to_schema avro_cfg d = Some sch ->
  Forall (fun r => r_desc r = d /\ well_typed_rec avro_cfg d (r_vals r) = true
                   /\ representable_rec avro_cfg d (r_vals r) = true /\ times_ok (r_vals r) = true) (r0 :: rs) ->
  exists f,
    session to_f32 of_int avro_cfg avro_code (map OWrite (r0 :: rs)) = (f, map (fun _ => Accepted) (r0 :: rs), Accepted)
    /\ read_flow of_int avro_cfg f = FlowRead d (map (fun r => map (normalise to_f32) (r_vals r)) (r0 :: rs)) REnd.
Proof. exact roundtrip_clean. Qed.

(* THE GENERAL SESSION, full statement: writes of any records (unrepresentable ones and other descriptors
   anywhere) and flushes in any order, then close.  Every operation gets the decision the property demands, and
   the file reads back as exactly the representable records of d, normalised.  (Only hypothesis on values besides
   typedness: accepted instants lie within year 1..9999 -- known finding below.) *)
Theorem C19_roundtrip_with_refusals : forall to_f32 of_int r0 rest sch,
  let d := r_desc r0 in
  let ops := OWrite r0 :: rest in
  wf_descriptor d = true -> descriptor_to_schema avro_cfg d = Some sch ->
  (forall r, In (OWrite r) ops -> desc_eqb d (r_desc r) = true -> well_typed_rec avro_cfg d (r_vals r) = true) ->
  forallb (fun r => times_ok (r_vals r)) (accepted avro_cfg d ops) = true ->
  exists f outs,
    session to_f32 of_int avro_cfg avro_code ops = (f, outs, Accepted)
    /\ map is_accepted outs = map (expected_decision avro_cfg d) ops
    /\ read_flow of_int avro_cfg f
       = FlowRead d (map (fun r => map (normalise to_f32) (r_vals r)) (accepted avro_cfg d ops)) REnd
    /\ exists its, f = File (Some sch) its.
Proof. exact session_sound. Qed.

(* ---- the full statements are FALSE of the faithful model: witnesses (replayed on the implementation) ------- *)
Definition id32 (x : N) : N := x.
Definition noint (z : Z) : N := 0%N.
Definition res_none : list value := [VNone; VNone; VTime 1588660193123456 19807000000; VInt 1].
Definition d_ab : descriptor := Desc "test/a" [("string", "a"); ("uint32", "b")].

(* (repaired in the repository, commit 15e4336) WITHOUT the dry run -- code_without_dry_run is AvroWriter.write as it
   was -- a refused record left its first fields in the block buffer and a record accepted afterwards was decoded
   from the wrong offset (model: RCorrupt; the implementation yielded a record a='two' b=4 that nobody wrote); with
   the generated code the same session reads back exactly the accepted record *)
Theorem C19_without_dry_run_refuted :
  let ops := w_ops_refused_then_accepted in
  (forall r, In (OWrite r) ops -> well_typed_rec avro_cfg d_ab (r_vals r) = true)
  /\ snd (fst (session id32 noint avro_cfg code_without_dry_run ops)) = [Refused EValue; Accepted]
  /\ read_flow noint avro_cfg (fst (fst (session id32 noint avro_cfg code_without_dry_run ops))) = FlowRead d_ab [] RCorrupt
  /\ snd (fst (session id32 noint avro_cfg avro_code ops)) = [Refused EValue; Accepted]
  /\ read_flow noint avro_cfg (fst (fst (session id32 noint avro_cfg avro_code ops)))
     = FlowRead d_ab [[VText [2; 2; 2; 2]%N; VInt 7; VNone; VNone; VTime 1588660193123456 0; VInt 1]] REnd.
Proof. exact refuted_without_dry_run. Qed.

(* (formerly a finding, repaired in the repository: flush() before the first write installed a placeholder
   writer) flush() before the first write does nothing: a session with leading flushes is the session without *)
Theorem C19_initial_flush_harmless : forall to_f32 of_int ops,
  step to_f32 of_int avro_cfg avro_code w_init OFlush = (w_init, Accepted)
  /\ session to_f32 of_int avro_cfg avro_code (OFlush :: ops)
     = (fst (fst (session to_f32 of_int avro_cfg avro_code ops)),
        Accepted :: snd (fst (session to_f32 of_int avro_cfg avro_code ops)),
        snd (session to_f32 of_int avro_cfg avro_code ops)).
Proof. intros to_f32 of_int ops. split; [exact (flush_before_write_noop to_f32 of_int)|exact (session_leading_flush to_f32 of_int ops)]. Qed.

(* (1) a timestamp whose UTC instant lies outside year 1..9999 (0001-01-01T00:00+14:00) is accepted and stored as
   the right number of microseconds, but no Python reader can rebuild it: reading fails at that record *)
Theorem C19_timestamp_out_of_python_range_refuted :
  let d := Desc "test/t" [("datetime", "ts")] in
  let r := Rec d ([VTime (-62135647200000000) 50400000000] ++ res_none) in
  well_typed_rec avro_cfg d (r_vals r) = true /\ representable_rec avro_cfg d (r_vals r) = true
  /\ snd (fst (session id32 noint avro_cfg avro_code [OWrite r])) = [Accepted]
  /\ read_flow noint avro_cfg (fst (fst (session id32 noint avro_cfg avro_code [OWrite r]))) = FlowRead d [] RFail.
Proof. exact refuted_timestamp. Qed.

(* (2) digest is in AVRO_TYPE_MAP, but its packed form (a 3-tuple) is refused by fastavro: "records over the mapped
   types are accepted" is false for digest fields *)
Theorem C19_digest_unwritable_refuted :
  let d := Desc "test/d" [("digest", "dg")] in
  let r := Rec d ([VDigest] ++ res_none) in
  mappable avro_cfg d = true /\ well_typed_rec avro_cfg d (r_vals r) = true
  /\ snd (fst (session id32 noint avro_cfg avro_code [OWrite r])) = [Refused EValue].
Proof. exact refuted_digest. Qed.

(* non-vacuity: the hypotheses of the session theorem are satisfiable (refusals anywhere, no flush needed) *)
Example C19_hyp_satisfiable :
  let r1 := Rec d_ab ([VText [111]%N; VInt 1] ++ res_none) in
  let r2 := Rec d_ab ([VText [116]%N; VInt 2147483648] ++ res_none) in
  let ops := [OWrite r1; OWrite r2; OWrite r1; OFlush; OWrite r2] in
  wf_descriptor d_ab = true /\ mappable avro_cfg d_ab = true
  /\ forallb (fun r => well_typed_rec avro_cfg d_ab (r_vals r)) [r1; r2] = true
  /\ forallb (fun r => times_ok (r_vals r)) (accepted avro_cfg d_ab ops) = true
  /\ List.length (accepted avro_cfg d_ab ops) = 2%nat.
Proof. repeat split; reflexivity. Qed.

(* ---- reader side, and stability of the normal form ------------------------------------------------------- *)

(* an integer in a datetime column (files whose schema has no logical type): up to the generated guard 0xFFFFFFFF
   it is a number of seconds, above it a number of microseconds since EPOCH *)
Theorem C19_reader_guard : forall of_int z,
  ((0 <= z <= 4294967295)%Z -> flow_convert of_int avro_cfg "datetime" (VInt z) = Some (VTime (z * 1000000) 0))
  /\ ((4294967295 < z <= py_max_us)%Z -> flow_convert of_int avro_cfg "datetime" (VInt z) = Some (VTime z 0)).
Proof. intros of_int z. split; [exact (reader_guard_seconds of_int z)|exact (reader_guard_micros of_int z)]. Qed.

(* exporting what was read back changes nothing more (needs: rounding to single is idempotent) *)
Theorem C19_export_idempotent : forall to_f32 : N -> N, (forall x, to_f32 (to_f32 x) = to_f32 x) ->
  forall v, normalise to_f32 (normalise to_f32 v) = normalise to_f32 v.
Proof. exact normalise_idem. Qed.
