(* C08 -- Comparisons on a field the record lacks are false and never raise.
   Statements only; every proof is `exact <lemma>`.  The sentinel's method table, the In/NotIn guards and
   the comparator table are the GENERATED facts of gen/Gen_selector.v. *)
From Coq Require Import List Bool String.
Import ListNotations.
From FR Require Import Cmp Gen_selector Cmp_proofs.

(* the generated facts have the shape the proofs need (checked by computation on what the code says now) *)
Theorem C08_generated_table_all_false : all_false none_object = true.
Proof. reflexivity. Qed.
Theorem C08_generated_guards : guard_ok guard_in = true /\ guard_ok guard_notin = true.
Proof. split; reflexivity. Qed.
Theorem C08_generated_comparators :
  comparator_table =
  [("Eq", "eq"); ("Gt", "gt"); ("GtE", "ge"); ("Is", "is_"); ("IsNot", "is_not"); ("Lt", "lt");
   ("LtE", "le"); ("NotEq", "ne")]%string.
Proof. reflexivity. Qed.

(* Interpreted engine: for EVERY comparison operator, either position of the missing operand, and every
   other operand whose own comparison methods answer NotImplemented or False for a foreign argument
   (all builtin kinds; lists and tuples of anything; another missing field), the comparison is False. *)
Theorem C08_interpreted_missing_comparison_false :
  forall op sd a, wb_operand a = true ->
    interp_cmp none_object guard_in guard_notin op (fst (place sd a)) (snd (place sd a)) = RVal false.
Proof. intros op sd a H. exact (interp_missing_false none_object guard_in guard_notin op sd a eq_refl eq_refl eq_refl H). Qed.

(* Compiled engine: the same for every shape outside the known-finding classes (compiled_ok). *)
Theorem C08_compiled_missing_comparison_false_partial :
  forall op sd a, compiled_ok op sd a = true ->
    compiled_cmp none_object op (fst (place sd a)) (snd (place sd a)) = RVal false.
Proof. intros op sd a H. exact (compiled_missing_false none_object op sd a eq_refl H). Qed.

(* The full statement for the compiled engine is FALSE of the faithful model: witnesses (replayed on the
   implementation by the check as known findings). *)
Definition plain_scalar : other := Other NotImpl NotImpl NotImpl false (CRes Raises).
Definition plain_list1 : other := Other NotImpl NotImpl NotImpl false (CSeq [EOther plain_scalar]).
Theorem C08_compiled_refuted_notin_list :      (* r.zz not in [1]  ==> True *)
  compiled_cmp none_object NotIn OSent (OOth plain_list1) = RVal true.
Proof. reflexivity. Qed.
Theorem C08_compiled_refuted_notin_missing :   (* 1 not in r.zz  ==> True *)
  compiled_cmp none_object NotIn (OOth plain_scalar) OSent = RVal true.
Proof. reflexivity. Qed.
Theorem C08_compiled_refuted_in_text :         (* r.zz in "abc"  ==> TypeError *)
  compiled_cmp none_object In_ OSent (OOth plain_scalar) = RTypeError false.
Proof. reflexivity. Qed.
Theorem C08_compiled_refuted_in_seq_with_missing :   (* r.zz in (r.yy, 1) ==> True (identity) *)
  compiled_cmp none_object In_ OSent (OOth (Other NotImpl NotImpl NotImpl false (CSeq [ESent]))) = RVal true.
Proof. reflexivity. Qed.
(* an operand whose class defines __eq__ (returning False for foreign values) but inherits __ne__:
   net.ipaddress / net.ipnetwork / command on the LEFT of != *)
Theorem C08_refuted_ne_custom_eq_left : forall gi gn,
  interp_cmp none_object gi gn NotEq (OOth (Other (Ret false) (Ret true) NotImpl false (CRes Raises))) OSent = RVal true.
Proof. reflexivity. Qed.

(* non-vacuity: concrete operands meet the hypotheses *)
Example C08_hyp_satisfiable :
  wb_operand (OOth plain_list1) = true /\ compiled_ok In_ SLeft (OOth plain_list1) = true /\ wb_operand OSent = true.
Proof. repeat split. Qed.

(* boolean contexts neither raise nor change the comparison's value *)
Theorem C08_contexts : forall interpreted c,
  in_ctx interpreted c (RVal false) = RVal (match c with CNot => true | _ => false end).
Proof. exact in_ctx_false. Qed.

(* helper functions skip missing fields: the loop over field names gives the same answer as the loop over
   the fields the record has, and is an `exists` over present fields *)
Theorem C08_helpers_skip : forall (V : Type) (getf : string -> option V) test fs,
  helper_loop getf test fs = helper_loop getf test (filter (has getf) fs)
  /\ helper_loop getf test fs = existsb (fun f => match getf f with Some v => test v | None => false end) fs.
Proof. intros. split; [apply helper_loop_skips|apply helper_loop_spec]. Qed.

(* filtering a source whose selector never raises: nothing aborts, output = the records that satisfy *)
Theorem C08_filter_mixed_stream : forall (R : Type) (sel : R -> res) rs,
  Forall (fun r => exists b, sel r = RVal b) rs ->
  read_with sel rs = (filter (truth sel) rs, false).
Proof. exact (@read_with_no_error). Qed.
