(* C14 -- JSON lines output round-trips and is plain JSON.
   Statements only; every proof is `exact <lemma>` (or computation on the GENERATED facts / on a witness).
   json_cfg (gen/Gen_json.v) is regenerated from jsonpacker.py, adapter/jsonfile.py and fieldtypes on every run:
   pack_obj's isinstance chain and what each branch returns, the marker keys and their guard, the boolean cast
   rule, the declared types the reader base64-decodes, the guards of pack_obj / register, the reader's fallback,
   fieldtype_for_value's branch order, the type-name -> kind table, RESERVED_FIELDS, RECORD_VERSION.
   HASH (descriptor_hash) is universally quantified: no theorem needs it to be injective. *)
From Coq Require Import List Bool NArith ZArith String.
From Coq Require Import Init.Byte.
Import ListNotations.
From FR Require Import Bytes Json Gen_json Json_proofs.
Open Scope list_scope.
Open Scope N_scope.

(* the generated facts have the shape the proofs need (computed on what the code says now) *)
Theorem C14_generated_cfg_ok : cfg_ok json_cfg = true.
Proof. vm_compute. reflexivity. Qed.

(* the writer's `indent` option given as text (constructor argument / URL query), as OBSERVED for every probed spelling:
   it becomes the indentation LEVEL Python's int() reads from it, or is refused at construction when it denotes no
   number; it is never inserted literally unless it is JSON white space (so indentation only changes the layout) *)
Theorem C14_generated_options_ok : options_ok json_options = true.
Proof. vm_compute. reflexivity. Qed.

(* base64.b64decode (base64.b64encode bs) = bs, for ALL byte strings *)
Theorem C14_base64_roundtrip : forall bs : bytes, b64_decode (b64_encode bs) = Some bs.
Proof. exact b64_roundtrip. Qed.

(* fromisoformat (isoformat d) = d for every aware timestamp (all fields, offset to the microsecond) *)
Theorem C14_iso_roundtrip : forall d, dtm_wf d = true -> iso_parse (iso_format d) = Some d.
Proof. exact iso_roundtrip. Qed.

(* one slot of ANY supported type (text, integers of any size, floats, booleans, timestamps, bytes, digests,
   addresses, networks, URIs, POSIX paths, typed lists of these, unset): what is written is the per-type
   mapping json_of_value, and reading it by the declared type gives the value back *)
Theorem C14_value_roundtrip : forall dflt t v,
  has_type json_cfg dflt t v = true -> val_float_canonical v = true ->
  pack_value json_cfg (mem t (bool_cast_types json_cfg)) v = Some (json_of_value (mem t (bool_cast_types json_cfg)) v)
  /\ exists j, pack_value json_cfg (mem t (bool_cast_types json_cfg)) v = Some j /\ unpack_value json_cfg dflt t j = Some v.
Proof. exact (top_value json_cfg C14_generated_cfg_ok). Qed.

(* the json_supported records of the property: constructed records over the supported types ... *)
Definition json_record (r : record) : Prop := record_ok json_cfg r = true.
(* ... whose floats are all finite *)
Definition json_supported (r : record) : Prop := record_ok json_cfg r = true /\ record_finite r = true.

(* HEADLINE: every history of supported records, over any descriptors (also descriptors sharing a name or the
   whole identifier), written with descriptors enabled, is read back identically *)
Theorem C14_roundtrip : forall HASH rs, Forall json_supported rs ->
  exists docs, write_json json_cfg HASH true rs = Some docs /\ read_json json_cfg HASH docs = Some rs.
Proof. intros HASH. exact (top_roundtrip_finite json_cfg C14_generated_cfg_ok HASH). Qed.

(* the same with non-finite floats allowed as long as a NaN is the one quiet NaN json.loads builds *)
Theorem C14_roundtrip_nonfinite_partial : forall HASH rs,
  Forall (fun r => json_record r /\ forallb val_float_canonical (r_vals r) = true) rs ->
  exists docs, write_json json_cfg HASH true rs = Some docs /\ read_json json_cfg HASH docs = Some rs.
Proof. intros HASH. exact (top_roundtrip json_cfg C14_generated_cfg_ok HASH). Qed.

(* every emitted document is an object; the record documents are, in order, one per record with exactly the slot
   names in slot order (+ the two markers when descriptors are enabled); every other document is a descriptor
   document {_type, _data}; with descriptors disabled there is exactly one document per record *)
Theorem C14_lines_are_documents : forall HASH on rs, Forall json_supported rs ->
  exists docs, write_json json_cfg HASH on rs = Some docs
  /\ Forall (fun d => exists kv, d = JObj kv) docs
  /\ map doc_keys (filter (fun d => negb (is_descriptor_doc json_cfg d)) docs)
       = map (fun r => Some (slot_names json_cfg r ++ (if on then [type_key json_cfg; desc_key json_cfg] else []))) rs
  /\ Forall (fun d => is_descriptor_doc json_cfg d = true -> doc_keys d = Some [type_key json_cfg; data_key json_cfg]) docs
  /\ (on = false -> List.length docs = List.length rs /\ Forall (fun d => is_descriptor_doc json_cfg d = false) docs).
Proof. intros HASH. exact (top_documents_finite json_cfg C14_generated_cfg_ok HASH). Qed.

(* ... and holds none of the tokens NaN / Infinity / -Infinity: at tree level, a plain JSON document *)
Theorem C14_lines_plain_json : forall HASH on rs, Forall json_supported rs ->
  exists docs, write_json json_cfg HASH on rs = Some docs /\ forallb plain_json docs = true.
Proof. intros HASH. exact (top_plain_json json_cfg C14_generated_cfg_ok HASH). Qed.

(* descriptors disabled: every line reads (fallback) as a record of type json/record whose declared fields are the
   line's members (names, types by fieldtype_for_value) each standing for the member's scalar JSON value *)
Theorem C14_no_descriptors_readable : forall HASH rs, Forall json_supported rs ->
  exists docs ps, write_json json_cfg HASH false rs = Some docs /\ read_json json_cfg HASH docs = Some ps
  /\ Forall2 (fun doc p => d_name (r_desc p) = fallback_name json_cfg /\ scalar_view_record p = scalar_view_doc json_cfg doc) docs ps.
Proof. intros HASH. exact (top_no_descriptors_finite json_cfg C14_generated_cfg_ok HASH). Qed.

(* REFUSED WRITES: the application catches the exception of a write() that json.dumps refuses (a record whose
   pack_record is None) and carries on.  Such a write emits no record document; it emits the descriptor document and
   registers the descriptor exactly when the registry did not hold it (file and registry stay in step) ... *)
Theorem C14_refused_write_step : forall HASH on reg r, pack_record json_cfg HASH on r = None ->
  write_step json_cfg HASH on reg r =
  if known HASH true reg (r_desc r) then (reg, [])
  else ((ident_of HASH (r_desc r), r_desc r) :: reg, if on then [pack_descriptor json_cfg (r_desc r)] else []).
Proof. intros HASH. exact (top_refused_step json_cfg C14_generated_cfg_ok HASH). Qed.

(* ... and every record whose write succeeded reads back, in order, whatever was refused in between -- also when the
   refused record was the first of its type *)
Theorem C14_refused_writes : forall HASH rs,
  Forall (fun r => json_supported r \/ pack_record json_cfg HASH true r = None) rs ->
  read_json json_cfg HASH (write_tolerant json_cfg HASH true [] rs) = Some (filter (accepted json_cfg HASH true) rs).
Proof. intros HASH. exact (top_refused_writes json_cfg C14_generated_cfg_ok HASH). Qed.

(* without refusals the tolerant writer is the writer of the theorems above *)
Theorem C14_tolerant_writer_agrees : forall HASH on rs, Forall json_supported rs ->
  write_json json_cfg HASH on rs = Some (write_tolerant json_cfg HASH on [] rs).
Proof. intros HASH. exact (top_tolerant_agrees json_cfg C14_generated_cfg_ok HASH). Qed.

Theorem C14_scalars_preserved : forall j, scalar_wf j = true -> is_scalar j = true -> scalar_json_of (plain_of_json j) = Some j.
Proof. exact scalars_preserved. Qed.

(* the boolean comparisons the correspondence check evaluates in Coq are sound *)
Theorem C14_comparisons_sound : (forall a b, json_eqb a b = true -> a = b) /\ (forall a b, record_eqb a b = true -> a = b).
Proof. split; [exact json_eqb_eq|exact record_eqb_eq]. Qed.

(* ---- the full statements are FALSE of the faithful model: witnesses ---- *)
Definition T0 : dtm := Dt 2023 5 6 7 8 9 123456 0.
Definition Dfloat : descriptor := Desc (T "test/f") [(T "float", T "f")].
Definition rec_float (bits : N) : record := Rec Dfloat [VFloat bits; VNone; VNone; VDt T0; VInt 1].

(* a constructed record holding float('nan') is written with the token NaN: the document is not JSON
   (known finding C14-nonfinite-tokens) *)
Theorem C14_nonfinite_not_plain_refuted :
  exists r docs, json_record r /\ write_json json_cfg (fun _ => 7%Z) true [r] = Some docs /\ forallb plain_json docs = false.
Proof. exists (rec_float 9221120237041090560). eexists. split; [vm_compute; reflexivity|]. split; vm_compute; reflexivity. Qed.

(* a NaN with another payload is read back as the quiet NaN: not identical (same known-finding class) *)
Theorem C14_nan_payload_refuted :
  exists r docs, json_record r /\ write_json json_cfg (fun _ => 7%Z) true [r] = Some docs
                 /\ read_json json_cfg (fun _ => 7%Z) docs = Some [rec_float 9221120237041090560] /\ r <> rec_float 9221120237041090560.
Proof.
  exists (rec_float 9221120237041090561). eexists. split; [vm_compute; reflexivity|]. split; [vm_compute; reflexivity|].
  split; [vm_compute; reflexivity|discriminate].
Qed.

(* non-vacuity: a record with every kind of slot meets the hypotheses *)
Example C14_hyp_satisfiable :
  json_supported (Rec (Desc (T "test/all")
      [(T "string", T "s"); (T "varint", T "n"); (T "float", T "f"); (T "boolean", T "b"); (T "datetime", T "ts");
       (T "bytes", T "by"); (T "digest", T "dg"); (T "net.ipaddress", T "ip"); (T "net.ipnetwork", T "nw"); (T "uri", T "u");
       (T "path", T "p"); (T "bytes[]", T "bl"); (T "boolean[]", T "bools"); (T "uint16", T "u16")])
      [VStr [97; 56575]; VInt (2 ^ 70); VFloat 4609434218613702656; VBool true; VDt T0; VBytes (unhex "00ff"); VDigest None None None;
       VIp (T "::1"); VNet (T "10.0.0.0/8"); VStr (T "http://x/"); VPath (T "/tmp"); VList [VBytes []; VBytes (unhex "6162")];
       VList [VBool true; VBool false]; VNone; VNone; VStr (T "src"); VDt T0; VInt 1]).
Proof. split; vm_compute; reflexivity. Qed.
