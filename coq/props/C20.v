(* C20 -- Text-oriented writers render every record completely.
   Statements only; every proof is `exact <lemma>` (proofs/Csv_proofs.v) or `reflexivity` for computed side
   conditions on the GENERATED facts of gen/Gen_text.v (constants and call shapes of adapter/csvfile.py,
   adapter/line.py, adapter/text.py and base.normalize_fieldname, regenerated from the source on every run).
   Text = list of code points.  Environment models (not verified, validated by execution on every run):
   csv_write / csv_parse (Python's csv module), utf8 (CPython's encoder), the format_map grammar. *)
From Coq Require Import List Bool NArith String.
Import ListNotations.
From FR Require Import Csv Gen_text Csv_proofs.
Open Scope list_scope.
Open Scope N_scope.

(* ---------------------------------------------------------------------------------------------- *)
(* the generated facts are the ones the proofs are about; in particular all three writers encode with the
   surrogateescape handler (g_csv_se, g_line_se, g_text_se are true in pinned_cfg) *)
Theorem C20_generated_facts : gen_cfg = pinned_cfg.
Proof. reflexivity. Qed.
Theorem C20_generated_normalize :
  gen_ncfg = pinned_ncfg
  /\ gen_valid_field_name_body = tx "^_?[a-zA-Z][a-zA-Z0-9_]*"
  /\ forallb starts_with_underscore (g_reserved gen_cfg) = true
  /\ forallb gen_isdecimal (N_range 48 10) = true
  /\ forallb (fun ch => negb (gen_isdecimal ch)) (N_range 65 26 ++ N_range 97 26) = true.
Proof. repeat split; reflexivity. Qed.
Theorem C20_generated_missing : gen_missing_open = [LB] /\ gen_missing_close = [RB].
Proof. split; reflexivity. Qed.

(* ---------------------------------------------------------------------------------------------- *)
(* CSV quoting: whatever code points the cells hold, a standard CSV parser recovers them exactly *)
Theorem C20_csv_quoting : forall d rows, delim_ok d = true ->
  csv_parse d (csv_write d (resolve_term gen_cfg None) rows) = rows.
Proof. intros d rows H. exact (csv_round_trip_crlf d rows H). Qed.

(* With lineterminator=LF the statement is FALSE of the faithful model (Python 3.12 quotes only the
   characters of the terminator): it holds for rows whose cells hold no carriage return ... *)
Theorem C20_csv_quoting_lf_partial : forall d rows, delim_ok d = true ->
  Forall (Forall (fun s : cell => ~ In CR s)) rows ->
  csv_parse d (csv_write d (resolve_term gen_cfg (Some (tx "\n"))) rows) = rows.
Proof. intros d rows H Hr. exact (csv_round_trip_lf d rows H Hr). Qed.
(* ... and fails otherwise: the one-cell row "a CR b" is read back as two rows *)
Theorem C20_csv_quoting_lf_refuted :
  csv_parse 44 (csv_write 44 (resolve_term gen_cfg (Some (tx "\n"))) [[[97; CR; 98]]]) = [[[97]]; [[98]]].
Proof. reflexivity. Qed.

(* the one special case of the writer: a row whose only cell is empty is written as two quotes, because
   the bare terminator is the EMPTY row *)
Theorem C20_csv_single_empty_cell : forall d, delim_ok d = true ->
  write_row d CRLF [[]] = [QUOTE; QUOTE; CR; LF]
  /\ csv_parse d [QUOTE; QUOTE; CR; LF] = [[[]]]
  /\ write_row d CRLF [] = [CR; LF]
  /\ csv_parse d [CR; LF] = [[]].
Proof. intros d H. repeat split. Qed.

(* the lineterminator argument: default, and the documented escapes *)
Theorem C20_terminator_escapes :
  resolve_term gen_cfg None = CRLF /\ resolve_term gen_cfg (Some []) = CRLF
  /\ resolve_term gen_cfg (Some (tx "\r\n")) = CRLF /\ resolve_term gen_cfg (Some (tx "\n")) = [LF]
  /\ resolve_term gen_cfg (Some CRLF) = CRLF /\ resolve_term gen_cfg (Some [LF]) = [LF].
Proof. repeat split; reflexivity. Qed.

(* ---------------------------------------------------------------------------------------------- *)
(* CSV layout: the writer state machine emits a header row exactly when the record's descriptor differs
   from the previous record's, then the record's value row ... *)
Theorem C20_csv_layout : forall o rs, keys_agree gen_cfg o rs ->
  csvw_run gen_cfg o cstate0 rs = Some (layout_prev gen_cfg o None rs).
Proof. intros o rs H. exact (csv_layout gen_cfg o rs H). Qed.
(* ... which is: for every maximal run of records of one type, the header row of the selected field names
   followed by one value row per record *)
Theorem C20_csv_layout_runs : forall o rs, layout_prev gen_cfg o None rs = layout_runs gen_cfg o rs.
Proof. intros o rs. exact (layout_prev_runs gen_cfg o rs). Qed.
Theorem C20_csv_runs_maximal : forall rs,
  List.concat (group_runs gen_cfg rs) = rs
  /\ Forall (run_uniform gen_cfg) (group_runs gen_cfg rs)
  /\ adjacent_differ gen_cfg (group_runs gen_cfg rs).
Proof. intros rs. exact (group_runs_spec gen_cfg rs). Qed.
(* and a standard CSV parser recovers exactly those rows from the text the writer produced *)
Theorem C20_csv_parses_back_to_layout : forall o rs t,
  keys_agree gen_cfg o rs -> resolve_term gen_cfg (o_term o) = CRLF ->
  csv_text gen_cfg o rs = Some t -> csv_parse 44 t = layout_runs gen_cfg o rs.
Proof.
  intros o rs t Hk Ht H.
  exact (csv_parses_back gen_cfg o rs t CRLF Hk Ht (or_introl eq_refl) (rows_ok_crlf _) H).
Qed.

(* ---------------------------------------------------------------------------------------------- *)
(* LineWriter: one block per record, numbered 1..n in order *)
Theorem C20_line_layout : forall o rs,
  line_text gen_cfg o rs = flat_map (fun p => line_block gen_cfg o (fst p) (snd p)) (number_from 1 rs).
Proof. intros o rs. exact (line_run_blocks gen_cfg o rs 0). Qed.
Theorem C20_line_numbering : forall rs,
  map fst (number_from 1 rs) = map N.of_nat (seq 1 (List.length rs)) /\ map snd (number_from 1 rs) = rs.
Proof. intros rs. split; [exact (number_from_fst rs 1)|exact (number_from_snd rs 1)]. Qed.
(* number of lines of a block = 1 (header) + one per selected field + the line feeds inside the values *)
Theorem C20_line_count : forall o n r, names_lf_free (selected o r) ->
  lf_count (line_block gen_cfg o n r)
  = S (List.length (selected o r) + sum_nat (map (fun it => lf_count (value_text it)) (selected o r))).
Proof.
  intros o n r H.
  exact (line_block_count gen_cfg eq_refl eq_refl eq_refl eq_refl eq_refl eq_refl (le_n 3) o n r H).
Qed.
(* "one 'name = value' line per field" holds when no value text holds a line feed ... *)
Theorem C20_line_one_line_per_field_partial : forall o n r, names_lf_free (selected o r) ->
  Forall (fun it => lf_count (value_text it) = O) (selected o r) ->
  lf_count (line_block gen_cfg o n r) = S (List.length (selected o r)).
Proof.
  intros o n r H Hv.
  exact (line_block_one_line_per_field gen_cfg eq_refl eq_refl eq_refl eq_refl eq_refl eq_refl (le_n 3) o n r H Hv).
Qed.
(* ... and is FALSE otherwise: a record with the single field s = "a LF b" gives a block of 3 lines *)
Definition no_opts : opts :=
  {| o_fields := FNone; o_exclude := FNone; o_term := None; o_verbose := false; o_spec := None |}.
Definition rec_with_s (v : text) (r : text) : rec :=
  Plain {| p_name := tx "w/rec";
           p_items := [ {| i_key := tx "s"; i_type := tx "string"; i_str := Some v; i_repr := r |} ] |}.
Theorem C20_line_one_line_per_field_refuted :
  let r := rec_with_s [97; LF; 98] (tx "'a\nb'") in
  List.length (selected no_opts r) = 1%nat /\ lf_count (line_block gen_cfg no_opts 1 r) = 3%nat.
Proof. split; reflexivity. Qed.
(* the width is large enough for every key: all separators of a block are in the same column *)
Theorem C20_line_alignment : forall v d it, In it d ->
  List.length (rjust (line_width gen_cfg v d) (vkey gen_cfg v it)) = line_width gen_cfg v d.
Proof. intros v d it H. exact (line_alignment gen_cfg eq_refl eq_refl eq_refl eq_refl eq_refl eq_refl (le_n 3) v d it H). Qed.

(* ---------------------------------------------------------------------------------------------- *)
(* TextWriter: exactly repr(record), or exactly the template applied to the fields; then "\n" *)
Theorem C20_text_is_repr_or_template : forall o tbl r,
  (resolve_spec gen_cfg (o_spec o) = None ->
     text_line gen_cfg (resolve_spec gen_cfg (o_spec o)) tbl r = Ok (rec_repr gen_cfg r ++ [LF]))
  /\ (forall s tpl, resolve_spec gen_cfg (o_spec o) = Some s -> parse_template s = Some tpl ->
        text_line gen_cfg (resolve_spec gen_cfg (o_spec o)) tbl r
        = match render (dedup (rec_items r)) tbl tpl with Ok t => Ok (t ++ [LF]) | x => x end).
Proof.
  intros o tbl r. split.
  - intros H. rewrite H. reflexivity.
  - intros s tpl H Hp. rewrite H. unfold text_line. rewrite Hp. reflexivity.
Qed.
(* every template made of literal text (braces doubled) and fields {name}, {name!c}, {name:spec},
   {name!c:spec} is read as exactly that sequence, and rendering concatenates the items' renderings *)
Theorem C20_text_plain_template : forall l, tpl_canon l = true ->
  parse_template (flat_map unparse_item l) = Some l
  /\ forall items tbl outs, Forall2 (fun it out => render_item items tbl it = Ok out) l outs ->
       render items tbl l = Ok (List.concat outs).
Proof.
  intros l H. split; [exact (parse_unparse l H)|].
  intros items tbl outs Ho. exact (render_all_ok items tbl l outs Ho).
Qed.
(* a literal renders as itself; {name} renders as str(value) ("None" when unset) when the record has the
   field and stays {name} when it does not; {name!r} renders as repr(value) *)
Theorem C20_text_placeholder : forall items tbl s n,
  render_item items tbl (TLit s) = Ok s
  /\ (forall x, find_item n items = Some x -> render_item items tbl (TField n None []) = Ok (value_text x)
                                           /\ render_item items tbl (TField n (Some 114) []) = Ok (i_repr x))
  /\ (find_item n items = None -> render_item items tbl (TField n None []) = Ok ([LB] ++ n ++ [RB])).
Proof.
  intros items tbl s n. split; [reflexivity|]. split.
  - intros x H. unfold render_item. rewrite H. split; reflexivity.
  - intros H. unfold render_item. rewrite H. reflexivity.
Qed.
(* "never fails" is FALSE for a format spec applied to an unset field, GIVEN the environment fact that
   format(None, ">5") raises TypeError (the table entry): the writer has no guard *)
Theorem C20_text_spec_on_none_refuted :
  let r := Plain {| p_name := tx "w/rec";
                    p_items := [ {| i_key := tx "n"; i_type := tx "varint"; i_str := None; i_repr := tx "None" |} ] |} in
  text_line gen_cfg (Some (tx "{n:>5}")) [(tx "n", None, tx ">5", None)] r = Raises.
Proof. reflexivity. Qed.

(* ---------------------------------------------------------------------------------------------- *)
(* totality: no writer fails on records whose text holds no surrogate other than escaped bytes
   U+DC80..U+DCFF (rec_ok true) -- the same condition for all three writers *)
Theorem C20_total_partial : forall o rs, keys_agree gen_cfg o rs ->
  (forallb (rec_ok true) rs = true ->
     resolve_term gen_cfg (o_term o) = CRLF \/ resolve_term gen_cfg (o_term o) = [LF] ->
     exists b, csv_out gen_cfg o rs = Some b)
  /\ (forallb (rec_ok true) rs = true -> exists b, line_out gen_cfg o rs = Some b)
  /\ (forall r, rec_ok true r = true -> exists b, utf8 true (rec_repr gen_cfg r ++ [LF]) = Some b).
Proof.
  intros o rs Hk. split; [|split].
  - intros Hok Ht. apply (csv_total gen_cfg o rs Hk Hok). destruct Ht as [-> | ->]; reflexivity.
  - intros Hok. exact (line_total gen_cfg o rs Hok eq_refl).
  - intros r Hok. exact (text_repr_total gen_cfg r Hok eq_refl).
Qed.
(* a surrogate-escaped byte is written by all three writers (the CSV writer: bytes 61 ff) ... *)
Theorem C20_csv_accepts_escaped_bytes :
  let rs := [rec_with_s [97; 56575] (tx "'a<dcff>'")] in
  forallb (rec_ok true) rs = true
  /\ csv_out gen_cfg {| o_fields := FStr (tx "s"); o_exclude := FNone; o_term := None; o_verbose := false; o_spec := None |} rs
     = Some [115; CR; LF; 97; 255; CR; LF]
  /\ line_out gen_cfg no_opts rs <> None.
Proof. repeat split; try reflexivity; discriminate. Qed.
(* ... and "no writer fails" is FALSE of the same model with the strict handler for the CSV file (the flipped
   fact: what CsvfileWriter did before it opened its file with errors="surrogateescape") *)
Theorem C20_csv_total_refuted :
  let rs := [rec_with_s [97; 56575] (tx "'a<dcff>'")] in
  forallb (rec_ok true) rs = true /\ csv_out (set_csv_se gen_cfg false) no_opts rs = None.
Proof. split; reflexivity. Qed.
(* ... and FALSE for all three on a surrogate that no handler encodes (the text writer: in template mode;
   repr() escapes such code points) *)
Theorem C20_total_lone_surrogate_refuted :
  let r := rec_with_s [55296] (tx "'<escaped>'") in
  csv_out gen_cfg no_opts [r] = None /\ line_out gen_cfg no_opts [r] = None
  /\ text_line gen_cfg (Some (tx "{s}")) [] r = Ok [55296; LF] /\ utf8 (g_text_se gen_cfg) [55296; LF] = None.
Proof. repeat split; reflexivity. Qed.

(* ---------------------------------------------------------------------------------------------- *)
(* normalize_fieldname (used on every CSV header cell) *)
Theorem C20_normalize_idempotent : forall name,
  normalize (g_reserved gen_cfg) gen_ncfg gen_isdecimal (normalize (g_reserved gen_cfg) gen_ncfg gen_isdecimal name)
  = normalize (g_reserved gen_cfg) gen_ncfg gen_isdecimal name.
Proof.
  intros name.
  exact (normalize_idempotent (g_reserved gen_cfg) gen_ncfg gen_isdecimal eq_refl eq_refl eq_refl eq_refl eq_refl eq_refl name).
Qed.
(* a normalised non-reserved name is not empty, does not start with "_" or a decimal digit (of any script)
   and holds none of the characters "- ()" *)
Theorem C20_normalize_first_char : forall name, mem name (g_reserved gen_cfg) = false ->
  exists ch s, normalize (g_reserved gen_cfg) gen_ncfg gen_isdecimal name = ch :: s
               /\ ch <> 95 /\ gen_isdecimal ch = false
               /\ forallb (fun x => negb (existsb (N.eqb x) (n_chars gen_ncfg))) (ch :: s) = true.
Proof.
  intros name H.
  exact (normalize_first_char (g_reserved gen_cfg) gen_ncfg gen_isdecimal eq_refl eq_refl eq_refl eq_refl eq_refl name H).
Qed.
(* names made of ASCII letters, digits, "_" and the replaced characters become valid field names *)
Theorem C20_normalize_valid_on_simple_names : forall name,
  forallb (simple_name_char gen_ncfg) name = true -> mem name (g_reserved gen_cfg) = false ->
  valid_field_name (normalize (g_reserved gen_cfg) gen_ncfg gen_isdecimal name) = true.
Proof.
  intros name H Hm.
  exact (normalize_valid_on_simple_names (g_reserved gen_cfg) gen_ncfg gen_isdecimal eq_refl eq_refl eq_refl name H Hm).
Qed.

(* RE_VALID_FIELD_NAME's end anchor (gen_valid_field_name_end_is_Z: `\Z`, or `$` which also matches before one
   trailing line feed) is NOT pinned: valid_field_name is the `\Z` reading, valid_field_name_dollar the `$` reading,
   and they differ only on text holding a line feed -- which a valid name (hence every normalised simple name of
   C20_normalize_valid_on_simple_names and every header name of C20_csv_read_back) does not hold *)
Theorem C20_valid_name_anchor : forall s,
  (valid_field_name s = true -> ~ In LF s)
  /\ (~ In LF s -> valid_field_name_dollar s = valid_field_name s).
Proof. intros s. split; [exact (valid_field_name_no_lf s)|exact (valid_field_name_dollar_same s)]. Qed.

(* ---------------------------------------------------------------------------------------------- *)
(* reading back.  The reader's dialect: gen_reader_excel_on_field_names is the OBSERVED fact (probed on constructed
   files on every run) that a file whose first row consists of field names is read in the writer's own dialect; for
   such a file the delimiter is "," whatever csv.Sniffer (sniff, an oracle) would have guessed *)
Theorem C20_csv_reader_takes_writer_dialect : forall sniff term hdr rest,
  term = CRLF \/ term = [LF] -> forallb (cell_ok term) hdr = true ->
  header_is_field_names (g_reserved gen_cfg) gen_ncfg gen_isdecimal hdr = true ->
  (List.length (write_row 44 term hdr) <= N.to_nat gen_sniff_sample)%nat ->
  reader_delimiter gen_reader_excel_on_field_names (g_reserved gen_cfg) gen_ncfg gen_isdecimal gen_sniff_sample sniff
                   (write_row 44 term hdr ++ rest) = 44.
Proof.
  intros sniff term hdr rest Ht Hok Hn Hl.
  exact (reader_delimiter_excel (g_reserved gen_cfg) gen_ncfg gen_isdecimal gen_sniff_sample sniff term hdr rest Ht Hok Hn Hl).
Qed.
(* EVERY output of the CSV writer (default terminator; the selected names are field names, reserved ones included)
   is read in the writer's dialect and parses back to exactly the header / value rows the writer laid out *)
Theorem C20_csv_writer_output_reads_back : forall sniff o r rs t,
  keys_agree gen_cfg o (r :: rs) -> resolve_term gen_cfg (o_term o) = CRLF ->
  csv_text gen_cfg o (r :: rs) = Some t ->
  header_is_field_names (g_reserved gen_cfg) gen_ncfg gen_isdecimal (header_of o r) = true ->
  (List.length (write_row 44 CRLF (header_of o r)) <= N.to_nat gen_sniff_sample)%nat ->
  reader_delimiter gen_reader_excel_on_field_names (g_reserved gen_cfg) gen_ncfg gen_isdecimal gen_sniff_sample sniff t = 44
  /\ csv_parse 44 t = layout_runs gen_cfg o (r :: rs).
Proof.
  intros sniff o r rs t Hk Ht H Hn Hl. split.
  - unfold csv_text in H. rewrite (csv_layout gen_cfg o (r :: rs) Hk) in H. injection H as H. subst t. rewrite Ht.
    exact (reader_delimiter_excel (g_reserved gen_cfg) gen_ncfg gen_isdecimal gen_sniff_sample sniff CRLF (header_of o r) _
             (or_introl eq_refl) (cells_ok_crlf _) Hn Hl).
  - exact (csv_parses_back gen_cfg o (r :: rs) t CRLF Hk Ht (or_introl eq_refl) (rows_ok_crlf _) H).
Qed.
(* and a CSV file with a header of valid field names and rows of that many cells -- whatever the cells hold -- is read
   in that dialect and yields records with exactly those text values *)
Theorem C20_csv_read_back : forall sniff hdr rows,
  hdr <> [] -> Forall (fun n => valid_body n = true) hdr -> NoDup hdr ->
  Forall (fun rw : row => List.length rw = List.length hdr) rows ->
  (List.length (write_row 44 CRLF hdr) <= N.to_nat gen_sniff_sample)%nat ->
  let t := csv_write 44 CRLF (hdr :: rows) in
  let d := reader_delimiter gen_reader_excel_on_field_names (g_reserved gen_cfg) gen_ncfg gen_isdecimal gen_sniff_sample sniff t in
  d = 44
  /\ csv_read (g_reserved gen_cfg) gen_ncfg gen_isdecimal d None t
     = Some (hdr, map (fun rw => combine hdr (map Some rw)) rows).
Proof.
  intros sniff hdr rows Hne Hv Hn Hl Hs t d.
  assert (Hd : d = 44).
  { exact (reader_delimiter_excel (g_reserved gen_cfg) gen_ncfg gen_isdecimal gen_sniff_sample sniff CRLF hdr _
             (or_introl eq_refl) (cells_ok_crlf _)
             (valid_header_is_field_names (g_reserved gen_cfg) gen_ncfg gen_isdecimal eq_refl eq_refl eq_refl hdr Hne Hv) Hs). }
  split; [exact Hd|]. rewrite Hd.
  exact (csv_read_back (g_reserved gen_cfg) gen_ncfg gen_isdecimal eq_refl eq_refl eq_refl 44 hdr rows eq_refl Hv Hn Hl).
Qed.
(* the other delimiters a foreign file may use are covered by the same parser theorem, given the delimiter *)
Theorem C20_csv_read_back_given_delimiter : forall d hdr rows, delim_ok d = true ->
  Forall (fun n => valid_body n = true) hdr -> NoDup hdr ->
  Forall (fun rw : row => List.length rw = List.length hdr) rows ->
  csv_read (g_reserved gen_cfg) gen_ncfg gen_isdecimal d None (csv_write d CRLF (hdr :: rows))
  = Some (hdr, map (fun rw => combine hdr (map Some rw)) rows).
Proof.
  intros d hdr rows Hd Hv Hn Hl.
  exact (csv_read_back (g_reserved gen_cfg) gen_ncfg gen_isdecimal eq_refl eq_refl eq_refl d hdr rows Hd Hv Hn Hl).
Qed.

(* non-vacuity: the hypotheses are satisfiable *)
Example C20_hyp_satisfiable :
  let r := rec_with_s (tx "a,b") (tx "'a,b'") in
  keys_agree gen_cfg no_opts [r; r] /\ forallb (rec_ok true) [r; r] = true
  /\ names_lf_free (selected no_opts r) /\ delim_ok 44 = true
  /\ tpl_canon [TLit (tx "x="); TField (tx "s") None []; TField (tx "zz") (Some 114) (tx ">8")] = true
  /\ header_is_field_names (g_reserved gen_cfg) gen_ncfg gen_isdecimal (header_of no_opts r) = true
  /\ (List.length (write_row 44 CRLF (header_of no_opts r)) <= N.to_nat gen_sniff_sample)%nat.
Proof.
  repeat split; try reflexivity.
  - intros a b [<- | [<- | []]] [<- | [<- | []]] _; reflexivity.
  - repeat constructor.
  - apply PeanoNat.Nat.leb_le. reflexivity.
Qed.
