(* Helpers for the C05 correspondence shards: decidable equality of candidate / stored values, the runtime
   environment as finite tables filled by the harness, and the step-by-step comparison of a run of the model
   with what the harness observed on the implementation.  Definitions only. *)
From Coq Require Import List Bool ZArith NArith String.
From Coq Require Import Init.Byte.
From FR Require Import Bytes Coerce.
Import ListNotations.
Open Scope Z_scope.

Definition B (s : string) : bytes := bytes_of_string s.

Definition fcls_eqb (a b : fcls) : bool :=
  match a, b with
  | FFinite x i, FFinite y j => (x =? y) && Bool.eqb i j
  | FNan, FNan => true
  | FInf x, FInf y => Bool.eqb x y
  | _, _ => false
  end.

Definition wall_eqb (a b : wall) : bool :=
  (w_y a =? w_y b) && (w_mo a =? w_mo b) && (w_d a =? w_d b) && (w_h a =? w_h b) && (w_mi a =? w_mi b)
  && (w_s a =? w_s b) && (w_us a =? w_us b).

Definition optZ_eqb (a b : option Z) : bool :=
  match a, b with Some x, Some y => x =? y | None, None => true | _, _ => false end.

Definition optB_eqb (a b : option bytes) : bool :=
  match a, b with Some x, Some y => bytes_eqb x y | None, None => true | _, _ => false end.

Fixpoint pv_eqb (a b : pv) {struct a} : bool :=
  match a, b with
  | PNone, PNone => true
  | PBool x, PBool y => Bool.eqb x y
  | PInt x, PInt y => x =? y
  | PFloat x c, PFloat y d => N.eqb x y && fcls_eqb c d
  | PStr x l, PStr y m => bytes_eqb x y && Bool.eqb l m
  | PBytes x, PBytes y => bytes_eqb x y
  | PList x, PList y | PTuple x, PTuple y =>
      (fix go (x y : list pv) : bool :=
         match x, y with
         | [], [] => true
         | p :: x', q :: y' => pv_eqb p q && go x' y'
         | _, _ => false
         end) x y
  | PDict x, PDict y =>
      (fix go (x y : list (pv * pv)) : bool :=
         match x, y with
         | [], [] => true
         | (k, p) :: x', (k', q) :: y' => pv_eqb k k' && pv_eqb p q && go x' y'
         | _, _ => false
         end) x y
  | PDatetime w o, PDatetime w' o' => wall_eqb w w' && optZ_eqb o o'
  | PPath w t, PPath w' t' => Bool.eqb w w' && bytes_eqb t t'
  | PRecord x, PRecord y | POther x, POther y => N.eqb x y
  | PTyped c p, PTyped d q => ftype_eqb c d && pv_eqb p q
  | _, _ => false
  end.

Definition uval_eqb (a b : uval) : bool :=
  match a, b with
  | UInt x, UInt y => x =? y
  | UBool x, UBool y => Bool.eqb x y
  | UFloat x, UFloat y => N.eqb x y
  | _, _ => false
  end.

Fixpoint sval_eqb (a b : sval) {struct a} : bool :=
  match a, b with
  | SNone, SNone => true
  | SStr x l, SStr y m => bytes_eqb x y && Bool.eqb l m
  | SInt x, SInt y => x =? y
  | SUInt o u, SUInt o' u' => (o =? o') && uval_eqb u u'
  | SBool o v, SBool o' v' => (o =? o') && Bool.eqb v v'
  | SFloat x, SFloat y => N.eqb x y
  | SBytes x, SBytes y => bytes_eqb x y
  | SDt w o, SDt w' o' => wall_eqb w w' && optZ_eqb o o'
  | SPath w t l, SPath w' t' l' => Bool.eqb w w' && bytes_eqb t t' && Bool.eqb l l'
  | SCmd w l, SCmd w' l' => Bool.eqb w w' && Bool.eqb l l'
  | SDigest a1 a2 a3, SDigest b1 b2 b3 => optB_eqb a1 b1 && optB_eqb a2 b2 && optB_eqb a3 b3
  | SIp v n, SIp v' n' => (v =? v') && (n =? n')
  | SNet t, SNet t' => bytes_eqb t t'
  | SList x, SList y =>
      (fix go (x y : list sval) : bool :=
         match x, y with
         | [], [] => true
         | p :: x', q :: y' => sval_eqb p q && go x' y'
         | _, _ => false
         end) x y
  | SPass v, SPass v' => pv_eqb v v'
  | _, _ => false
  end.

Fixpoint svals_eqb (x y : list sval) : bool :=
  match x, y with
  | [], [] => true
  | p :: x', q :: y' => sval_eqb p q && svals_eqb x' y'
  | _, _ => false
  end.

(* the runtime's answers for the values of one case *)
Record tables := {
  t_str : list (pv * (bytes * bool));
  t_int : list (pv * option Z);
  t_float : list (pv * option N);
  t_ip : list (pv * option (Z * Z));
  t_net : list (pv * option bytes);
  t_dt : list (pv * option (wall * option Z));
  t_uri : list (pv * bool);
  t_path : list (pv * (bytes * bool));
  t_cmd : list (pv * option (bool * bool));
  t_iter : list (pv * option (list pv))
}.

Fixpoint lookup {A} (tbl : list (pv * A)) (d : A) (v : pv) : A :=
  match tbl with
  | [] => d
  | (k, a) :: r => if pv_eqb k v then a else lookup r d v
  end.

Definition env_of (T : tables) : env :=
  {| e_str := lookup (t_str T) (B "?no-entry?", false);
     e_int := lookup (t_int T) None;
     e_float := lookup (t_float T) None;
     e_ip := lookup (t_ip T) None;
     e_net := lookup (t_net T) None;
     e_dt := lookup (t_dt T) None;
     e_uri := lookup (t_uri T) false;
     e_path := lookup (t_path T) (B "?no-entry?", false);
     e_cmd := lookup (t_cmd T) None;
     e_iter := lookup (t_iter T) None |}.

Definition no_tables : tables :=
  {| t_str := []; t_int := []; t_float := []; t_ip := []; t_net := []; t_dt := []; t_uri := []; t_path := [];
     t_cmd := []; t_iter := [] |}.

(* what the harness saw after one step: was it accepted, and the deep observation of every slot *)
Definition obs_step := (bool * option (list sval))%type.   (* None: raised, and every slot observed as before *)

Definition accepted (o : outcome) : bool := match o with Accepted => true | Raised _ => false end.

Fixpoint check_steps (F : facts) (E : env) (kw : bool) (r : record) (ops : list op) (exp : list obs_step) : bool :=
  match ops, exp with
  | [], [] => true
  | o :: ops', (acc, vals) :: exp' =>
      let (r', oc) := step F E kw r o in
      Bool.eqb acc (accepted oc)
      && svals_eqb (map snd r') (match vals with Some l => l | None => map snd r end)
      && check_steps F E kw r' ops' exp'
  | _, _ => false
  end.

(* one correspondence case: the descriptor's slot types, the operations, the observations *)
Definition case_ops (F : facts) (T : tables) (kw : bool) (ts : list ftype) (ops : list op) (exp : list obs_step) : bool :=
  check_steps F (env_of T) kw (blank kw ts) ops exp.

(* for diagnosis: the model's own run in the same format *)
Fixpoint model_steps (F : facts) (E : env) (kw : bool) (r : record) (ops : list op) : list (outcome * list sval) :=
  match ops with
  | [] => []
  | o :: ops' => let (r', oc) := step F E kw r o in (oc, map snd r') :: model_steps F E kw r' ops'
  end.

Definition model_run (F : facts) (T : tables) (kw : bool) (ts : list ftype) (ops : list op) :=
  model_steps F (env_of T) kw (blank kw ts) ops.

(* the specification's verdict on what the implementation holds *)
Definition impl_well_typed (ts : list ftype) (vals : list sval) : bool := well_typed (combine ts vals).

(* ---- histories over several records of one type ---- *)
Definition obs_wstep := (bool * list (list sval))%type.    (* accepted?, every record's slots *)

Fixpoint worlds_eqb (x : list (list sval)) (y : list (list sval)) : bool :=
  match x, y with
  | [], [] => true
  | p :: x', q :: y' => svals_eqb p q && worlds_eqb x' y'
  | _, _ => false
  end.

Fixpoint check_wsteps (F : facts) (E : env) (kw : bool) (ts : list ftype) (w : world) (ops : list wop)
                      (exp : list obs_wstep) : bool :=
  match ops, exp with
  | [], [] => true
  | o :: ops', (acc, obs) :: exp' =>
      let (w', oc) := wstep F E kw ts w o in
      Bool.eqb acc (accepted oc) && worlds_eqb (map (map snd) w') obs && check_wsteps F E kw ts w' ops' exp'
  | _, _ => false
  end.

Definition case_world (F : facts) (T : tables) (kw : bool) (ts : list ftype) (ops : list wop) (exp : list obs_wstep) : bool :=
  check_wsteps F (env_of T) kw ts [] ops exp.

Fixpoint model_wsteps (F : facts) (E : env) (kw : bool) (ts : list ftype) (w : world) (ops : list wop)
  : list (outcome * list (list sval)) :=
  match ops with
  | [] => []
  | o :: ops' => let (w', oc) := wstep F E kw ts w o in (oc, map (map snd) w') :: model_wsteps F E kw ts w' ops'
  end.

Definition model_world (F : facts) (T : tables) (kw : bool) (ts : list ftype) (ops : list wop) :=
  model_wsteps F (env_of T) kw ts [] ops.
