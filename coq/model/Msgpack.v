(* Byte-level model of msgpack as used by flow.record (msgpack-python 1.x packer with use_bin_type=True,
   unpacker with raw=False / use_list=False).  Definitions only; proofs in proofs/Msgpack_proofs.v.
   Environment model: validated byte-exactly against msgpack-python by the correspondence checks. *)
From Coq Require Import List Bool NArith ZArith Lia.
From Coq Require Import Init.Byte.
From FR Require Import Bytes.
Import ListNotations.
Open Scope N_scope.

Inductive mv :=
| MNil
| MBool (b : bool)
| MInt (z : Z)                      (* -2^63 <= z < 2^64 *)
| MF64 (bits : N)                   (* IEEE-754 binary64 bit pattern *)
| MStr (bs : bytes)                 (* UTF-8 (surrogateescape) bytes of the text *)
| MBin (bs : bytes)
| MArr (l : list mv)
| MMap (l : list (mv * mv))
| MExt (ty : N) (bs : bytes).       (* ty = the raw type byte, 0..255 *)

(* ---------- encoder ---------- *)
Definition enc_int (z : Z) : bytes :=
  if (0 <=? z)%Z then
    let n := Z.to_N z in
    if n <? 128 then [n2b n]
    else if n <? 2 ^ 8 then xcc :: be 1 n
    else if n <? 2 ^ 16 then xcd :: be 2 n
    else if n <? 2 ^ 32 then xce :: be 4 n
    else xcf :: be 8 n
  else
    if (-32 <=? z)%Z then [n2b (Z.to_N (z + 256))]
    else if (-(2 ^ 7) <=? z)%Z then xd0 :: be 1 (Z.to_N (z + 2 ^ 8))
    else if (-(2 ^ 15) <=? z)%Z then xd1 :: be 2 (Z.to_N (z + 2 ^ 16))
    else if (-(2 ^ 31) <=? z)%Z then xd2 :: be 4 (Z.to_N (z + 2 ^ 32))
    else xd3 :: be 8 (Z.to_N (z + 2 ^ 64)).

Definition blen (bs : bytes) : N := N.of_nat (List.length bs).

Definition str_hdr (n : N) : bytes :=
  if n <? 32 then [n2b (160 + n)]
  else if n <? 2 ^ 8 then xd9 :: be 1 n
  else if n <? 2 ^ 16 then xda :: be 2 n
  else xdb :: be 4 n.

Definition bin_hdr (n : N) : bytes :=
  if n <? 2 ^ 8 then xc4 :: be 1 n
  else if n <? 2 ^ 16 then xc5 :: be 2 n
  else xc6 :: be 4 n.

Definition arr_hdr (n : N) : bytes :=
  if n <? 16 then [n2b (144 + n)]
  else if n <? 2 ^ 16 then xdc :: be 2 n
  else xdd :: be 4 n.

Definition map_hdr (n : N) : bytes :=
  if n <? 16 then [n2b (128 + n)]
  else if n <? 2 ^ 16 then xde :: be 2 n
  else xdf :: be 4 n.

Definition ext_hdr (n : N) : bytes :=
  if n =? 1 then [xd4] else if n =? 2 then [xd5] else if n =? 4 then [xd6]
  else if n =? 8 then [xd7] else if n =? 16 then [xd8]
  else if n <? 2 ^ 8 then xc7 :: be 1 n
  else if n <? 2 ^ 16 then xc8 :: be 2 n
  else xc9 :: be 4 n.

Fixpoint enc (v : mv) : bytes :=
  match v with
  | MNil => [xc0]
  | MBool false => [xc2]
  | MBool true => [xc3]
  | MInt z => enc_int z
  | MF64 bits => xcb :: be 8 bits
  | MStr bs => str_hdr (blen bs) ++ bs
  | MBin bs => bin_hdr (blen bs) ++ bs
  | MArr l => arr_hdr (N.of_nat (List.length l)) ++
              (fix go (l : list mv) : bytes := match l with [] => [] | x :: t => enc x ++ go t end) l
  | MMap l => map_hdr (N.of_nat (List.length l)) ++
              (fix go (l : list (mv * mv)) : bytes :=
                 match l with [] => [] | (k, x) :: t => enc k ++ enc x ++ go t end) l
  | MExt ty bs => ext_hdr (blen bs) ++ n2b ty :: bs
  end.

Fixpoint enc_list (l : list mv) : bytes := match l with [] => [] | x :: t => enc x ++ enc_list t end.
Fixpoint enc_pairs (l : list (mv * mv)) : bytes :=
  match l with [] => [] | (k, x) :: t => enc k ++ enc x ++ enc_pairs t end.

(* ---------- decoder ---------- *)
Inductive dres (A : Type) := DOk (v : A) (rest : bytes) | DIncomplete | DBad | DFuel.
Arguments DOk {A}. Arguments DIncomplete {A}. Arguments DBad {A}. Arguments DFuel {A}.

(* split off exactly n bytes *)
Definition take (n : N) (bs : bytes) : option (bytes * bytes) :=
  if blen bs <? n then None else Some (firstn (N.to_nat n) bs, skipn (N.to_nat n) bs).

Definition take_num (k : nat) (bs : bytes) : option (N * bytes) :=
  match take (N.of_nat k) bs with Some (h, r) => Some (unbe h, r) | None => None end.

Definition signed (k : nat) (n : N) : Z :=
  if n <? 2 ^ (8 * N.of_nat k - 1) then Z.of_N n else (Z.of_N n - 2 ^ (8 * Z.of_nat k))%Z.

Fixpoint pairup (l : list mv) : list (mv * mv) :=
  match l with k :: x :: t => (k, x) :: pairup t | _ => [] end.

Definition with_len (k : nat) (bs : bytes) (f : N -> bytes -> dres mv) : dres mv :=
  match take_num k bs with Some (n, r) => f n r | None => DIncomplete end.

Definition payload (mk : bytes -> mv) (n : N) (r : bytes) : dres mv :=
  match take n r with Some (d, r') => DOk (mk d) r' | None => DIncomplete end.

Definition ext_payload (n : N) (r : bytes) : dres mv :=
  match r with
  | [] => DIncomplete
  | t :: r1 => match take n r1 with Some (d, r') => DOk (MExt (b2n t) d) r' | None => DIncomplete end
  end.

Fixpoint dec (fuel : nat) (bs : bytes) {struct fuel} : dres mv :=
  match fuel with
  | O => DFuel
  | S f =>
    match bs with
    | [] => DIncomplete
    | b :: r =>
      let t := b2n b in
      let arr n r := match dec_list f n r with DOk l r' => DOk (MArr l) r' | DIncomplete => DIncomplete
                                             | DBad => DBad | DFuel => DFuel end in
      let map n r := match dec_list f (2 * n) r with DOk l r' => DOk (MMap (pairup l)) r' | DIncomplete => DIncomplete
                                                 | DBad => DBad | DFuel => DFuel end in
      if t <? 128 then DOk (MInt (Z.of_N t)) r
      else if t <? 144 then map (t - 128) r
      else if t <? 160 then arr (t - 144) r
      else if t <? 192 then payload MStr (t - 160) r
      else if 224 <=? t then DOk (MInt (Z.of_N t - 256)) r
      else if t =? 192 then DOk MNil r
      else if t =? 194 then DOk (MBool false) r
      else if t =? 195 then DOk (MBool true) r
      else if t =? 196 then with_len 1 r (payload MBin)
      else if t =? 197 then with_len 2 r (payload MBin)
      else if t =? 198 then with_len 4 r (payload MBin)
      else if t =? 199 then with_len 1 r ext_payload
      else if t =? 200 then with_len 2 r ext_payload
      else if t =? 201 then with_len 4 r ext_payload
      else if t =? 203 then match take_num 8 r with Some (n, r') => DOk (MF64 n) r' | None => DIncomplete end
      else if t =? 204 then match take_num 1 r with Some (n, r') => DOk (MInt (Z.of_N n)) r' | None => DIncomplete end
      else if t =? 205 then match take_num 2 r with Some (n, r') => DOk (MInt (Z.of_N n)) r' | None => DIncomplete end
      else if t =? 206 then match take_num 4 r with Some (n, r') => DOk (MInt (Z.of_N n)) r' | None => DIncomplete end
      else if t =? 207 then match take_num 8 r with Some (n, r') => DOk (MInt (Z.of_N n)) r' | None => DIncomplete end
      else if t =? 208 then match take_num 1 r with Some (n, r') => DOk (MInt (signed 1 n)) r' | None => DIncomplete end
      else if t =? 209 then match take_num 2 r with Some (n, r') => DOk (MInt (signed 2 n)) r' | None => DIncomplete end
      else if t =? 210 then match take_num 4 r with Some (n, r') => DOk (MInt (signed 4 n)) r' | None => DIncomplete end
      else if t =? 211 then match take_num 8 r with Some (n, r') => DOk (MInt (signed 8 n)) r' | None => DIncomplete end
      else if t =? 212 then ext_payload 1 r
      else if t =? 213 then ext_payload 2 r
      else if t =? 214 then ext_payload 4 r
      else if t =? 215 then ext_payload 8 r
      else if t =? 216 then ext_payload 16 r
      else if t =? 217 then with_len 1 r (payload MStr)
      else if t =? 218 then with_len 2 r (payload MStr)
      else if t =? 219 then with_len 4 r (payload MStr)
      else if t =? 220 then with_len 2 r arr
      else if t =? 221 then with_len 4 r arr
      else if t =? 222 then with_len 2 r map
      else if t =? 223 then with_len 4 r map
      else DBad        (* 0xc1 never used; 0xca float32 is not modelled (the writer never emits it) *)
    end
  end
with dec_list (fuel : nat) (n : N) (bs : bytes) {struct fuel} : dres (list mv) :=
  match fuel with
  | O => DFuel
  | S f =>
    if n =? 0 then DOk [] bs
    else match dec f bs with
         | DOk v r =>
             match dec_list f (n - 1) r with
             | DOk vs r' => DOk (v :: vs) r'
             | e => e
             end
         | DIncomplete => DIncomplete
         | DBad => DBad
         | DFuel => DFuel
         end
  end.

(* whole-buffer decode as unpackb does it: exactly one value, nothing after it *)
Inductive ures := UOk (v : mv) | UExtra | UIncomplete | UBad | UFuel.
Definition unpackb (bs : bytes) : ures :=
  match dec (3 * List.length bs) bs with
  | DOk v [] => UOk v
  | DOk _ _ => UExtra
  | DIncomplete => UIncomplete
  | DBad => UBad
  | DFuel => UFuel
  end.

(* ---------- well-formedness of values the encoder can represent ---------- *)
Fixpoint mv_wf (v : mv) : bool :=
  match v with
  | MNil | MBool _ => true
  | MInt z => ((- 2 ^ 63 <=? z) && (z <? 2 ^ 64))%Z
  | MF64 bits => bits <? 2 ^ 64
  | MStr bs | MBin bs => blen bs <? 2 ^ 32
  | MArr l => (N.of_nat (List.length l) <? 2 ^ 32) && forallb mv_wf l
  | MMap l => (N.of_nat (List.length l) <? 2 ^ 32) &&
              (fix go (l : list (mv * mv)) : bool :=
                 match l with [] => true | (k, x) :: t => mv_wf k && mv_wf x && go t end) l
  | MExt ty bs => (ty <? 256) && (blen bs <? 2 ^ 32)
  end.

(* fuel that certainly suffices to decode an encoding of v *)
Fixpoint fuel_of (v : mv) : nat :=
  match v with
  | MArr l => S (S ((fix go (l : list mv) : nat := match l with [] => O | x :: t => S (fuel_of x + go t) end) l))
  | MMap l => S (S ((fix go (l : list (mv * mv)) : nat :=
                     match l with [] => O | (k, x) :: t => S (S (fuel_of k + fuel_of x + go t)) end) l))
  | _ => 1%nat
  end.
