(* Helpers used by the correspondence shards: literals, the descriptor-hash table, and the relation between a
   model value and the harness' observation of an implementation value. *)
From Coq Require Import List Bool NArith ZArith String.
From Coq Require Import Init.Byte.
From FR Require Import Bytes Msgpack Packer Stream.
Import ListNotations.
Open Scope Z_scope.

Definition B (s : string) : bytes := bytes_of_string s.

(* descriptor_hash as observed on the implementation's descriptors; descriptors not in the table get a
   value outside the 32-bit range so that a missing entry shows up as a disagreement *)
Fixpoint hash_lookup (tbl : list (desc * Z)) (d : desc) : Z :=
  match tbl with
  | [] => -1
  | (d', h) :: t => if desc_eqb d' d then h else hash_lookup t d
  end.

Definition opt_bytes_eqb (a b : option bytes) : bool :=
  match a, b with Some x, Some y => bytes_eqb x y | None, None => true | _, _ => false end.

Fixpoint list_eqb {A B} (eqb : A -> B -> bool) (a : list A) (b : list B) : bool :=
  match a, b with
  | [], [] => true
  | x :: a', y :: b' => eqb x y && list_eqb eqb a' b'
  | _, _ => false
  end.

(* model datetime vs observed datetime: same packed form, i.e. same wall-clock fields and UTC offset *)
Definition dt_match (m o : dtv) : bool :=
  match m, o with
  | DtTuple y mo d h mi s us, DtObs y' mo' d' h' mi' s' us' off _ =>
      (y =? y') && (mo =? mo') && (d =? d') && (h =? h') && (mi =? mi') && (s =? s') && (us =? us') && (off =? 0)
  | DtIso t, DtObs _ _ _ _ _ _ _ _ t' => bytes_eqb t t'
  | DtTuple y mo d h mi s us, DtTuple y' mo' d' h' mi' s' us' =>
      (y =? y') && (mo =? mo') && (d =? d') && (h =? h') && (mi =? mi') && (s =? s') && (us =? us')
  | DtIso t, DtIso t' => bytes_eqb t t'
  | _, _ => false
  end.

Fixpoint py_eqb (a b : pyv) : bool :=
  match a, b with
  | YNone, YNone => true
  | YBool x, YBool y => Bool.eqb x y
  | YInt x, YInt y => x =? y
  | YFloat x, YFloat y => N.eqb x y
  | YStr x, YStr y | YBytes x, YBytes y => bytes_eqb x y
  | YList x, YList y | YTuple x, YTuple y =>
      (fix go (x y : list pyv) := match x, y with
                                  | [], [] => true
                                  | p :: x', q :: y' => py_eqb p q && go x' y'
                                  | _, _ => false end) x y
  | YDict x, YDict y =>
      (fix go (x y : list (pyv * pyv)) := match x, y with
                                          | [], [] => true
                                          | (k, p) :: x', (k', q) :: y' => py_eqb k k' && py_eqb p q && go x' y'
                                          | _, _ => false end) x y
  | _, _ => false
  end.

Fixpoint fval_match (m o : fval) {struct m} : bool :=
  match m, o with
  | FNone, FNone => true
  | FStr a, FStr b | FBytes a, FBytes b => bytes_eqb a b
  | FInt a, FInt b => a =? b
  | FBool a, FBool b => Bool.eqb a b
  | FFloat a, FFloat b => N.eqb a b
  | FDt a, FDt b => dt_match a b
  | FPath t f, FPath t' f' => bytes_eqb t t' && (f =? f')
  | FCmd f None, FCmd f' None => f =? f'
  | FCmd f (Some (e, a)), FCmd f' (Some (e', a')) => (f =? f') && bytes_eqb e e' && list_eqb bytes_eqb a a'
  | FDigest a b c, FDigest a' b' c' => opt_bytes_eqb a a' && opt_bytes_eqb b b' && opt_bytes_eqb c c'
  | FIp f n, FIp f' n' => (f =? f') && (n =? n')
  | FList a, FList b =>
      (fix go (x y : list fval) := match x, y with
                                   | [], [] => true
                                   | p :: x', q :: y' => fval_match p q && go x' y'
                                   | _, _ => false end) a b
  | FRec a, FRec b => rec_match a b
  | FPy a, FPy b => py_eqb a b
  | _, _ => false
  end
with rec_match (m o : rec) {struct m} : bool :=
  match m, o with
  | Rec d vals, Rec d' vals' =>
      desc_eqb d d' &&
      (fix go (x y : list fval) := match x, y with
                                   | [], [] => true
                                   | p :: x', q :: y' => fval_match p q && go x' y'
                                   | _, _ => false end) vals vals'
  end.

Definition item_match (m o : item) : bool :=
  match m, o with
  | IRec a, IRec b => rec_match a b
  | IGroup n a, IGroup n' b => bytes_eqb n n' && list_eqb rec_match a b
  | _, _ => false
  end.

Definition robj_match (m : robj) (o : item) : bool :=
  match m with RItem it => item_match it o | RForeign => false end.
