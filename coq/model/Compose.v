(* C15 -- record composition: extend / merge, per-timestamp expansion, grouped records, replace-style copies
   and field projection.  Definitions only; proofs are in proofs/Compose_proofs.v.

   A record is (type name, ordered fields (name, (typename, value)), values of the reserved slots).  Values
   are abstract (type parameter V): none of the composition code inspects a value, it only moves values
   around; the few values the code itself creates enter as parameters (the re-stamped `_version`, the field
   name stored in `ts_description`, the default of an unset field, the reserved slots of a fresh
   TimestampRecord).

   Three layers:
     REFERENCE  ref_*     written from the wording of the property with association lists
     MODEL      (clean)   written from the code of flow/record/base.py and stream.py
     P-MODEL    p_*       the same algorithms with the points the repairs and the mutation-sensitive guards
                          hinge on as parameters (record `facts`, GENERATED into gen/Gen_compose.v from the
                          code's AST); `facts_ok F = true` makes p_* collapse to the clean model. *)
From Coq Require Import List Bool String Arith.
Import ListNotations.
Open Scope string_scope.
Open Scope list_scope.

(* ---------------------------------------------------------------------------------------------- *)
(* association lists keyed by strings                                                              *)

Definition mem (k : string) (l : list string) : bool := existsb (String.eqb k) l.

Section Assoc.
Context {P : Type}.
Definition ents : Type := list (string * P).
Fixpoint assoc (k : string) (l : ents) : option P :=
  match l with
  | [] => None
  | e :: t => if String.eqb k (fst e) then Some (snd e) else assoc k t
  end.
Definition keys (l : ents) : list string := map fst l.
Definition has (k : string) (l : ents) : bool := mem k (keys l).

(* OrderedDict.__setitem__: an existing key keeps its position, a new key goes last *)
Fixpoint od_set (k : string) (p : P) (m : ents) : ents :=
  match m with
  | [] => [(k, p)]
  | e :: t => if String.eqb k (fst e) then (k, p) :: t else e :: od_set k p t
  end.
End Assoc.

(* order of first appearance *)
Fixpoint dedup (l : list string) : list string :=
  match l with
  | [] => []
  | x :: t => x :: filter (fun y => negb (String.eqb y x)) (dedup t)
  end.

Fixpoint nodupb (l : list string) : bool :=
  match l with [] => true | x :: t => negb (mem x t) && nodupb t end.

Fixpoint upd_nth {A : Type} (i : nat) (f : A -> A) (l : list A) : list A :=
  match l, i with
  | [], _ => []
  | x :: t, O => f x :: t
  | x :: t, S j => x :: upd_nth j f t
  end.

(* ---------------------------------------------------------------------------------------------- *)
(* REFERENCE for merging, generic in the payload (typename for descriptors, (typename, value) for records):
   "keeps every field of the first in order, appends unseen fields of later ones in order of first
    appearance, and takes each [payload] from the first one that has the field - from the last one when
    replacement is requested"                                                                          *)
Section RefEntries.
Context {P : Type}.
Definition holder (n : string) (order : list (@ents P)) : option (@ents P) := find (has n) order.
Definition ref_entry (order : list (@ents P)) (n : string) : @ents P :=
  match holder n order with
  | Some h => match assoc n h with Some p => [(n, p)] | None => [] end
  | None => []
  end.
Definition ref_entries (replace : bool) (ls : list (@ents P)) : @ents P :=
  flat_map (ref_entry (if replace then rev ls else ls)) (dedup (List.concat (map keys ls))).
End RefEntries.

(* ---------------------------------------------------------------------------------------------- *)
(* facts about the code, GENERATED (coq/gen/Gen_compose.v)                                          *)

Record facts := mkFacts {
  f_merge_guard_present : bool;        (* the inner loop of merge_record_descriptors starts with `if ...: continue` *)
  f_merge_guard_not_replace : bool;    (* ... whose test has the conjunct `not replace` *)
  f_merge_guard_in_map : bool;         (* ... and the conjunct `fname in field_map` *)
  f_extend_rev_when_replace : bool;    (* extend_record reverses kv_maps when replace is true *)
  f_extend_rev_when_keep : bool;       (* ... when replace is false *)
  f_chain_in_order : bool;             (* ChainMap over kv_maps: maps searched in the order of kv_maps *)
  f_init_filters_unknown : bool;       (* init_from_dict drops keys that are not slots (raise_unknown=False) *)
  f_ts_from_original : bool;           (* iter_timestamped_records reads getattr(X, field.name) from a name that the
                                          loop does not re-bind *)
  f_group_first_wins : bool;           (* GroupedRecord.__init__: `if fname in self.fieldname_to_record: continue` *)
  f_group_flat_excludes_reserved : bool; (* flat_fields.append only `if fname not in required_fields` *)
  f_group_getattr_routes : bool;       (* __getattr__/__setattr__ go through fieldname_to_record[attr] *)
  f_group_replace_reads_member : bool; (* GroupedRecord._replace: getattr(<member>, k), not getattr(self, k) *)
  f_replace_raises_on_leftover : bool; (* _replace: `if kwds: raise ValueError` (Record and GroupedRecord) *)
  f_rewrite_exclude_wins : bool;       (* record_descriptor_for_fields: `if fname in exclude: continue` in the fields loop *)
  f_rewrite_skips_unknown : bool;      (* ... `field = descriptor.fields.get(fname); if field:` *)
  f_rewrite_identity_when_empty : bool; (* rewrite: returns the record itself without fields/exclude/expression *)
  f_group_maps_to_leaf : bool          (* GroupedRecord.__init__ maps a nested group's field to the member that owns it
                                          (rec.fieldname_to_record[fname]), not to the nested group object *)
}.

Definition std_facts : facts :=
  mkFacts true true true true false true true true true true true true true true true true true.

Definition facts_ok (F : facts) : bool :=
  f_merge_guard_present F && f_merge_guard_not_replace F && f_merge_guard_in_map F &&
  f_extend_rev_when_replace F && negb (f_extend_rev_when_keep F) && f_chain_in_order F &&
  f_init_filters_unknown F && f_ts_from_original F && f_group_first_wins F &&
  f_group_flat_excludes_reserved F && f_group_getattr_routes F && f_group_replace_reads_member F &&
  f_replace_raises_on_leftover F && f_rewrite_exclude_wins F && f_rewrite_skips_unknown F &&
  f_rewrite_identity_when_empty F && f_group_maps_to_leaf F.

(* the two behaviours before the repairs 090c4ab / d74a9d7, as variants of given facts *)
Definition unfix_expand (F : facts) : facts :=
  mkFacts (f_merge_guard_present F) (f_merge_guard_not_replace F) (f_merge_guard_in_map F) (f_extend_rev_when_replace F)
          (f_extend_rev_when_keep F) (f_chain_in_order F) (f_init_filters_unknown F) false (f_group_first_wins F)
          (f_group_flat_excludes_reserved F) (f_group_getattr_routes F) (f_group_replace_reads_member F)
          (f_replace_raises_on_leftover F) (f_rewrite_exclude_wins F) (f_rewrite_skips_unknown F)
          (f_rewrite_identity_when_empty F) (f_group_maps_to_leaf F).
Definition unfix_group_replace (F : facts) : facts :=
  mkFacts (f_merge_guard_present F) (f_merge_guard_not_replace F) (f_merge_guard_in_map F) (f_extend_rev_when_replace F)
          (f_extend_rev_when_keep F) (f_chain_in_order F) (f_init_filters_unknown F) (f_ts_from_original F)
          (f_group_first_wins F) (f_group_flat_excludes_reserved F) (f_group_getattr_routes F) false
          (f_replace_raises_on_leftover F) (f_rewrite_exclude_wins F) (f_rewrite_skips_unknown F)
          (f_rewrite_identity_when_empty F) (f_group_maps_to_leaf F).
(* before 9fb63bd: a nested group's fields were mapped to the nested group OBJECT *)
Definition unfix_nested (F : facts) : facts :=
  mkFacts (f_merge_guard_present F) (f_merge_guard_not_replace F) (f_merge_guard_in_map F) (f_extend_rev_when_replace F)
          (f_extend_rev_when_keep F) (f_chain_in_order F) (f_init_filters_unknown F) (f_ts_from_original F)
          (f_group_first_wins F) (f_group_flat_excludes_reserved F) (f_group_getattr_routes F)
          (f_group_replace_reads_member F) (f_replace_raises_on_leftover F) (f_rewrite_exclude_wins F)
          (f_rewrite_skips_unknown F) (f_rewrite_identity_when_empty F) false.

(* TimestampRecord and the type iter_timestamped_records selects; GENERATED *)
Record tsfacts := mkTs {
  ts_desc_name : string;               (* "record/timestamp" *)
  ts_k1 : string; ts_t1 : string;      (* first field: receives the timestamp value *)
  ts_k2 : string; ts_t2 : string;      (* second field: receives the field name *)
  ts_select : string;                  (* record._desc.getfields(<this typename>) *)
  ts_meta : list string                (* slots copied from the original record onto every output:
                                          `record.<slot> = original_record.<slot>` after the extension *)
}.
(* the behaviour before the repair 4a5ea6a: no metadata copied *)
Definition unfix_meta (T : tsfacts) : tsfacts :=
  mkTs (ts_desc_name T) (ts_k1 T) (ts_t1 T) (ts_k2 T) (ts_t2 T) (ts_select T) [].

(* ---------------------------------------------------------------------------------------------- *)
Section Model.
Context {V : Type}.
Variable RES : list (string * string).   (* RESERVED_FIELDS, (name, typename) in slot order; GENERATED *)
Variable vver : V.                        (* RECORD_VERSION as the value of the `_version` slot *)
Variable vname : string -> V.             (* a field name as the value of a string field *)
Variable dflt : string -> V.              (* typename -> value of a field that was not given *)
Variable TS : tsfacts.
Variable tsres : list V.                  (* reserved slots of a freshly made TimestampRecord(...) *)
Variable GATTRS : list string.            (* names of the attributes a GroupedRecord object itself carries; GENERATED.
                                             Only the pre-9fb63bd variant of the P-model looks at them. *)

Definition fld : Type := string * (string * V).          (* name, (typename, value) *)
Definition fname (f : fld) : string := fst f.
Definition ftype (f : fld) : string := fst (snd f).
Definition fval (f : fld) : V := snd (snd f).
Record rec := mkRec { rname : string; rfields : list fld; rres : list V }.
Definition desc : Type := list (string * string).        (* (name, typename) *)
Definition dict : Type := list (string * V).

Definition res_names : list string := map fst RES.
Definition is_res (n : string) : bool := mem n res_names.
Definition names_of (r : rec) : list string := map fname (rfields r).
Definition desc_of (r : rec) : desc := map (fun f => (fname f, ftype f)) (rfields r).
Definition slots_of (r : rec) : list string := names_of r ++ res_names.
Definition has_slot (k : string) (r : rec) : bool := mem k (slots_of r).
(* Record._asdict(): every slot, fields first *)
Definition asdict (r : rec) : dict := map (fun f => (fname f, fval f)) (rfields r) ++ combine res_names (rres r).
Definition rec_get (r : rec) (k : string) : option V := assoc k (asdict r).       (* getattr(r, k) *)
Definition attr (r : rec) (k : string) : V := match rec_get r k with Some v => v | None => dflt "" end.

(* the class constructor stamps _version (and leaves the other reserved slots as given) *)
Definition restamp (vs : list V) : list V :=
  map (fun p => if String.eqb (fst (fst p)) "_version" then vver else snd p) (combine RES vs).

(* a well-formed record: distinct field names, none of them reserved, one value per reserved slot *)
Definition wf (r : rec) : Prop :=
  NoDup (names_of r) /\ (forall n, In n (names_of r) -> ~ In n res_names) /\ List.length (rres r) = List.length RES.

(* wf as a boolean (for concrete witnesses) *)
Definition wfb (r : rec) : bool :=
  nodupb (names_of r) && forallb (fun n => negb (mem n res_names)) (names_of r) && Nat.eqb (List.length (rres r)) (List.length RES).

(* ============================== REFERENCE ============================== *)

Definition ref_merge (replace : bool) (ds : list desc) : desc := ref_entries replace ds.

Definition ref_extend (replace : bool) (name : option string) (r : rec) (others : list rec) : rec :=
  let rs := r :: others in
  mkRec (match name with Some n => n | None => rname r end)
        (ref_entries replace (map rfields rs))
        (restamp (match (if replace then rev rs else rs) with h :: _ => rres h | [] => [] end)).

(* one output per field of the selected type: ts = the ORIGINAL record's value of that field,
   ts_description = its name, then every original field not called like the two, unchanged and in order;
   the reserved slots are the original record's (_version stamped by the constructor) *)
Definition not_ts (f : fld) : bool := negb (String.eqb (fname f) (ts_k1 TS)) && negb (String.eqb (fname f) (ts_k2 TS)).
Definition ts_fields (r : rec) : list fld := filter (fun f => String.eqb (ftype f) (ts_select TS)) (rfields r).
Definition ref_expand_one (r : rec) (f : fld) : rec :=
  mkRec (rname r)
        ((ts_k1 TS, (ts_t1 TS, fval f)) :: (ts_k2 TS, (ts_t2 TS, vname (fname f))) :: filter not_ts (rfields r))
        (restamp (rres r)).
Definition ref_expand (r : rec) : list rec :=
  match ts_fields r with
  | [] => [r]
  | fs => map (ref_expand_one r) fs
  end.

(* the flat view of a group: union of the members' fields, the first member that has a field wins;
   reserved slots read through the group are the first member's *)
Definition ref_group_view (nm : string) (ms : list rec) : rec :=
  mkRec nm (ref_entries false (map rfields ms)) (match ms with h :: _ => rres h | [] => map (fun e => dflt (snd e)) RES end).
(* index of the member a slot is routed to *)
Fixpoint first_index (k : string) (ms : list rec) : option nat :=
  match ms with
  | [] => None
  | m :: t => if has_slot k m then Some O else option_map S (first_index k t)
  end.

(* replace-style copy: named slots get the new value, everything else is the record's own *)
Definition upd (blocked : string -> bool) (kw : dict) (m : rec) : rec :=
  let nv (k : string) (own : V) : V :=
      match assoc k kw with Some v => if blocked k then own else v | None => own end in
  mkRec (rname m)
        (map (fun f => (fname f, (ftype f, nv (fname f) (fval f)))) (rfields m))
        (restamp (map (fun p => nv (fst p) (snd p)) (combine res_names (rres m)))).
Definition ref_replace (r : rec) (kw : dict) : option rec :=
  if forallb (fun kv => has_slot (fst kv) r) kw then Some (upd (fun _ => false) kw r) else None.
(* in a group a named slot is replaced in the first member that has it *)
Fixpoint ref_replace_members (pre ms : list rec) (kw : dict) : list rec :=
  match ms with
  | [] => []
  | m :: t => upd (fun k => existsb (has_slot k) pre) kw m :: ref_replace_members (pre ++ [m]) t kw
  end.
Definition ref_group_replace (ms : list rec) (kw : dict) : option (list rec) :=
  if forallb (fun kv => existsb (has_slot (fst kv)) ms) kw then Some (ref_replace_members [] ms kw) else None.

(* projection: the requested fields in the requested order (unknown names skipped, excluded names dropped),
   or every field but the excluded ones; each with its own type and value; reserved slots kept *)
Definition ref_project (r : rec) (fields exclude : list string) : rec :=
  match fields, exclude with
  | [], [] => r
  | _, _ =>
      mkRec (rname r)
            (match fields with
             | [] => filter (fun f => negb (mem (fname f) exclude)) (rfields r)
             | _ => flat_map (fun fn => if mem fn exclude then []
                                        else match find (fun f => String.eqb fn (fname f)) (rfields r) with
                                             | Some f => [f] | None => [] end) fields
             end)
            (restamp (rres r))
  end.

(* ============================== MODEL (clean) ============================== *)

(* merge_record_descriptors: field_map = OrderedDict(); for desc: for (ftype, fname):
     if not replace and fname in field_map: continue ;  field_map[fname] = ftype *)
Definition merge_field (replace : bool) (m : desc) (f : string * string) : desc :=
  if negb replace && has (fst f) m then m else od_set (fst f) (snd f) m.
Definition merge_descs (replace : bool) (ds : list desc) : desc :=
  fold_left (fun m d => fold_left (merge_field replace) d m) ds [].

(* collections.ChainMap over maps, lookup of k *)
Fixpoint chain_get (k : string) (maps : list dict) : option V :=
  match maps with
  | [] => None
  | m :: t => match assoc k m with Some v => Some v | None => chain_get k t end
  end.

(* RecordDescriptor.init_from_dict (after dropping unknown keys) = recordType called with the dict as keywords *)
Definition slot_value (get : string -> option V) (e : string * string) : V :=
  match get (fst e) with Some v => v | None => dflt (snd e) end.
Definition init_from_dict (nm : string) (d : desc) (get : string -> option V) : rec :=
  mkRec nm (map (fun e => (fst e, (snd e, slot_value get e))) d)
        (map (fun e => if String.eqb (fst e) "_version" then vver else slot_value get e) RES).

Definition extend (replace : bool) (name : option string) (r : rec) (others : list rec) : rec :=
  let rs := r :: others in
  let maps := map asdict rs in
  init_from_dict (match name with Some n => n | None => rname r end)
                 (merge_descs replace (map desc_of rs))
                 (fun k => chain_get k (if replace then rev maps else maps)).

(* setattr(record, k, v) on a slot *)
Definition rec_set (r : rec) (k : string) (v : V) : rec :=
  mkRec (rname r)
        (map (fun f => if String.eqb k (fname f) then (fname f, (ftype f, v)) else f) (rfields r))
        (map (fun p => if String.eqb k (fst p) then v else snd p) (combine res_names (rres r))).
(* record.<slot> = original_record.<slot> for the generated list of slots *)
Definition copy_meta (orig out : rec) : rec :=
  fold_left (fun o k => rec_set o k (attr orig k)) (ts_meta TS) out.

(* iter_timestamped_records; prev = the loop extends the record it yielded before (the re-binding of `record`) *)
Definition ts_record (v : V) (n : string) : rec :=
  mkRec (ts_desc_name TS) [(ts_k1 TS, (ts_t1 TS, v)); (ts_k2 TS, (ts_t2 TS, vname n))] tsres.
Fixpoint expand_loop (prev : bool) (orig cur : rec) (fs : list fld) : list rec :=
  match fs with
  | [] => []
  | f :: fs' =>
      let out := copy_meta orig (extend false (Some (rname orig)) (ts_record (attr orig (fname f)) (fname f))
                                        [if prev then cur else orig]) in
      out :: expand_loop prev orig out fs'
  end.
Definition iter_timestamped (prev : bool) (r : rec) : list rec :=
  match ts_fields r with
  | [] => [r]
  | fs => expand_loop prev r r fs
  end.

(* ---- GroupedRecord ---- *)
(* fieldname_to_record in insertion order, each key with the field's typename and the index (into the
   flattened member list) of the member the attribute is finally served by.  flat_fields = its non-reserved
   entries (both are appended to in the same `if` cascade). *)
Definition tab : Type := list (string * (string * nat)).
(* gattr: keys that are served by an attribute of a nested group OBJECT instead of a member's field (always empty
   in the clean model; non-empty only in the pre-9fb63bd variant of the P-model) *)
Record group := mkGroup { gname : string; gmembers : list rec; gtab : tab; gattr : list string }.
Inductive garg := ARec (r : rec) | AGrp (g : group).

Definition gflat (g : group) : desc :=
  map (fun e => (fst e, fst (snd e))) (filter (fun e => negb (is_res (fst e))) (gtab g)).
(* getattr(nested_group, k) is served by nested_group.fieldname_to_record[k] *)
Definition route (g : group) (k : string) : nat :=
  match assoc k (gtab g) with Some ti => snd ti | None => List.length (gmembers g) end.
Definition arg_members (a : garg) : list rec := match a with ARec r => [r] | AGrp g => gmembers g end.
(* rec._desc.get_all_fields(): the fields, then the reserved fields *)
Definition arg_entries (a : garg) : tab :=
  match a with
  | ARec r => map (fun e => (fst e, (snd e, O))) (desc_of r ++ RES)
  | AGrp g => map (fun e => (fst e, (snd e, route g (fst e)))) (gflat g ++ RES)
  end.
Definition tab_add (off : nat) (t : tab) (e : string * (string * nat)) : tab :=
  if has (fst e) t then t else t ++ [(fst e, (fst (snd e), off + snd (snd e)))].
Definition group_add (st : list rec * tab) (a : garg) : list rec * tab :=
  (fst st ++ arg_members a, fold_left (tab_add (List.length (fst st))) (arg_entries a) (snd st)).
Definition group_make (nm : string) (args : list garg) : group :=
  let st := fold_left group_add args ([], []) in mkGroup nm (fst st) (snd st) [].

Definition group_get (g : group) (k : string) : option V :=
  match assoc k (gtab g) with
  | Some ti => match nth_error (gmembers g) (snd ti) with Some m => rec_get m k | None => None end
  | None => None
  end.
(* what obs_record sees of a group: its flat descriptor, getattr per flat field and per reserved slot *)
Definition group_view (g : group) : rec :=
  mkRec (gname g)
        (map (fun e => (fst e, (snd e, slot_value (group_get g) e))) (gflat g))
        (map (slot_value (group_get g)) RES).

Definition group_set (g : group) (k : string) (v : V) : group :=
  match assoc k (gtab g) with
  | Some ti => mkGroup (gname g) (upd_nth (snd ti) (fun m => rec_set m k v) (gmembers g)) (gtab g) (gattr g)
  | None => g
  end.

(* ---- _replace:  cls applied to map(kwds.pop, slots, (getattr(src, k) for k in slots)) ; if kwds: raise ---- *)
Fixpoint pop (k : string) (kw : dict) : option V * dict :=
  match kw with
  | [] => (None, [])
  | e :: t => if String.eqb k (fst e) then (Some (snd e), t)
              else let (o, t') := pop k t in (o, e :: t')
  end.
Fixpoint pop_slots (src : string -> V) (ks : list string) (kw : dict) : list V * dict :=
  match ks with
  | [] => ([], kw)
  | k :: t => let (o, kw1) := pop k kw in
              let (vs, kw2) := pop_slots src t kw1 in
              ((match o with Some v => v | None => src k end) :: vs, kw2)
  end.
Definition rebuild (src : string -> V) (m : rec) (kw : dict) : rec * dict :=
  let (fv, kw1) := pop_slots src (names_of m) kw in
  let (rv, kw2) := pop_slots src res_names kw1 in
  (mkRec (rname m) (map (fun p => (fname (fst p), (ftype (fst p), snd p))) (combine (rfields m) fv)) (restamp rv), kw2).
Definition rec_replace (r : rec) (kw : dict) : option rec :=
  let (r', kw') := rebuild (attr r) r kw in
  match kw' with [] => Some r' | _ => None end.
Fixpoint replace_members (ms : list rec) (kw : dict) : list rec * dict :=
  match ms with
  | [] => ([], kw)
  | m :: t => let (m', kw1) := rebuild (attr m) m kw in
              let (t', kw2) := replace_members t kw1 in (m' :: t', kw2)
  end.
Definition group_replace (g : group) (kw : dict) : option group :=
  let (ms, kw') := replace_members (gmembers g) kw in
  match kw' with [] => Some (group_make (gname g) (map ARec ms)) | _ => None end.

(* ---- RecordFieldRewriter (fields / exclude; no expression) ---- *)
Definition rewrite_desc (d : desc) (fields exclude : list string) : desc :=
  match fields with
  | [] => filter (fun e => negb (mem (fst e) exclude)) d
  | _ => flat_map (fun fn => if mem fn exclude then []
                             else match assoc fn d with Some t => [(fn, t)] | None => [] end) fields
  end.
Definition rewrite (r : rec) (fields exclude : list string) : rec :=
  match fields, exclude with
  | [], [] => r
  | _, _ => init_from_dict (rname r) (rewrite_desc (desc_of r) fields exclude)
                           (fun k => chain_get k [[]; asdict r])
  end.

(* ---- specification predicates used by the theorems about groups ---- *)
Definition nonres (k : string) : bool := negb (is_res k).
(* the typename and the member (index into the flattened member list) a slot name is served by:
   the first member that has the slot *)
Fixpoint ref_slot (k : string) (ms : list rec) : option (string * nat) :=
  match ms with
  | [] => None
  | m :: t => match assoc k (desc_of m ++ RES) with
              | Some ty => Some (ty, O)
              | None => option_map (fun ti => (fst ti, S (snd ti))) (ref_slot k t)
              end
  end.
(* a group whose routing table sends every slot to the first member having it and lists the members'
   (non-reserved) field names in order of first appearance *)
Definition group_ok (g : group) : Prop :=
  Forall wf (gmembers g) /\
  (forall k, assoc k (gtab g) = ref_slot k (gmembers g)) /\
  filter nonres (keys (gtab g)) = dedup (List.concat (map names_of (gmembers g))) /\
  NoDup (keys (gtab g)).
(* admissible constructor arguments: well-formed records, and non-empty groups that are group_ok
   (group_make_ok: everything the constructor builds from admissible arguments is group_ok again) *)
Definition arg_ok (a : garg) : Prop :=
  match a with ARec r => wf r | AGrp g => group_ok g /\ gmembers g <> [] end.
(* side conditions on the generated tables, as a boolean *)
Definition tables_ok : bool :=
  nodupb res_names && negb (String.eqb (ts_k1 TS) (ts_k2 TS)) && negb (mem (ts_k1 TS) res_names) && negb (mem (ts_k2 TS) res_names)
  (* every reserved slot except _version is copied from the original record, and nothing else is *)
  && forallb (fun e => Bool.eqb (mem (fst e) (ts_meta TS)) (negb (String.eqb (fst e) "_version"))) RES
  && forallb (fun k => mem k res_names) (ts_meta TS).

(* ============================== P-MODEL ============================== *)
Section PModel.
Variable F : facts.

Definition p_merge_field (replace : bool) (m : desc) (f : string * string) : desc :=
  let skip := f_merge_guard_present F
              && (if f_merge_guard_not_replace F then negb replace else true)
              && (if f_merge_guard_in_map F then has (fst f) m else true) in
  if skip then m else od_set (fst f) (snd f) m.
Definition p_merge_descs (replace : bool) (ds : list desc) : desc :=
  fold_left (fun m d => fold_left (p_merge_field replace) d m) ds [].

(* None = the constructor raises TypeError (unexpected keyword argument) *)
Definition p_init_from_dict (nm : string) (d : desc) (given : list string) (get : string -> option V) : option rec :=
  if negb (f_init_filters_unknown F) && existsb (fun k => negb (mem k (map fst d ++ res_names))) given
  then None else Some (init_from_dict nm d get).

Definition p_extend (replace : bool) (name : option string) (r : rec) (others : list rec) : option rec :=
  let rs := r :: others in
  let maps := map asdict rs in
  let maps := if (if replace then f_extend_rev_when_replace F else f_extend_rev_when_keep F) then rev maps else maps in
  let maps := if f_chain_in_order F then maps else rev maps in
  p_init_from_dict (match name with Some n => n | None => rname r end)
                   (p_merge_descs replace (map desc_of rs))
                   (List.concat (map keys maps))
                   (fun k => chain_get k maps).

Fixpoint p_expand_loop (prev : bool) (orig cur : rec) (fs : list fld) : option (list rec) :=
  match fs with
  | [] => Some []
  | f :: fs' =>
      let src := if f_ts_from_original F then orig else cur in
      match p_extend false (Some (rname orig)) (ts_record (attr src (fname f)) (fname f))
                     [if prev then cur else orig] with
      | None => None
      | Some out0 => let out := copy_meta orig out0 in
                     match p_expand_loop prev orig out fs' with
                     | None => None
                     | Some t => Some (out :: t)
                     end
      end
  end.
Definition p_iter_timestamped (prev : bool) (r : rec) : option (list rec) :=
  match ts_fields r with
  | [] => Some [r]
  | fs => p_expand_loop prev r r fs
  end.

Definition p_gflat (g : group) : desc :=
  map (fun e => (fst e, fst (snd e)))
      (filter (fun e => if f_group_flat_excludes_reserved F then negb (is_res (fst e)) else true) (gtab g)).
Definition p_arg_entries (a : garg) : tab :=
  match a with
  | ARec r => map (fun e => (fst e, (snd e, O))) (desc_of r ++ RES)
  | AGrp g => map (fun e => (fst e, (snd e, route g (fst e)))) (p_gflat g ++ RES)
  end.
Definition p_tab_add (off : nat) (t : tab) (e : string * (string * nat)) : tab :=
  if has (fst e) t then (if f_group_first_wins F then t else od_set (fst e) (fst (snd e), off + snd (snd e)) t)
  else t ++ [(fst e, (fst (snd e), off + snd (snd e)))].
Definition p_group_add (st : list rec * tab) (a : garg) : list rec * tab :=
  (fst st ++ arg_members a, fold_left (p_tab_add (List.length (fst st))) (p_arg_entries a) (snd st)).
(* with the old mapping, getattr(nested_group, k) for a key k that is an attribute of the nested group object (or that the
   nested group itself serves that way) yields that attribute, not a member's value *)
Fixpoint p_shadowed_go (seen : list string) (args : list garg) : list string :=
  match args with
  | [] => []
  | ARec r :: t => p_shadowed_go (seen ++ slots_of r) t
  | AGrp g :: t =>
      let ks := keys (p_gflat g) ++ res_names in
      filter (fun k => negb (mem k seen) && (mem k GATTRS || mem k (gattr g))) ks ++ p_shadowed_go (seen ++ ks) t
  end.
Definition p_shadowed (args : list garg) : list string :=
  if f_group_maps_to_leaf F then [] else p_shadowed_go [] args.
Definition p_group_make (nm : string) (args : list garg) : group :=
  let st := fold_left p_group_add args ([], []) in mkGroup nm (fst st) (snd st) (p_shadowed args).
Definition p_group_get (g : group) (k : string) : option V :=
  if negb (f_group_maps_to_leaf F) && mem k (gattr g) then None
  else if f_group_getattr_routes F then group_get g k
  else match rev (gmembers g) with m :: _ => rec_get m k | [] => None end.
Definition p_group_view (g : group) : rec :=
  mkRec (gname g)
        (map (fun e => (fst e, (snd e, slot_value (p_group_get g) e))) (p_gflat g))
        (map (slot_value (p_group_get g)) RES).

Fixpoint p_replace_members (g : group) (ms : list rec) (kw : dict) : list rec * dict :=
  match ms with
  | [] => ([], kw)
  | m :: t =>
      let src := if f_group_replace_reads_member F then attr m
                 else (fun k => match group_get g k with Some v => v | None => dflt "" end) in
      let (m', kw1) := rebuild src m kw in
      let (t', kw2) := p_replace_members g t kw1 in (m' :: t', kw2)
  end.
Definition p_group_replace (g : group) (kw : dict) : option group :=
  let (ms, kw') := p_replace_members g (gmembers g) kw in
  match kw' with
  | [] => Some (p_group_make (gname g) (map ARec ms))
  | _ => if f_replace_raises_on_leftover F then None else Some (p_group_make (gname g) (map ARec ms))
  end.
Definition p_rec_replace (r : rec) (kw : dict) : option rec :=
  let (r', kw') := rebuild (attr r) r kw in
  match kw' with [] => Some r' | _ => if f_replace_raises_on_leftover F then None else Some r' end.

Definition p_rewrite_desc (d : desc) (fields exclude : list string) : desc :=
  match fields with
  | [] => filter (fun e => negb (mem (fst e) exclude)) d
  | _ => flat_map (fun fn => if f_rewrite_exclude_wins F && mem fn exclude then []
                             else match assoc fn d with
                                  | Some t => [(fn, t)]
                                  | None => if f_rewrite_skips_unknown F then [] else [(fn, "")]
                                  end) fields
  end.
Definition p_rewrite (r : rec) (fields exclude : list string) : option rec :=
  match fields, exclude with
  | [], [] => if f_rewrite_identity_when_empty F then Some r
              else p_init_from_dict (rname r) (desc_of r) (keys (asdict r)) (fun k => chain_get k [[]; asdict r])
  | _, _ => p_init_from_dict (rname r) (p_rewrite_desc (desc_of r) fields exclude) (keys (asdict r))
                             (fun k => chain_get k [[]; asdict r])
  end.
End PModel.
End Model.

(* ---------------------------------------------------------------------------------------------- *)
(* memoisation keyed by descriptors (functools.lru_cache on merge_record_descriptors and, through it, extend_record and
   iter_timestamped_records; RecordFieldRewriter.record_descriptor_for_fields): a cached call returns the stored
   result of an EQUAL key.  Key equality of descriptors is RecordDescriptor.__eq__; its shape is a GENERATED fact. *)
Definition dkey : Type := string * list (string * string).        (* descriptor = (name, fields (name, typename)) *)
(* the string the 32-bit identifier is computed from: name, then field name ++ typename for every field *)
Definition ident_input (d : dkey) : string :=
  String.append (fst d) (fold_right (fun f acc => String.append (fst f) (String.append (snd f) acc)) "" (snd d)).
Definition desc_eqb (a b : list (string * string)) : bool :=
  (fix go (x y : list (string * string)) : bool :=
     match x, y with
     | [], [] => true
     | e :: x', f :: y' => String.eqb (fst e) (fst f) && String.eqb (snd e) (snd f) && go x' y'
     | _, _ => false
     end) a b.
Definition dkey_eqb (structural : bool) (a b : dkey) : bool :=
  if structural then String.eqb (fst a) (fst b) && desc_eqb (snd a) (snd b)
  else String.eqb (ident_input a) (ident_input b).       (* equality of identifiers, at best *)
Fixpoint dkeys_eqb (structural : bool) (a b : list dkey) : bool :=
  match a, b with
  | [], [] => true
  | x :: a', y :: b' => dkey_eqb structural x y && dkeys_eqb structural a' b'
  | _, _ => false
  end.
(* the key of merge_record_descriptors: (descriptors, replace, name) *)
Definition mkey : Type := list dkey * (bool * option string).
Definition mkey_eqb (structural : bool) (a b : mkey) : bool :=
  dkeys_eqb structural (fst a) (fst b) && Bool.eqb (fst (snd a)) (fst (snd b)) &&
  match snd (snd a), snd (snd b) with
  | Some x, Some y => String.eqb x y
  | None, None => true
  | _, _ => false
  end.

Section Cache.
Context {K R : Type}.
Variable keq : K -> K -> bool.
Variable f : K -> R.
Fixpoint cache_find (k : K) (c : list (K * R)) : option R :=
  match c with
  | [] => None
  | e :: t => if keq k (fst e) then Some (snd e) else cache_find k t
  end.
(* a sequence of calls through the cache: the results, in order *)
Fixpoint run_cached (c : list (K * R)) (ks : list K) : list R :=
  match ks with
  | [] => []
  | k :: t => match cache_find k c with
              | Some v => v :: run_cached c t
              | None => f k :: run_cached ((k, f k) :: c) t
              end
  end.
End Cache.

(* ---------------------------------------------------------------------------------------------- *)
(* concrete values for running the model on observations (correspondence check) and for witnesses  *)
From Coq Require Import NArith.
Inductive val := VNone | VTok (id : N) | VName (s : string).
Definition val_eqb (a b : val) : bool :=
  match a, b with
  | VNone, VNone => true
  | VTok x, VTok y => N.eqb x y
  | VName x, VName y => String.eqb x y
  | _, _ => false
  end.
Fixpoint list_eqb {A : Type} (eqb : A -> A -> bool) (a b : list A) : bool :=
  match a, b with
  | [], [] => true
  | x :: a', y :: b' => eqb x y && list_eqb eqb a' b'
  | _, _ => false
  end.
Definition fld_eqb (a b : @fld val) : bool :=
  String.eqb (fst a) (fst b) && String.eqb (fst (snd a)) (fst (snd b)) && val_eqb (snd (snd a)) (snd (snd b)).
Definition rec_eqb (a b : @rec val) : bool :=
  String.eqb (rname a) (rname b) && list_eqb fld_eqb (rfields a) (rfields b) && list_eqb val_eqb (rres a) (rres b).
Definition orec_eqb (a b : option (@rec val)) : bool :=
  match a, b with Some x, Some y => rec_eqb x y | None, None => true | _, _ => false end.
Definition recs_eqb := list_eqb rec_eqb.
Definition orecs_eqb (a b : option (list (@rec val))) : bool :=
  match a, b with Some x, Some y => recs_eqb x y | None, None => true | _, _ => false end.
