(* Model of record equality and hashing in flow.record (flow/record/base.py: Record.__eq__/_pack/__hash__,
   _hashable, GroupedRecord._pack, IGNORE_FIELDS_FOR_COMPARISON and its context manager) together with the part
   of Python's `==` that those methods rely on (comparison of the packed values).
   Definitions only; proofs are in proofs/Equality_proofs.v.

   Representation.
   * [pval] is a Python value as it occurs inside the result of Record._pack(): the packed form of every field
     type (None, bool, int, float, str, bytes, aware datetime, tuple, list, dict) and -- because _pack() leaves a
     value that is not a FieldType alone -- whole record objects ([PRec], [PGrp]) nested in `record` / `record[]`
     fields.  A top-level record is a [PRec] (plain) or a [PGrp] (GroupedRecord).
   * text and bytes are carried as an injective encoding (hex of the UTF-8/surrogatepass bytes resp. of the
     bytes); only their equality is used.
   * a float carries its IEEE-754 bit pattern and a token for the identity of the float OBJECT: CPython's
     container comparison (PyObject_RichCompareBool) answers "equal" for the very same object before calling
     __eq__, which is what makes `r == r` true for a record holding NaN.
   * an aware datetime is observed as (wall-clock microseconds, utcoffset microseconds, token of the tzinfo
     object, "utcoffset depends on fold at this wall time"); see [dt_eq].
   * a record object = descriptor name, declared fields (type, name) and the packed value of every slot
     (declared fields followed by the reserved fields). *)
From Coq Require Import List Bool String ZArith NArith.
Import ListNotations.
Open Scope list_scope.

Inductive pval :=
| PNone
| PBool (b : bool)
| PInt (z : Z)
| PFloat (bits : N) (oid : Z)
| PStr (s : string)
| PBytes (s : string)
| PDt (naive off tz : Z) (exc : bool)
| PTuple (l : list pval)
| PList (l : list pval)
| PDict (kvs : list (string * pval))                    (* insertion order; a key is an injective token of
                                                            the key's equality class (None, numbers, str, bytes, tuples) *)
| PRec (name : string) (fields : list (string * string)) (vals : list pval)
| PGrp (name : string) (members : list pval)
| PFset (l : list pval).                                (* frozenset; only produced by freezing a dict *)

(* What the translator reads off the code (coq/gen/Gen_equality.v). *)
Record facts := {
  f_eq_ign_left : bool;         (* Record.__eq__ passes IGNORE_FIELDS_FOR_COMPARISON to self._pack *)
  f_eq_ign_right : bool;        (* ... and to other._pack *)
  f_eq_isinstance_guard : bool; (* __eq__ answers False for a non-Record before packing *)
  f_eq_descriptors : bool;      (* __eq__ answers False when self._descriptors() != other._descriptors(): the
                                   descriptor (name, fields) of a plain record, the members' descriptors of a
                                   grouped record; RecordDescriptor.__eq__ compares name and field tuples *)
  f_ne_default : bool;          (* neither Record nor GroupedRecord defines __ne__: `!=` is `not ==` *)
  f_hash_ign : bool;            (* Record.__hash__ passes the ignore set to _pack *)
  f_hash_deep : bool;           (* ... and freezes lists/tuples/dicts at every depth *)
  f_hash_dict_unordered : bool; (* a dict is frozen into a frozenset of (key, value) pairs, not a tuple *)
  f_skip_before_append : bool;  (* in _pack the `continue` for an excluded field precedes values.append *)
  f_grp_accepts : bool;         (* GroupedRecord._pack has an excluded_fields parameter *)
  f_grp_forwards : bool;        (* ... and hands it to every member's _pack *)
  f_ctx_exception : bool;       (* ignore_fields_for_comparison puts the previous set back when the scope ends with
                                   an Exception, *)
  f_ctx_base_exception : bool;  (* ... with a BaseException that is no Exception (KeyboardInterrupt, SystemExit), *)
  f_ctx_generator_exit : bool;  (* ... when a suspended generator holding the scope is closed or collected, *)
  f_ctx_control : bool;         (* ... and when control leaves the block by return / break / continue *)
  f_hashable_defined : bool;    (* GroupedRecord does not set __hash__ = None / define __eq__ without __hash__ *)
  f_reserved : list string      (* RESERVED_FIELDS, in order *)
}.

Definition facts_ok (F : facts) : bool :=
  f_eq_ign_left F && f_eq_ign_right F && f_eq_isinstance_guard F && f_eq_descriptors F && f_ne_default F && f_hash_ign F &&
  f_hash_deep F && f_hash_dict_unordered F && f_skip_before_append F && f_grp_accepts F && f_grp_forwards F && f_ctx_exception F &&
  f_ctx_base_exception F && f_ctx_generator_exit F && f_ctx_control F &&
  f_hashable_defined F.

(* ---------- generic list helpers (the function parameter stays outside the `fix` so that they can be used
   in the nested recursion over [pval]) ---------- *)
Definition all2 {A B : Type} (f : A -> B -> bool) : list A -> list B -> bool :=
  fix go l1 l2 :=
    match l1, l2 with
    | [], [] => true
    | x :: t1, y :: t2 => f x y && go t1 t2
    | _, _ => false
    end.

Definition mem (n : string) (l : list string) : bool := existsb (String.eqb n) l.

Fixpoint lookup {A : Type} (k : string) (d : list (string * A)) : option A :=
  match d with
  | [] => None
  | (k', v) :: t => if String.eqb k k' then Some v else lookup k t
  end.

(* RecordDescriptor.get_field_tuples() == : the same (type, name) pairs in the same order *)
Definition fields_eqb (f1 f2 : list (string * string)) : bool :=
  all2 (fun a b => String.eqb (fst a) (fst b) && String.eqb (snd a) (snd b)) f1 f2.

Fixpoint nodupb (l : list string) : bool :=
  match l with [] => true | x :: t => negb (mem x t) && nodupb t end.

(* ---------- numbers ---------- *)
Definition f_exp (bits : N) : N := ((bits / 2 ^ 52) mod 2 ^ 11)%N.
Definition f_man (bits : N) : N := (bits mod 2 ^ 52)%N.
Definition f_neg (bits : N) : bool := negb ((bits / 2 ^ 63) mod 2 =? 0)%N.
Definition is_nan (bits : N) : bool := ((f_exp bits =? 2047) && negb (f_man bits =? 0))%N.
Definition is_zero (bits : N) : bool := ((f_exp bits =? 0) && (f_man bits =? 0))%N.

(* float.__eq__ *)
Definition float_eq (a b : N) : bool :=
  negb (is_nan a) && negb (is_nan b) && ((a =? b)%N || (is_zero a && is_zero b)).

(* int.__eq__(float) / float.__eq__(int): exact comparison of the integer with the double's value *)
Definition int_float_eq (z : Z) (bits : N) : bool :=
  let e := f_exp bits in
  if (e =? 2047)%N then false
  else
    let mant := if (e =? 0)%N then f_man bits else (f_man bits + 2 ^ 52)%N in
    let ex := if (e =? 0)%N then 1%Z else Z.of_N e in
    let sm := if f_neg bits then (- Z.of_N mant)%Z else Z.of_N mant in
    if (1075 <=? ex)%Z then (z =? sm * 2 ^ (ex - 1075))%Z else (z * 2 ^ (1075 - ex) =? sm)%Z.

Definition b2z (b : bool) : Z := if b then 1%Z else 0%Z.

(* element comparison of bool / int / float operands (bool is an int; the same float object is equal to itself) *)
Definition num_eq (a b : pval) : bool :=
  match a, b with
  | PBool x, PBool y => Bool.eqb x y
  | PBool x, PInt z | PInt z, PBool x => (b2z x =? z)%Z
  | PInt x, PInt y => (x =? y)%Z
  | PBool x, PFloat f _ | PFloat f _, PBool x => int_float_eq (b2z x) f
  | PInt z, PFloat f _ | PFloat f _, PInt z => int_float_eq z f
  | PFloat f o, PFloat g p => (o =? p)%Z || float_eq f g
  | _, _ => false
  end.

(* datetime.__eq__ on two aware datetimes (CPython datetime_richcompare): the same tzinfo object -> wall-clock
   fields are compared (fold ignored); otherwise the UTC instants, except that a datetime whose utcoffset
   depends on fold is unequal to everything in another zone (PEP 495) *)
Definition dt_eq (n1 o1 t1 : Z) (e1 : bool) (n2 o2 t2 : Z) (e2 : bool) : bool :=
  if (t1 =? t2)%Z then (n1 =? n2)%Z
  else (n1 - o1 =? n2 - o2)%Z && negb (e1 || e2).

Section Model.
Variable F : facts.
Variable H : string -> list (string * string) -> Z.      (* RecordDescriptor.descriptor_hash (32 bits of sha256) *)

Definition slots (fields : list (string * string)) : list string := map snd fields ++ f_reserved F.

(* `if excluded_fields and k in excluded_fields: continue` -- effective only when it precedes the append *)
Definition skip (ign : list string) (n : string) : bool := f_skip_before_append F && mem n ign.

(* the values tuple of Record._pack(excluded_fields=ign) *)
Fixpoint kept (ign : list string) (ns : list string) (vs : list pval) : list pval :=
  match ns, vs with
  | n :: ns', v :: vs' => if skip ign n then kept ign ns' vs' else v :: kept ign ns' vs'
  | _, _ => []
  end.

(* [all2 f (kept ign ns vs) ks] with the filter fused into the recursion over [vs] *)
Definition all2_kept {B : Type} (f : pval -> B -> bool) (ign : list string) : list string -> list pval -> list B -> bool :=
  fix go ns vs ks {struct vs} :=
    match vs, ns with
    | v :: vs', n :: ns' =>
        if skip ign n then go ns' vs' ks
        else match ks with k :: ks' => f v k && go ns' vs' ks' | [] => false end
    | _, _ => match ks with [] => true | _ :: _ => false end
    end.

Definition map_kept {B : Type} (f : pval -> B) (ign : list string) : list string -> list pval -> list B :=
  fix go ns vs {struct vs} :=
    match vs, ns with
    | v :: vs', n :: ns' => if skip ign n then go ns' vs' else f v :: go ns' vs'
    | _, _ => []
    end.

(* GroupedRecord._pack hands excluded_fields on to its members (or not) *)
Definition fw (ign : list string) : list string := if f_grp_forwards F then ign else [].

(* dict.__eq__: same size and every key of the left has an equal value on the right *)
Definition all_dict (f : pval -> pval -> bool) (d2 : list (string * pval)) : list (string * pval) -> bool :=
  fix go d1 :=
    match d1 with
    | [] => true
    | kv :: t => match lookup (fst kv) d2 with Some w => f (snd kv) w | None => false end && go t
    end.

(* PyObject_RichCompareBool(a, b, Py_EQ) for an element [a] of the left record's packed tuple and the element
   [b] of the right one; [il] / [ir] = the excluded_fields each side's _pack is called with.  Two record
   objects are compared by Record.__eq__: their descriptors (name and field tuples), then their packed tuples
   (identifier and kept values).  For a grouped record __eq__ compares the tuple of the members' descriptors and
   then (name, members' packed tuples), which is the same conjunction as comparing the members one by one. *)
Fixpoint py_eq (il ir : list string) (a b : pval) {struct a} : bool :=
  match a, b with
  | PNone, PNone => true
  | (PBool _ | PInt _ | PFloat _ _), (PBool _ | PInt _ | PFloat _ _) => num_eq a b
  | PStr s, PStr t => String.eqb s t
  | PBytes s, PBytes t => String.eqb s t
  | PDt n1 o1 t1 e1, PDt n2 o2 t2 e2 => dt_eq n1 o1 t1 e1 n2 o2 t2 e2
  | PTuple l1, PTuple l2 => all2 (py_eq il ir) l1 l2
  | PList l1, PList l2 => all2 (py_eq il ir) l1 l2
  | PDict d1, PDict d2 => Nat.eqb (List.length d1) (List.length d2) && all_dict (py_eq il ir) d2 d1
  | PRec n1 f1 v1, PRec n2 f2 v2 =>
      String.eqb n1 n2 && (H n1 f1 =? H n2 f2)%Z && (negb (f_eq_descriptors F) || fields_eqb f1 f2) &&
      all2_kept (py_eq il ir) il (slots f1) v1 (kept ir (slots f2) v2)
  | PGrp n1 m1, PGrp n2 m2 => String.eqb n1 n2 && all2 (py_eq (fw il) (fw ir)) m1 m2
  | PFset l1, PFset l2 =>
      Nat.eqb (List.length l1) (List.length l2) && forallb (fun x => existsb (py_eq il ir x) l2) l1
  | _, _ => false
  end.

Definition is_grp (v : pval) : bool := match v with PGrp _ _ => true | _ => false end.
Definition is_record (v : pval) : bool := match v with PRec _ _ _ | PGrp _ _ => true | _ => false end.

(* Record.__eq__(self, other) under the global ignore set [ign]; None = an exception is raised
   (GroupedRecord._pack called with a keyword it does not have) *)
Definition rec_eq (ign : list string) (a b : pval) : option bool :=
  if negb (is_record b) && f_eq_isinstance_guard F then Some false
  else if (is_grp a || is_grp b) && negb (f_grp_accepts F) then None
  else Some (py_eq (if f_eq_ign_left F then ign else []) (if f_eq_ign_right F then ign else []) a b).

(* `a != b` *)
Definition rec_ne (ign : list string) (a b : pval) : option bool :=
  match rec_eq ign a b with
  | Some x => if f_ne_default F then Some (negb x) else None
  | None => None
  end.

(* ---------- hashing ---------- *)
(* every record object, at any depth, replaced by the tuple its _pack returns: hash(record) is the hash of
   that (frozen) tuple and the hash of a tuple depends on its elements only through their hashes *)
Fixpoint dpack (il : list string) (v : pval) : pval :=
  match v with
  | PTuple l => PTuple (map (dpack il) l)
  | PList l => PList (map (dpack il) l)
  | PDict d => PDict (map (fun kv => (fst kv, dpack il (snd kv))) d)
  | PRec n f vs => PTuple [PTuple [PStr n; PInt (H n f)]; PTuple (map_kept (dpack il) il (slots f) vs)]
  | PGrp n ms => PTuple [PStr n; PTuple (map (dpack (fw il)) ms)]
  | x => x
  end.

(* _hashable: list/tuple -> tuple, dict -> frozenset of (key, value) pairs ([unordered]; a tuple of the pairs
   in insertion order otherwise); [deep] = at every depth, otherwise the outermost container only *)
Fixpoint freeze (deep unordered : bool) (v : pval) : pval :=
  match v with
  | PTuple l => PTuple (if deep then map (freeze deep unordered) l else l)
  | PList l => PTuple (if deep then map (freeze deep unordered) l else l)
  | PDict d =>
      (if unordered then PFset else PTuple)
        (map (fun kv => PTuple [PStr (fst kv); if deep then freeze deep unordered (snd kv) else snd kv]) d)
  | x => x
  end.

(* hashable by Python's rules: no list / dict anywhere (record objects have been packed away by dpack) *)
Fixpoint frozen (v : pval) : bool :=
  match v with
  | PTuple l | PFset l => forallb frozen l
  | PList _ | PDict _ | PRec _ _ _ | PGrp _ _ => false
  | _ => true
  end.

Definition hkey (ign : list string) (r : pval) : pval :=
  freeze (f_hash_deep F) (f_hash_dict_unordered F) (dpack (if f_hash_ign F then ign else []) r).

Variable Hs : pval -> Z.                                 (* Python's hash() on hashable values *)

(* Record.__hash__; None = TypeError *)
Definition rec_hash (ign : list string) (r : pval) : option Z :=
  if is_grp r && negb (f_grp_accepts F) then None
  else if negb (f_hashable_defined F) then None
  else if frozen (hkey ign r) then Some (Hs (hkey ign r)) else None.

(* ---------- the ignore set as global state ---------- *)
(* the ways a `with` block can end *)
Inductive exit_kind :=
| ExNormal                (* falls off the end *)
| ExException             (* an Exception subclass propagates (also one raised by a comparison inside the scope) *)
| ExBaseException         (* KeyboardInterrupt / SystemExit propagates *)
| ExGeneratorExit         (* the scope sits in a suspended generator that is closed or garbage-collected *)
| ExControl.              (* return / break / continue out of the block *)

Definition restores (k : exit_kind) : bool :=
  match k with
  | ExNormal => true
  | ExException => f_ctx_exception F
  | ExBaseException => f_ctx_base_exception F
  | ExGeneratorExit => f_ctx_generator_exit F
  | ExControl => f_ctx_control F
  end.

(* a body runs with the global set to [xs]; it may change the global again (set_ignored_fields_for_comparison,
   further scopes) and ends in one of the ways above *)
Definition body := list string -> list string * exit_kind.     (* global at entry -> (global at exit, how it ended) *)

(* with ignore_fields_for_comparison(xs): body   -- returns (global afterwards, how the block ended: an exception
   keeps propagating) *)
Definition with_ignore (xs : list string) (b : body) (g : list string) : list string * exit_kind :=
  let orig := g in
  let '(g', k) := b xs in
  ((if restores k then orig else g'), k).

End Model.

(* ---------- well-formedness of observed values: dict keys are distinct; no frozenset inside a record ---------- *)
Fixpoint wf (v : pval) : bool :=
  match v with
  | PTuple l | PList l => forallb wf l
  | PDict d => nodupb (map fst d) && forallb (fun kv => wf (snd kv)) d
  | PRec _ _ vs => forallb wf vs
  | PGrp _ ms => forallb wf ms
  | PFset _ => false
  | _ => true
  end.
