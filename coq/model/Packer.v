(* Model of flow.record's value packing on top of msgpack (packer.py, Record._pack, the field types'
   _pack/_unpack pairs and the generated <Record>._unpack).  Definitions only. *)
From Coq Require Import List Bool NArith ZArith Lia.
From Coq Require Import Init.Byte.
From FR Require Import Bytes Msgpack.
Import ListNotations.
Open Scope Z_scope.

(* ------------------------------------------------------------------------------------------ *)
(* 1. the ext-type envelope: msgpack values in which ext type EXT wraps [subtype, payload]       *)

Inductive xv :=
| XNil | XBool (b : bool)
| XInt (z : Z)                       (* any size: outside [-2^63, 2^64) it travels as sub-type VARINT *)
| XF64 (bits : N) | XStr (bs : bytes) | XBin (bs : bytes)
| XArr (l : list xv) | XMap (l : list (xv * xv))
| XExt (sub : Z) (payload : xv).     (* ext EXT around packb([sub, payload]) *)

(* the constants of packer.py / base.py the model is parametrised by (GENERATED: gen/Gen_packer.v) *)
Record cfg := {
  EXT : N;               (* RECORD_PACK_EXT_TYPE *)
  SUB_RECORD : Z; SUB_DESC : Z; SUB_DATETIME : Z; SUB_VARINT : Z; SUB_GROUPED : Z;
  VERSION : Z;           (* RECORD_VERSION *)
  MAGIC : bytes;         (* RECORDSTREAM_MAGIC *)
  GUARD_COMPARES_DESC : bool;  (* writer guard compares the registered descriptor, not only the identifier *)
  IP6_SMALL_PACKED : bool      (* an IPv6 address below 2^32 is packed as its 16 bytes, not as an integer *)
}.

Definition bytelen (n : N) : nat := N.to_nat ((N.size n + 7) / 8).
Definition minbe (n : N) : bytes := be (bytelen n) n.

Definition in_msgpack_range (z : Z) : bool := (- 2 ^ 63 <=? z) && (z <? 2 ^ 64).

Fixpoint lower (c : cfg) (x : xv) : mv :=
  match x with
  | XNil => MNil | XBool b => MBool b
  | XInt z =>
      if in_msgpack_range z then MInt z
      else MExt (EXT c) (enc (MArr [MInt (SUB_VARINT c); MArr [MBool (z <? 0); MBin (minbe (Z.abs_N z))]]))
  | XF64 n => MF64 n | XStr s => MStr s | XBin s => MBin s
  | XArr l => MArr ((fix go (l : list xv) := match l with [] => [] | a :: t => lower c a :: go t end) l)
  | XMap l => MMap ((fix go (l : list (xv * xv)) :=
                       match l with [] => [] | (k, a) :: t => (lower c k, lower c a) :: go t end) l)
  | XExt sub p => MExt (EXT c) (enc (MArr [MInt sub; lower c p]))
  end.

Fixpoint all_some {A} (l : list (option A)) : option (list A) :=
  match l with
  | [] => Some []
  | Some a :: t => match all_some t with Some r => Some (a :: r) | None => None end
  | None :: _ => None
  end.

(* inverse: [depth] bounds the nesting of ext envelopes *)
Fixpoint raise_ (c : cfg) (depth : nat) (m : mv) {struct depth} : option xv :=
  match depth with
  | O => None
  | S d =>
    (fix go (m : mv) : option xv :=
      match m with
      | MNil => Some XNil | MBool b => Some (XBool b) | MInt z => Some (XInt z)
      | MF64 n => Some (XF64 n) | MStr s => Some (XStr s) | MBin s => Some (XBin s)
      | MArr l =>
          match all_some ((fix gol (l : list mv) := match l with [] => [] | a :: t => go a :: gol t end) l) with
          | Some r => Some (XArr r) | None => None end
      | MMap l =>
          match all_some ((fix gom (l : list (mv * mv)) :=
                             match l with
                             | [] => []
                             | (k, a) :: t =>
                                 (match go k, go a with Some k', Some a' => Some (k', a') | _, _ => None end) :: gom t
                             end) l) with
          | Some r => Some (XMap r) | None => None end
      | MExt ty bs =>
          if negb (N.eqb ty (EXT c)) then None
          else match unpackb bs with
               | UOk (MArr [MInt sub; p]) =>
                   if Z.eqb sub (SUB_VARINT c) then
                     match p with
                     | MArr [MBool neg; MBin h] => Some (XInt (if neg then - Z.of_N (unbe h) else Z.of_N (unbe h)))
                     | _ => None
                     end
                   else match raise_ c d p with Some x => Some (XExt sub x) | None => None end
               | _ => None
               end
      end) m
  end.


(* ------------------------------------------------------------------------------------------ *)
(* 2. descriptors, typed field values, records                                                  *)

(* names are byte strings (ASCII in every accepted descriptor) *)
Record desc := Desc { d_name : bytes; d_fields : list (bytes * bytes) (* (type name, field name) *) }.

Inductive dtv :=
| DtTuple (y mo d h mi s us : Z)      (* tzinfo is None or == UTC: packed as the 7 numbers *)
| DtIso (text : bytes)                (* any other tzinfo: packed as isoformat() text *)
| DtObs (y mo d h mi s us off_us : Z) (text : bytes).   (* observation of a value read back (harness only) *)

Inductive pyv :=   (* untyped payload of stringlist / dictlist / dynamic *)
| YNone | YBool (b : bool) | YInt (z : Z) | YFloat (bits : N) | YStr (bs : bytes) | YBytes (bs : bytes)
| YList (l : list pyv) | YTuple (l : list pyv) | YDict (l : list (pyv * pyv)).

Inductive fval :=
| FNone
| FStr (bs : bytes)        (* string wstring uri net.ipnetwork(compressed text) *)
| FInt (z : Z)             (* varint filesize unix_file_mode uint16 uint32 *)
| FBool (b : bool)
| FFloat (bits : N)
| FBytes (bs : bytes)
| FDt (d : dtv)
| FPath (text : bytes) (flavour : Z)
| FCmd (flavour : Z) (body : option (bytes * list bytes))
| FDigest (md5 sha1 sha256 : option bytes)
| FIp (family : Z) (n : Z)                 (* family 4 | 6 *)
| FList (l : list fval)
| FRec (r : rec)
| FPy (v : pyv)
with rec :=
| Rec (d : desc) (vals : list fval)        (* declared fields then the reserved ones, _version last *)
with item_ :=
| IRec (r : rec)
| IGroup (name : bytes) (members : list rec).

Definition item := item_.

Inductive ftype :=
| TString | TInt | TUint (bits : Z) | TBool | TFloat | TBytes | TDatetime | TPath | TCommand | TDigest
| TIpAddr | TIpNet | TRecord | TStringlist | TDictlist | TDynamic | TList (t : ftype) | TUnknown.

Definition bs (s : list byte) := s.

(* type names as byte strings *)
Definition nm_string := [x73;x74;x72;x69;x6e;x67].
Definition nm_wstring := x77 :: nm_string.
Definition nm_uri := [x75;x72;x69].
Definition nm_varint := [x76;x61;x72;x69;x6e;x74].
Definition nm_filesize := [x66;x69;x6c;x65;x73;x69;x7a;x65].
Definition nm_unix_file_mode := [x75;x6e;x69;x78;x5f;x66;x69;x6c;x65;x5f;x6d;x6f;x64;x65].
Definition nm_uint16 := [x75;x69;x6e;x74;x31;x36].
Definition nm_uint32 := [x75;x69;x6e;x74;x33;x32].
Definition nm_boolean := [x62;x6f;x6f;x6c;x65;x61;x6e].
Definition nm_float := [x66;x6c;x6f;x61;x74].
Definition nm_bytes := [x62;x79;x74;x65;x73].
Definition nm_datetime := [x64;x61;x74;x65;x74;x69;x6d;x65].
Definition nm_path := [x70;x61;x74;x68].
Definition nm_command := [x63;x6f;x6d;x6d;x61;x6e;x64].
Definition nm_digest := [x64;x69;x67;x65;x73;x74].
Definition nm_ipaddress := [x6e;x65;x74;x2e;x69;x70;x61;x64;x64;x72;x65;x73;x73].
Definition nm_IPAddress := [x6e;x65;x74;x2e;x49;x50;x41;x64;x64;x72;x65;x73;x73].
Definition nm_ipnetwork := [x6e;x65;x74;x2e;x69;x70;x6e;x65;x74;x77;x6f;x72;x6b].
Definition nm_IPNetwork := [x6e;x65;x74;x2e;x49;x50;x4e;x65;x74;x77;x6f;x72;x6b].
Definition nm_record := [x72;x65;x63;x6f;x72;x64].
Definition nm_stringlist := [x73;x74;x72;x69;x6e;x67;x6c;x69;x73;x74].
Definition nm_dictlist := [x64;x69;x63;x74;x6c;x69;x73;x74].
Definition nm_dynamic := [x64;x79;x6e;x61;x6d;x69;x63].

Definition scalar_ftype (n : bytes) : ftype :=
  if bytes_eqb n nm_string || bytes_eqb n nm_wstring || bytes_eqb n nm_uri then TString
  else if bytes_eqb n nm_varint || bytes_eqb n nm_filesize || bytes_eqb n nm_unix_file_mode then TInt
  else if bytes_eqb n nm_uint16 then TUint 16
  else if bytes_eqb n nm_uint32 then TUint 32
  else if bytes_eqb n nm_boolean then TBool
  else if bytes_eqb n nm_float then TFloat
  else if bytes_eqb n nm_bytes then TBytes
  else if bytes_eqb n nm_datetime then TDatetime
  else if bytes_eqb n nm_path then TPath
  else if bytes_eqb n nm_command then TCommand
  else if bytes_eqb n nm_digest then TDigest
  else if bytes_eqb n nm_ipaddress || bytes_eqb n nm_IPAddress then TIpAddr
  else if bytes_eqb n nm_ipnetwork || bytes_eqb n nm_IPNetwork then TIpNet
  else if bytes_eqb n nm_record then TRecord
  else if bytes_eqb n nm_stringlist then TStringlist
  else if bytes_eqb n nm_dictlist then TDictlist
  else if bytes_eqb n nm_dynamic then TDynamic
  else TUnknown.

(* "T[]" -> typed list of T *)
Definition parse_ftype (n : bytes) : ftype :=
  match rev n with
  | x5d :: x5b :: r => TList (scalar_ftype (rev r))
  | _ => scalar_ftype n
  end.

(* the reserved fields (GENERATED order is checked against this in props): _source _classification
   _generated _version *)
Definition reserved_types : list ftype := [TString; TString; TDatetime; TInt].

Definition field_types (d : desc) : list ftype := map (fun f => parse_ftype (fst f)) (d_fields d) ++ reserved_types.

(* ------------------------------------------------------------------------------------------ *)
(* 3. packing a record (Record._pack + FieldType._pack)                                          *)

(* HASH : desc -> Z  is descriptor_hash: the 32-bit prefix of SHA-256 over the hash input; it stays a
   parameter of every definition that needs it *)

Definition xident (HASH : desc -> Z) (d : desc) : xv := XArr [XStr (d_name d); XInt (HASH d)].

Definition pack_dt (c : cfg) (d : dtv) : xv :=
  match d with
  | DtTuple y mo dd h mi s us => XExt (SUB_DATETIME c) (XArr [XInt y; XInt mo; XInt dd; XInt h; XInt mi; XInt s; XInt us])
  | DtIso t => XExt (SUB_DATETIME c) (XArr [XStr t])
  | DtObs _ _ _ _ _ _ _ _ t => XExt (SUB_DATETIME c) (XArr [XStr t])
  end.

Definition xopt_bin (o : option bytes) : xv := match o with Some b => XBin b | None => XNil end.

Fixpoint pack_py (v : pyv) : xv :=
  match v with
  | YNone => XNil | YBool b => XBool b | YInt z => XInt z | YFloat n => XF64 n | YStr s => XStr s | YBytes s => XBin s
  | YList l | YTuple l => XArr ((fix go (l : list pyv) := match l with [] => [] | a :: t => pack_py a :: go t end) l)
  | YDict l => XMap ((fix go (l : list (pyv * pyv)) :=
                        match l with [] => [] | (k, a) :: t => (pack_py k, pack_py a) :: go t end) l)
  end.

Fixpoint pack_f (c : cfg) (HASH : desc -> Z) (v : fval) : xv :=
  match v with
  | FNone => XNil
  | FStr s => XStr s
  | FInt z => XInt z
  | FBool b => XBool b
  | FFloat n => XF64 n
  | FBytes s => XBin s
  | FDt d => pack_dt c d
  | FPath t fl => XArr [XStr t; XInt fl]
  | FCmd fl (Some (e, args)) => XArr [XArr [XStr e; XArr (map XStr args)]; XInt fl]
  | FCmd fl None => XArr [XNil; XInt fl]
  | FDigest a b c => XArr [xopt_bin a; xopt_bin b; xopt_bin c]
  | FIp fam n => if IP6_SMALL_PACKED c && (fam =? 6) && (n <? 2 ^ 32) then XBin (be 16 (Z.to_N n)) else XInt n
  | FList l => XArr ((fix go (l : list fval) := match l with [] => [] | a :: t => pack_f c HASH a :: go t end) l)
  | FRec r => pack_rec c HASH r
  | FPy v => pack_py v
  end
with pack_rec (c : cfg) (HASH : desc -> Z) (r : rec) : xv :=
  match r with
  | Rec d vals =>
      XExt (SUB_RECORD c) (XArr [xident HASH d;
         XArr ((fix go (l : list fval) := match l with [] => [] | a :: t => pack_f c HASH a :: go t end) vals)])
  end.

Definition pack_vals (c : cfg) (HASH : desc -> Z) (l : list fval) : list xv := map (pack_f c HASH) l.

Definition pack_desc (c : cfg) (d : desc) : xv :=
  XExt (SUB_DESC c) (XArr [XStr (d_name d); XArr (map (fun f => XArr [XStr (fst f); XStr (snd f)]) (d_fields d))]).

Definition pack_member (c : cfg) (HASH : desc -> Z) (r : rec) : xv :=
  match r with Rec d vals => XArr [xident HASH d; XArr (pack_vals c HASH vals)] end.

Definition pack_item (c : cfg) (HASH : desc -> Z) (it : item) : xv :=
  match it with
  | IRec r => pack_rec c HASH r
  | IGroup name members => XExt (SUB_GROUPED c) (XArr [XStr name; XArr (map (pack_member c HASH) members)])
  end.

(* ------------------------------------------------------------------------------------------ *)
(* 4. unpacking (RecordPacker.unpack_obj + <Record>._unpack + __setattr__ coercion)              *)

(* reader registry: identifier -> descriptor, latest registration wins (packer.descriptors) *)
Definition registry := list (bytes * Z * desc).

Fixpoint reg_find (reg : registry) (name : bytes) (h : Z) : option desc :=
  match reg with
  | [] => None
  | (n, h', d) :: t => if bytes_eqb n name && Z.eqb h' h then Some d else reg_find t name h
  end.

Definition reg_add (HASH : desc -> Z) (reg : registry) (d : desc) : registry := (d_name d, HASH d, d) :: reg.

(* old, unversioned identifiers are the bare type name: packer.descriptors[desc.name], latest wins *)
Fixpoint reg_find_name (reg : registry) (name : bytes) : option desc :=
  match reg with
  | [] => None
  | (n, _, d) :: t => if bytes_eqb n name then Some d else reg_find_name t name
  end.

(* identifier_to_str + descriptors.get *)
Definition lookup_ident (reg : registry) (ident : xv) : option desc :=
  match ident with
  | XArr [XStr name; XInt h] | XArr [XBin name; XInt h] => reg_find reg name h
  | XStr name | XBin name => reg_find_name reg name
  | _ => None
  end.

Definition unpack_dt (x : xv) : option dtv :=
  match x with
  | XArr [XInt y; XInt mo; XInt dd; XInt h; XInt mi; XInt s; XInt us] => Some (DtTuple y mo dd h mi s us)
  | XArr [XStr t] => Some (DtIso t)
  | _ => None
  end.

Definition xstr (x : xv) : option bytes := match x with XStr s => Some s | _ => None end.

Definition unpack_optbin (len : nat) (x : xv) : option (option bytes) :=
  match x with
  | XNil => Some None
  | XBin b => match b with
              | [] => Some None                                   (* `if data[i]` : empty is falsy *)
              | _ => if Nat.eqb (List.length b) len then Some (Some b) else None   (* setter: Incorrect hash length *)
              end
  | _ => None
  end.

Fixpoint unpack_py (top : bool) (x : xv) : option pyv :=
  match x with
  | XNil => Some YNone | XBool b => Some (YBool b) | XInt z => Some (YInt z) | XF64 n => Some (YFloat n)
  | XStr s => Some (YStr s) | XBin s => Some (YBytes s)
  | XArr l =>
      match all_some ((fix go (l : list xv) := match l with [] => [] | a :: t => unpack_py false a :: go t end) l) with
      | Some r => Some (if top then YList r else YTuple r)     (* use_list=False: nested arrays come back as tuples *)
      | None => None end
  | XMap l =>
      match all_some ((fix go (l : list (xv * xv)) :=
                         match l with
                         | [] => []
                         | (k, a) :: t =>
                             (match k, unpack_py false a with
                              | XStr ks, Some a' => Some (YStr ks, a')      (* strict_map_key: str (or bytes) keys only *)
                              | XBin kb, Some a' => Some (YBytes kb, a')
                              | _, _ => None end) :: go t
                         end) l) with
      | Some r => Some (YDict r) | None => None end
  | XExt _ _ => None
  end.

Definition default_of (t : ftype) : fval :=
  match t with
  | TList _ => FList []
  | TDigest => FDigest None None None
  | _ => FNone
  end.


(* compatibility handling of RecordPacker.unpack_obj: more values than the descriptor expects -> keep the
   first expected-1 and the last (the version); fewer -> the missing trailing arguments default to None *)
Definition fit (trim : bool) (n : nat) (vs : list xv) : option (list xv) :=
  if Nat.ltb n (List.length vs) then
    if trim then Some (firstn (n - 1) vs ++ [last vs XNil]) else None      (* grouped members: TypeError *)
  else Some (vs ++ repeat XNil (n - List.length vs)).

Fixpoint set_last {A} (a : A) (l : list A) : list A :=
  match l with [] => [] | [_] => [a] | x :: t => x :: set_last a t end.

Fixpoint zip_opt {A B C} (f : A -> B -> option C) (ts : list A) (vs : list B) : list (option C) :=
  match ts, vs with
  | t :: ts', v :: vs' => f t v :: zip_opt f ts' vs'
  | _, _ => []
  end.

(* one value of declared type t.  [depth] bounds record nesting. *)
Fixpoint unpack_f (c : cfg) (depth : nat) (reg : registry) (t : ftype) (x : xv) {struct depth} : option fval :=
  match depth with
  | O => None
  | S dp =>
    match x with
    | XNil => Some (default_of t)
    | _ =>
      match t with
      | TString | TIpNet => match x with XStr s => Some (FStr s) | _ => None end
      | TInt => match x with XInt z => Some (FInt z) | XBool b => Some (FInt (if b then 1 else 0)) | _ => None end
      | TUint bits => match x with
                      | XInt z => if (0 <=? z) && (z <? 2 ^ bits) then Some (FInt z) else None
                      | _ => None end
      | TBool => match x with
                 | XBool b => Some (FBool b)
                 | XInt z => if (0 <=? z) && (z <=? 1) then Some (FBool (Z.eqb z 1)) else None
                 | _ => None end
      | TFloat => match x with XF64 n => Some (FFloat n) | _ => None end
      | TBytes => match x with XBin s => Some (FBytes s) | _ => None end
      | TDatetime => match x with
                     | XExt sub p => if Z.eqb sub (SUB_DATETIME c)
                                     then match unpack_dt p with Some d => Some (FDt d) | None => None end else None
                     | _ => None end
      | TPath => match x with
                 | XArr [XStr s; XInt fl] => Some (FPath s (if Z.eqb fl 1 then 1 else 0))
                 | _ => None end
      | TCommand => match x with
                    | XArr [XNil; XInt fl] => Some (FCmd (if Z.eqb fl 1 then 1 else 0) None)
                    | XArr [XArr [XStr e; XArr args]; XInt fl] =>
                        match all_some (map xstr args) with
                        | Some a => Some (FCmd (if Z.eqb fl 1 then 1 else 0) (Some (e, a)))
                        | None => None end
                    | _ => None end
      | TDigest => match x with
                   | XArr [a; b; c] =>
                       match unpack_optbin 16 a, unpack_optbin 20 b, unpack_optbin 32 c with
                       | Some a', Some b', Some c' => Some (FDigest a' b' c')
                       | _, _, _ => None end
                   | _ => None end
      | TIpAddr => match x with
                   | XInt n => if (0 <=? n) && (n <? 2 ^ 32) then Some (FIp 4 n)
                               else if (0 <=? n) && (n <? 2 ^ 128) then Some (FIp 6 n) else None
                   | XBin b => if Nat.eqb (List.length b) 16 then Some (FIp 6 (Z.of_N (unbe b)))     (* ip_address(bytes) *)
                               else if Nat.eqb (List.length b) 4 then Some (FIp 4 (Z.of_N (unbe b))) else None
                   | _ => None end
      | TRecord =>
          match x with
          | XExt sub (XArr [ident; XArr vals]) =>
              if negb (Z.eqb sub (SUB_RECORD c)) then None
              else match lookup_ident reg ident with
                   | None => None                                   (* RecordDescriptorNotFound *)
                   | Some d =>
                       match vals with [] => None | _ =>            (* values[-1] on an empty tuple: IndexError *)
                       match fit true (List.length (field_types d)) vals with
                       | None => None
                       | Some vals' =>
                         match all_some (zip_opt (unpack_f c dp reg) (field_types d) vals') with
                         | Some r => Some (FRec (Rec d (set_last (FInt (VERSION c)) r)))
                         | None => None
                         end
                       end end
                   end
          | _ => None
          end
      | TList et => match x with
                    | XArr l =>
                        match all_some (map (unpack_f c dp reg et) l) with
                        | Some r => Some (FList r) | None => None end
                    | _ => None end
      | TStringlist | TDictlist => match x with
                                   | XArr _ => match unpack_py true x with Some v => Some (FPy v) | None => None end
                                   | _ => None end
      | TDynamic => match x with
                    | XMap _ | XF64 _ => None           (* dynamic(dict/float): NotImplementedError *)
                    | _ => match unpack_py true x with Some v => Some (FPy v) | None => None end
                    end
      | TUnknown => None
      end
    end
  end.

Definition unpack_rec (c : cfg) (depth : nat) (reg : registry) (x : xv) : option rec :=
  match unpack_f c depth reg TRecord x with Some (FRec r) => Some r | _ => None end.

(* member of a grouped record: [identifier, values], no compatibility trimming *)
Definition unpack_member (c : cfg) (depth : nat) (reg : registry) (x : xv) : option rec :=
  match x with
  | XArr [ident; XArr vals] =>
      match lookup_ident reg ident with
      | None => None
      | Some d =>
          match fit false (List.length (field_types d)) vals with
          | None => None
          | Some vals' =>
              match all_some (zip_opt (unpack_f c depth reg) (field_types d) vals') with
              | Some r => Some (Rec d (set_last (FInt (VERSION c)) r))
              | None => None
              end
          end
      end
  | _ => None
  end.

(* to_str: text, or bytes decoded with surrogateescape (same byte string in this model) *)
Definition xtext (x : xv) : option bytes := match x with XStr s | XBin s => Some s | _ => None end.

Definition unpack_desc (x : xv) : option desc :=
  match x with
  | XArr [nm; XArr fields] =>
      match xtext nm,
            all_some (map (fun f => match f with
                                    | XArr [t; n] => match xtext t, xtext n with Some t', Some n' => Some (t', n') | _, _ => None end
                                    | _ => None end) fields) with
      | Some name, Some fs => Some (Desc name fs)
      | _, _ => None
      end
  | _ => None
  end.

(* what one decoded frame is *)
Inductive frame_obj :=
| OHeader                      (* the RECORDSTREAM magic *)
| ODesc (d : desc)
| OItem (it : item)
| OForeign                     (* some other msgpack value: the reader yields it as it is *)
| OError.                      (* unpack raises *)


Definition interpret (c : cfg) (depth : nat) (reg : registry) (x : xv) : frame_obj :=
  match x with
  | XBin b => if bytes_eqb b (MAGIC c) then OHeader else OForeign
  | XExt sub p =>
      if Z.eqb sub (SUB_DESC c) then match unpack_desc p with Some d => ODesc d | None => OError end
      else if Z.eqb sub (SUB_RECORD c) then match unpack_rec c depth reg x with Some r => OItem (IRec r) | None => OError end
      else if Z.eqb sub (SUB_GROUPED c) then
        match p with
        | XArr [XStr name; XArr ms] =>
            match all_some (map (unpack_member c depth reg) ms) with
            | Some rs => OItem (IGroup name rs)
            | None => OError
            end
        | _ => OError
        end
      else if Z.eqb sub (SUB_DATETIME c) then match unpack_dt p with Some _ => OForeign | None => OError end
      else OError                 (* Unknown subtype *)
  | _ => OForeign
  end.

