(* Model of the command-line tool rdump (flow/record/tools/rdump.py main) and of record_stream
   (flow/record/stream.py).  Definitions only; the proofs are in proofs/Rdump_proofs.v.

   Two halves that the code keeps apart and that the model keeps apart as well:

   * the RECORD side: sources -> record_stream (per-source failure isolation) -> islice(skip, stop) ->
     per record: metadata overrides, RecordFieldRewriter -> list mode / multi-timestamp expansion / write;
   * the URI side: the writer URI as a pure function of (-w, -m, -F, -X, -f, --split, --suffix-length).

   Everything that is a small piece of *code shape* (the joining rule of the query string, the stop expression
   of islice, which exceptions record_stream catches and what the handlers do, whether the writer's __exit__ sits
   in a `finally`, the order of override and rewriter, the condition under which the rewriter is installed, the
   second argument of make_selector, what the multi-timestamp branch writes) is a field of [facts]; the value of
   that record for the code that exists is GENERATED (coq/gen/Gen_rdump.v).

   A record is abstract (type R): the library functions that act on single records (attribute assignment,
   RecordFieldRewriter.rewrite, iter_timestamped_records, the selector engines) are Section variables. *)
From Coq Require Import List Bool String Ascii Arith NArith DecimalString.
Import ListNotations.
Open Scope list_scope.

Infix "+++" := String.append (right associativity, at level 60).

(* ------------------------------------------------------------------------------------------------ *)
(* facts: shapes of the anchored code                                                                 *)

Inductive join_shape :=
| JoinParen        (* uri += ("&" if urlparse(uri).query else "?") + query *)
| JoinUnparen.     (* uri += "&" if urlparse(uri).query else "?" + query     (the old precedence bug) *)

Inductive guard_shape := GuardTruthy (* `if count` *) | GuardNotNone (* `if count is not None` *).
Inductive stop_shape := StopCountPlusSkip | StopCountOnly.

(* what an `except` clause of record_stream does with the loop over the sources *)
Inductive action := Continue | Stop | Propagate.

Inductive order_shape := OverrideThenRewrite | RewriteThenOverride.
Inductive cond_src := CFields | CExclude | CExpr.
Inductive flag_shape := FlagNotNoCompile (* make_selector(sel, not args.no_compile) *) | FlagNoCompile.
Inductive multi_shape := MultiExpandOnly | MultiExpandAndOriginal.
Inductive qsrc := QFields | QExclude | QFormat.

Record facts := {
  f_default_uri : string;                       (* uri = args.writer or "text://" *)
  f_mode_to_uri : list (string * string);
  f_qparams : list (string * qsrc);             (* names and order of the query parameters *)
  f_join : join_shape;
  f_stop_guard : guard_shape;
  f_stop_expr : stop_shape;
  f_default_skip : nat;
  f_default_suffix_length : N;
  f_handlers : list (string * action);          (* record_stream: except clauses in order *)
  f_yield_per_record : bool;                    (* records are yielded one by one while the source is read *)
  f_finally_exit : bool;                        (* record_writer.__exit__() is in a `finally` *)
  f_order : order_shape;
  f_rewriter_cond : list cond_src;              (* `if fields or fields_to_exclude or args.exec_expression` *)
  f_override_guards : list (string * guard_shape);   (* reserved field set <- `is not None` / truthiness test *)
  f_compile_flag : flag_shape;
  f_multi : multi_shape;
  f_split_noscheme : string;                    (* "split://" *)
  f_split_scheme : string;                      (* "split+" *)
  f_split_keys : string * string;               (* ("count", "suffix-length") *)
  f_loop_args : list string;                    (* args.<x> read between `try:` and `finally:` *)
  f_expand_meta : list string                   (* iter_timestamped_records: reserved fields copied from the
                                                   original record onto every expanded record *)
}.

(* ------------------------------------------------------------------------------------------------ *)
(* strings: the part of urllib.parse that main() uses                                                  *)

Fixpoint no_char (c : ascii) (s : string) : bool :=
  match s with
  | EmptyString => true
  | String a t => negb (Ascii.eqb a c) && no_char c t
  end.

Fixpoint before_char (c : ascii) (s : string) : string :=
  match s with
  | EmptyString => EmptyString
  | String a t => if Ascii.eqb a c then EmptyString else String a (before_char c t)
  end.

Fixpoint after_char (c : ascii) (s : string) : option string :=
  match s with
  | EmptyString => None
  | String a t => if Ascii.eqb a c then Some t else after_char c t
  end.

(* str.split(c) *)
Fixpoint split_on (c : ascii) (s : string) : list string :=
  match s with
  | EmptyString => [EmptyString]
  | String a t =>
      if Ascii.eqb a c then EmptyString :: split_on c t
      else match split_on c t with
           | [] => [String a EmptyString]
           | h :: r => String a h :: r
           end
  end.

Fixpoint has_sub (sub s : string) : bool :=
  String.prefix sub s || match s with EmptyString => false | String _ t => has_sub sub t end.

Definition str_empty (s : string) : bool := match s with EmptyString => true | _ => false end.

(* urlparse(u).query for u = [scheme://]rest[?query][#fragment] *)
Definition query_of (u : string) : string :=
  match after_char "?" (before_char "#" u) with Some q => q | None => EmptyString end.
Definition has_query (u : string) : bool := negb (str_empty (query_of u)).
(* scheme + "://" + netloc + path *)
Definition target_of (u : string) : string := before_char "?" (before_char "#" u).
Definition query_items (u : string) : list string := split_on "&" (query_of u).

(* urllib.parse.quote_plus on the UTF-8 bytes of the text (a Coq string is a byte string) *)
Definition is_unreserved (a : ascii) : bool :=
  let n := N_of_ascii a in
  ((48 <=? n) && (n <=? 57) || (65 <=? n) && (n <=? 90) || (97 <=? n) && (n <=? 122)
   || (n =? 95) || (n =? 46) || (n =? 45) || (n =? 126))%N.

Definition hex_digit (n : N) : ascii :=
  ascii_of_N (if (n <? 10)%N then 48 + n else 55 + n)%N.

Definition quote_char (a : ascii) : string :=
  if is_unreserved a then String a EmptyString
  else if Ascii.eqb a " " then String "+" EmptyString
  else let n := N_of_ascii a in
       String "%" (String (hex_digit (n / 16)) (String (hex_digit (n mod 16)) EmptyString)).

Fixpoint quote_plus (s : string) : string :=
  match s with
  | EmptyString => EmptyString
  | String a t => quote_char a +++ quote_plus t
  end.

Definition hex_val (a : ascii) : option N :=
  let n := N_of_ascii a in
  if ((48 <=? n) && (n <=? 57))%N then Some (n - 48)%N
  else if ((65 <=? n) && (n <=? 70))%N then Some (n - 55)%N
  else if ((97 <=? n) && (n <=? 102))%N then Some (n - 87)%N
  else None.

Fixpoint unquote_plus (s : string) : string :=
  match s with
  | EmptyString => EmptyString
  | String a t =>
      if Ascii.eqb a "+" then String " " (unquote_plus t)
      else if Ascii.eqb a "%" then
        match t with
        | String h (String l t') =>
            match hex_val h, hex_val l with
            | Some x, Some y => String (ascii_of_N (16 * x + y)) (unquote_plus t')
            | _, _ => String a (unquote_plus t)
            end
        | _ => String a (unquote_plus t)
        end
      else String a (unquote_plus t)
  end.

Fixpoint join_with (sep : string) (l : list string) : string :=
  match l with
  | [] => EmptyString
  | [x] => x
  | x :: t => x +++ sep +++ join_with sep t
  end.

Definition item_of (kv : string * string) : string := quote_plus (fst kv) +++ "=" +++ quote_plus (snd kv).

(* urlencode(pairs) *)
Definition urlencode (ps : list (string * string)) : string := join_with "&" (map item_of ps).

(* parse_qsl(query): items without '=' or with an empty value are dropped, both sides unquoted *)
Definition parse_item (s : string) : option (string * string) :=
  match after_char "=" s with
  | Some v => if str_empty v then None else Some (unquote_plus (before_char "=" s), unquote_plus v)
  | None => None
  end.

Fixpoint parse_qsl (items : list string) : list (string * string) :=
  match items with
  | [] => []
  | i :: t => match parse_item i with Some kv => kv :: parse_qsl t | None => parse_qsl t end
  end.

(* d[k] = v on an insertion-ordered dict *)
Fixpoint dict_set (d : list (string * string)) (k v : string) : list (string * string) :=
  match d with
  | [] => [(k, v)]
  | (k', v') :: t => if String.eqb k' k then (k, v) :: t else (k', v') :: dict_set t k v
  end.

Definition dict_of (ps : list (string * string)) : list (string * string) :=
  fold_left (fun d kv => dict_set d (fst kv) (snd kv)) ps [].

Fixpoint lookup (k : string) (tbl : list (string * string)) : option string :=
  match tbl with
  | [] => None
  | (k', v) :: t => if String.eqb k' k then Some v else lookup k t
  end.

Definition dec (n : N) : string := NilZero.string_of_uint (N.to_uint n).

(* ------------------------------------------------------------------------------------------------ *)
(* options                                                                                             *)

Record opts := {
  o_skip : nat;
  o_count : option nat;
  o_no_compile : bool;                 (* -n *)
  o_fields : string;                   (* -F text, "" = not given (an empty text is falsy in the code too) *)
  o_exclude : string;                  (* -X *)
  o_expr : option string;              (* -E *)
  o_source : option string;            (* --record-source *)
  o_class : option string;             (* --record-classification *)
  o_multi : bool;                      (* --multi-timestamp *)
  o_list : bool;                       (* -l *)
  o_writer : option string;            (* -w *)
  o_mode : option string;              (* -m *)
  o_format : string;                   (* -f, "" = not given *)
  o_split : option N;                  (* --split *)
  o_suffix_length : N                  (* --suffix-length *)
}.

Definition truthy (o : option string) : bool :=
  match o with Some s => negb (str_empty s) | None => false end.

(* args.fields.split(",") if args.fields else [] *)
Definition comma_list (s : string) : list string := if str_empty s then [] else split_on "," s.

Definition default_opts (F : facts) : opts :=
  {| o_skip := f_default_skip F; o_count := None; o_no_compile := false; o_fields := EmptyString;
     o_exclude := EmptyString; o_expr := None; o_source := None; o_class := None; o_multi := false;
     o_list := false; o_writer := None; o_mode := None; o_format := EmptyString; o_split := None;
     o_suffix_length := f_default_suffix_length F |}.

Definition set_count (o : opts) (c : option nat) : opts :=
  {| o_skip := o_skip o; o_count := c; o_no_compile := o_no_compile o; o_fields := o_fields o;
     o_exclude := o_exclude o; o_expr := o_expr o; o_source := o_source o; o_class := o_class o;
     o_multi := o_multi o; o_list := o_list o; o_writer := o_writer o; o_mode := o_mode o;
     o_format := o_format o; o_split := o_split o; o_suffix_length := o_suffix_length o |}.

Definition set_no_compile (o : opts) (b : bool) : opts :=
  {| o_skip := o_skip o; o_count := o_count o; o_no_compile := b; o_fields := o_fields o;
     o_exclude := o_exclude o; o_expr := o_expr o; o_source := o_source o; o_class := o_class o;
     o_multi := o_multi o; o_list := o_list o; o_writer := o_writer o; o_mode := o_mode o;
     o_format := o_format o; o_split := o_split o; o_suffix_length := o_suffix_length o |}.

(* the options that only the URI side reads: -w, -m, -f, --split, --suffix-length *)
Definition set_output (o : opts) (w m : option string) (f : string) (sp : option N) (sl : N) : opts :=
  {| o_skip := o_skip o; o_count := o_count o; o_no_compile := o_no_compile o; o_fields := o_fields o;
     o_exclude := o_exclude o; o_expr := o_expr o; o_source := o_source o; o_class := o_class o;
     o_multi := o_multi o; o_list := o_list o; o_writer := w; o_mode := m;
     o_format := f; o_split := sp; o_suffix_length := sl |}.

Definition with_join (F : facts) (j : join_shape) : facts :=
  {| f_default_uri := f_default_uri F; f_mode_to_uri := f_mode_to_uri F; f_qparams := f_qparams F; f_join := j;
     f_stop_guard := f_stop_guard F; f_stop_expr := f_stop_expr F; f_default_skip := f_default_skip F;
     f_default_suffix_length := f_default_suffix_length F; f_handlers := f_handlers F;
     f_yield_per_record := f_yield_per_record F; f_finally_exit := f_finally_exit F; f_order := f_order F;
     f_rewriter_cond := f_rewriter_cond F; f_override_guards := f_override_guards F;
     f_compile_flag := f_compile_flag F; f_multi := f_multi F; f_split_noscheme := f_split_noscheme F;
     f_split_scheme := f_split_scheme F; f_split_keys := f_split_keys F; f_loop_args := f_loop_args F;
     f_expand_meta := f_expand_meta F |}.

Definition with_expand_meta (F : facts) (l : list string) : facts :=
  {| f_default_uri := f_default_uri F; f_mode_to_uri := f_mode_to_uri F; f_qparams := f_qparams F; f_join := f_join F;
     f_stop_guard := f_stop_guard F; f_stop_expr := f_stop_expr F; f_default_skip := f_default_skip F;
     f_default_suffix_length := f_default_suffix_length F; f_handlers := f_handlers F;
     f_yield_per_record := f_yield_per_record F; f_finally_exit := f_finally_exit F; f_order := f_order F;
     f_rewriter_cond := f_rewriter_cond F; f_override_guards := f_override_guards F;
     f_compile_flag := f_compile_flag F; f_multi := f_multi F; f_split_noscheme := f_split_noscheme F;
     f_split_scheme := f_split_scheme F; f_split_keys := f_split_keys F; f_loop_args := f_loop_args F;
     f_expand_meta := l |}.

(* ------------------------------------------------------------------------------------------------ *)
(* the URI side                                                                                        *)

Definition qvalue (o : opts) (q : qsrc) : string :=
  match q with QFields => o_fields o | QExclude => o_exclude o | QFormat => o_format o end.

(* {k: v for k, v in qparams.items() if v} *)
Definition live_params (F : facts) (o : opts) : list (string * string) :=
  filter (fun kv => negb (str_empty (snd kv))) (map (fun p => (fst p, qvalue o (snd p))) (f_qparams F)).

Definition join_query (j : join_shape) (uri query : string) : string :=
  match j with
  | JoinParen => uri +++ (if has_query uri then "&" else "?") +++ query
  | JoinUnparen => uri +++ (if has_query uri then "&" else "?" +++ query)
  end.

(* mode_to_uri.get(args.mode, uri) *)
Definition mode_base (F : facts) (mode : option string) : string :=
  match mode with
  | Some m => match lookup m (f_mode_to_uri F) with Some u => u | None => f_default_uri F end
  | None => f_default_uri F
  end.

(* the URI before --split is looked at *)
Definition mode_uri (F : facts) (o : opts) : string :=
  if truthy (o_writer o) then match o_writer o with Some w => w | None => EmptyString end
  else join_query (f_join F) (mode_base F (o_mode o)) (urlencode (live_params F o)).

Definition split_on_n (o : opts) : option N :=
  match o_split o with Some n => if (n =? 0)%N then None else Some n | None => None end.

(* target and parameters of the split URI *)
Definition split_parts (F : facts) (uri : string) (n len : N) : string * list (string * string) :=
  let u := (if has_sub "://" uri then f_split_scheme F else f_split_noscheme F) +++ uri in
  (target_of u,
   dict_set (dict_set (dict_of (parse_qsl (query_items u))) (fst (f_split_keys F)) (dec n))
            (snd (f_split_keys F)) (dec len)).

Definition split_uri (F : facts) (uri : string) (n len : N) : string :=
  let p := split_parts F uri n len in fst p +++ "?" +++ urlencode (snd p).

(* None = usage error (parser.error: --split without -w) *)
Definition final_uri (F : facts) (o : opts) : option string :=
  match split_on_n o with
  | Some n => if truthy (o_writer o) then Some (split_uri F (mode_uri F o) n (o_suffix_length o)) else None
  | None => Some (mode_uri F o)
  end.

(* ------------------------------------------------------------------------------------------------ *)
(* islice                                                                                              *)

(* (args.count + args.skip) if args.count else None *)
Definition stop_of_gen (g : guard_shape) (e : stop_shape) (skip : nat) (count : option nat) : option nat :=
  match count with
  | None => None
  | Some c =>
      if (match g with GuardTruthy => negb (c =? 0) | GuardNotNone => true end)
      then Some (match e with StopCountPlusSkip => c + skip | StopCountOnly => c end)
      else None
  end.

(* itertools.islice(it, start, stop): the elements whose index i satisfies start <= i < stop *)
Fixpoint islice_from {A : Type} (i start : nat) (stop : option nat) (l : list A) : list A :=
  match l with
  | [] => []
  | x :: t =>
      if (start <=? i) && (match stop with Some s => i <? s | None => true end)
      then x :: islice_from (S i) start stop t
      else islice_from (S i) start stop t
  end.

Definition islice {A : Type} (start : nat) (stop : option nat) (l : list A) : list A := islice_from 0 start stop l.

Definition firstn_opt {A : Type} (n : option nat) (l : list A) : list A :=
  match n with Some k => firstn k l | None => l end.

(* the specification's reading of --count: absent or 0 = no limit *)
Definition limit_of (count : option nat) : option nat :=
  match count with Some 0 => None | c => c end.

(* ------------------------------------------------------------------------------------------------ *)
(* sources and record_stream                                                                           *)

(* why a source stops early; [exn] is what record_stream's `try` sees *)
Inductive kind :=
| Missing        (* no such file: FileNotFoundError, an IOError *)
| NotAStream     (* garbage / 0 bytes: IOError("Unknown file format") *)
| CutRecord      (* truncated inside a frame: ValueError from the unpacker *)
| BadLine        (* damaged JSON line: ValueError *)
| CutCompressed  (* truncated compressed file: EOFError, ended silently by the reader's own loop *)
| OpenError      (* not an IOError and raised while the source is OPENED, before `reader` is bound to a reader: a
                    compressed file cut a few bytes after its magic (EOFError in readheader), an undecodable .csv,
                    a garbage .avro *)
| OtherError.

Inductive exn := ExIO | ExOther | ExNone.

Definition exn_of (k : kind) : exn :=
  match k with
  | Missing | NotAStream => ExIO
  | CutRecord | BadLine | OpenError | OtherError => ExOther
  | CutCompressed => ExNone
  end.

(* does `except <name>` catch the exception class *)
Definition catches (name : string) (e : exn) : bool :=
  match e with
  | ExNone => false
  | ExIO => String.eqb name "IOError" || String.eqb name "OSError" || String.eqb name "EnvironmentError"
            || String.eqb name "Exception" || String.eqb name "BaseException"
  | ExOther => String.eqb name "Exception" || String.eqb name "BaseException"
  end.

Fixpoint handler_for (hs : list (string * action)) (e : exn) : action :=
  match hs with
  | [] => Propagate
  | (n, a) :: t => if catches n e then a else handler_for t e
  end.

Section Records.
Variable R : Type.

Record source := { intact_prefix : list R; failure : option kind }.

Definition after_source (F : facts) (s : source) : action :=
  match failure s with
  | None => Continue
  | Some k => match exn_of k with ExNone => Continue | e => handler_for (f_handlers F) e end
  end.

(* the records record_stream yields; the bool says whether an exception left the generator *)
Fixpoint record_stream (F : facts) (sel : R -> bool) (srcs : list source) : list R * bool :=
  match srcs with
  | [] => ([], false)
  | s :: rest =>
      let here := if f_yield_per_record F then filter sel (intact_prefix s)
                  else match failure s with None => filter sel (intact_prefix s) | Some _ => [] end in
      match after_source F s with
      | Continue => let r := record_stream F sel rest in (here ++ fst r, snd r)
      | Stop => (here, false)
      | Propagate => (here, true)
      end
  end.

(* ------------------------------------------------------------------------------------------------ *)
(* the per-record pipeline                                                                             *)

Variable sel_compiled sel_interpreted : R -> bool.     (* the two engines on the -s expression (no -s: both true) *)
Variable set_field : string -> string -> R -> R.       (* rec.<reserved field> = text *)
Variable rewrite : list string -> list string -> option string -> R -> R.   (* RecordFieldRewriter(f, x, e).rewrite *)
Variable expand : R -> list R.                         (* iter_timestamped_records *)

Definition uses_compiled (F : facts) (o : opts) : bool :=
  match f_compile_flag F with FlagNotNoCompile => negb (o_no_compile o) | FlagNoCompile => o_no_compile o end.

Definition sel_of (F : facts) (o : opts) : R -> bool :=
  if uses_compiled F o then sel_compiled else sel_interpreted.

Definition override_value (src cls : option string) (field : string) : option string :=
  if String.eqb field "_source" then src
  else if String.eqb field "_classification" then cls else None.

Definition apply_guard (g : guard_shape) (v : option string) : option string :=
  match g, v with
  | GuardTruthy, Some s => if str_empty s then None else v
  | _, _ => v
  end.

Fixpoint override_gen (gs : list (string * guard_shape)) (src cls : option string) (r : R) : R :=
  match gs with
  | [] => r
  | (field, g) :: t =>
      override_gen t src cls
        (match apply_guard g (override_value src cls field) with Some v => set_field field v r | None => r end)
  end.

Definition cond_holds (o : opts) (c : cond_src) : bool :=
  match c with
  | CFields => negb (str_empty (o_fields o))
  | CExclude => negb (str_empty (o_exclude o))
  | CExpr => truthy (o_expr o)
  end.

(* `if record_field_rewriter: rec = record_field_rewriter.rewrite(rec)` *)
Definition rewrite_gen (F : facts) (o : opts) (r : R) : R :=
  if existsb (cond_holds o) (f_rewriter_cond F)
  then rewrite (comma_list (o_fields o)) (comma_list (o_exclude o)) (o_expr o) r
  else r.

Definition pipeline_gen (F : facts) (o : opts) (r : R) : R :=
  match f_order F with
  | OverrideThenRewrite => rewrite_gen F o (override_gen (f_override_guards F) (o_source o) (o_class o) r)
  | RewriteThenOverride => override_gen (f_override_guards F) (o_source o) (o_class o) (rewrite_gen F o r)
  end.

(* the specification's pipeline *)
Definition override (o : opts) (r : R) : R :=
  let r1 := match o_source o with Some v => set_field "_source" v r | None => r end in
  match o_class o with Some v => set_field "_classification" v r1 | None => r1 end.

Definition project (o : opts) (r : R) : R :=
  rewrite (comma_list (o_fields o)) (comma_list (o_exclude o)) (o_expr o) r.

Definition pipeline (o : opts) (r : R) : R := project o (override o r).

(* ------------------------------------------------------------------------------------------------ *)
(* main(): what is handed to the writer                                                                *)

(* enumerate(islice(record_stream(args.src, selector), args.skip, islice_stop)) after the per-record steps *)
Definition selected (F : facts) (o : opts) (srcs : list source) : list R :=
  map (pipeline_gen F o)
      (islice (o_skip o) (stop_of_gen (f_stop_guard F) (f_stop_expr F) (o_skip o) (o_count o))
              (fst (record_stream F (sel_of F o) srcs))).

Definition write_items (F : facts) (o : opts) (r : R) : list R :=
  if o_multi o then
    match f_multi F with MultiExpandOnly => expand r | MultiExpandAndOriginal => expand r ++ [r] end
  else [r].

(* the sequence of record_writer.write(...) calls *)
Definition written (F : facts) (o : opts) (srcs : list source) : list R :=
  if o_list o then [] else flat_map (write_items F o) (selected F o srcs).

(* "Processed N records" of list mode *)
Definition processed (F : facts) (o : opts) (srcs : list source) : nat := List.length (selected F o srcs).

(* the whole run: the URI the writer is opened with and the writes it receives *)
Definition run (F : facts) (o : opts) (srcs : list source) : option string * list R :=
  (final_uri F o, written F o srcs).

(* An exception while a record is processed or written ([fails r]): the writes made so far are in the output
   only if the writer's __exit__ (flush + close) still runs. *)
Fixpoint ok_prefix (fails : R -> bool) (l : list R) : list R :=
  match l with
  | [] => []
  | r :: t => if fails r then [] else r :: ok_prefix fails t
  end.

Definition output_after_abort (F : facts) (fails : R -> bool) (o : opts) (srcs : list source) : list R :=
  if existsb fails (selected F o srcs)
  then (if f_finally_exit F then flat_map (write_items F o) (ok_prefix fails (selected F o srcs)) else [])
  else written F o srcs.

End Records.

Arguments intact_prefix {R}.
Arguments failure {R}.

(* ------------------------------------------------------------------------------------------------ *)
(* iter_timestamped_records on a concrete record (names, which fields are datetimes, values, metadata)
   -- a concrete instance of [expand], used to state what --multi-timestamp does to the reserved fields.
   extend_record(TimestampRecord(value, name), [rec]): the fields of the timestamp record come first, fields of
   the same name in rec are ignored, and the values come from ChainMap(ts_record, rec): the timestamp record's
   own reserved fields (_source = _classification = None, _generated = now) take precedence -- unless the loop
   then copies a reserved field from the original record ([copied], GENERATED: f_expand_meta). *)

Inductive cval := VId (n : N) | VText (s : string).
Record cfield := { cf_name : string; cf_dt : bool; cf_val : cval }.
Record cmeta := { m_source : option string; m_class : option string; m_generated : N }.
Record crec := { c_name : string; c_fields : list cfield; c_meta : cmeta }.

Definition is_ts_name (n : string) : bool := String.eqb n "ts" || String.eqb n "ts_description".

Definition expand_one (m : cmeta) (r : crec) (f : cfield) : crec :=
  {| c_name := c_name r;
     c_fields := {| cf_name := "ts"; cf_dt := true; cf_val := cf_val f |}
                 :: {| cf_name := "ts_description"; cf_dt := false; cf_val := VText (cf_name f) |}
                 :: filter (fun g => negb (is_ts_name (cf_name g))) (c_fields r);
     c_meta := m |}.

Definition fresh_meta (now : N) : cmeta := {| m_source := None; m_class := None; m_generated := now |}.

Definition smem (x : string) (l : list string) : bool := existsb (String.eqb x) l.

(* metadata of an expanded record: the fresh TimestampRecord's, overwritten by the copied fields *)
Definition expanded_meta (copied : list string) (now : N) (m : cmeta) : cmeta :=
  {| m_source := if smem "_source" copied then m_source m else None;
     m_class := if smem "_classification" copied then m_class m else None;
     m_generated := if smem "_generated" copied then m_generated m else now |}.

Definition meta_all_copied (copied : list string) : bool :=
  smem "_source" copied && smem "_classification" copied && smem "_generated" copied.

(* as implemented *)
Definition expand_impl (copied : list string) (now : N) (r : crec) : list crec :=
  match filter cf_dt (c_fields r) with
  | [] => [r]
  | dts => map (expand_one (expanded_meta copied now (c_meta r)) r) dts
  end.

(* as the property wants it: the expanded records keep the record's metadata *)
Definition expand_spec (r : crec) : list crec :=
  match filter cf_dt (c_fields r) with
  | [] => [r]
  | dts => map (expand_one (c_meta r) r) dts
  end.

Definition strip_meta (r : crec) : string * list cfield := (c_name r, c_fields r).

(* ------------------------------------------------------------------------------------------------ *)
(* what the proofs need from the generated facts (all computed) *)

Definition uri_ok (u : string) : bool := no_char "#" u && (no_char "?" u || has_query u).

Definition cond_mem (c : cond_src) (l : list cond_src) : bool :=
  existsb (fun d => match c, d with CFields, CFields | CExclude, CExclude | CExpr, CExpr => true | _, _ => false end) l.

Definition handlers_continue (hs : list (string * action)) : bool :=
  match handler_for hs ExIO, handler_for hs ExOther with Continue, Continue => true | _, _ => false end.

Definition facts_records_ok (F : facts) : bool :=
  match f_stop_guard F, f_stop_expr F, f_order F, f_compile_flag F, f_multi F with
  | GuardTruthy, StopCountPlusSkip, OverrideThenRewrite, FlagNotNoCompile, MultiExpandOnly => true
  | _, _, _, _, _ => false
  end
  && handlers_continue (f_handlers F) && f_yield_per_record F && f_finally_exit F
  && cond_mem CFields (f_rewriter_cond F) && cond_mem CExclude (f_rewriter_cond F) && cond_mem CExpr (f_rewriter_cond F)
  && match f_override_guards F with
     | [(a, GuardNotNone); (b, GuardNotNone)] => String.eqb a "_source" && String.eqb b "_classification"
     | _ => false
     end
  && (f_default_skip F =? 0).

Definition facts_uri_ok (F : facts) : bool :=
  match f_join F with JoinParen => true | JoinUnparen => false end
  && uri_ok (f_default_uri F) && forallb (fun p => uri_ok (snd p)) (f_mode_to_uri F).

Definition dataflow_ok (F : facts) : bool :=
  forallb (fun a => negb (existsb (String.eqb a) ["mode"; "writer"; "format"; "split"; "suffix_length"; "fields"; "exclude"]%string))
          (f_loop_args F).
