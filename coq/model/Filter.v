(* C10 -- the filter loop of the five readers and the matcher state machines of the two selector engines.
   Definitions only; proofs are in proofs/Filter_proofs.v.

   A reader's __iter__ is a loop over decoded objects.  The translator (tools/vf/factgen/c10.py) reads, for
   every reader, the SHAPE of each `yield` site of that loop (how it is guarded, which object is tested, what
   happens on a non-match) and prints it as a [reader_shape] into gen/Gen_filter.v; [run_loop] below is the loop
   parametrised by that shape.  The decoders themselves (msgpack, JSON, Avro, CSV, SQLite rows -> record) are not
   modelled here: the loop sees their results as an abstract list of [item]s. *)
From Coq Require Import List Bool String.
Import ListNotations.
Open Scope list_scope.

Inductive reader_kind := KStream | KJson | KAvro | KCsv | KSqlite.

(* how one `yield` site is guarded *)
Inductive guard_shape :=
| GSelOrMatch     (* if not self.selector or self.selector.match(x): yield y
                     -- or the inverted form: if self.selector and not self.selector.match(x): continue / yield y *)
| GNone.          (* the yield is not under such a test *)

Record site := {
  s_guard : guard_shape;
  s_tested_same : bool;      (* the object handed to match() is the object yielded (same name, not rebound between) *)
  s_nonmatch_stops : bool    (* a non-match leaves the loop (break / return) instead of going on with the next object *)
}.

(* a reader: the site reached by decoded records, and (JSON only) the site reached by the records built from
   plain JSON lines.  Descriptor lines / descriptor frames / the header reach no yield at all (the translator
   fails closed when a yield is reachable for them). *)
Record reader_shape := { on_record : site; on_plain : option site }.

Definition site_ok (s : site) : bool :=
  match s_guard s with GSelOrMatch => true | GNone => false end && s_tested_same s && negb (s_nonmatch_stops s).

Definition shape_ok (sh : reader_shape) : bool :=
  site_ok (on_record sh) && match on_plain sh with None => true | Some s => site_ok s end.

(* decoded objects as the loop sees them *)
Inductive item (R : Type) :=
| IRec (r : R)       (* a record *)
| IDesc              (* descriptor frame / descriptor line / stream magic: registered, never yielded *)
| IPlain (r : R).    (* JSON: a plain JSON object, converted to the record r by the fallback branch *)
Arguments IRec {R} r.
Arguments IDesc {R}.
Arguments IPlain {R} r.

Section Loop.
Variable R : Type.
(* the selector object as an abstract STATEFUL matcher: None = match() raised *)
Variable S : Type.
Variable match_step : S -> R -> S * option bool.

(* what the iteration produced: the records yielded, and whether it ended by an exception out of match() *)
Definition out := (list R * bool)%type.
Definition cons_out (r : R) (o : out) : out := (r :: fst o, snd o).

Definition site_of (sh : reader_shape) (it : item R) : option (site * R) :=
  match it with
  | IRec r => Some (on_record sh, r)
  | IDesc => None
  | IPlain r => match on_plain sh with Some s => Some (s, r) | None => None end
  end.

(* sel = None: the reader was opened without selector (make_selector gave None).
   prev = the record the loop handled before this one (only used by a site that does not test what it yields) *)
Fixpoint run_loop (sh : reader_shape) (sel : option S) (prev : option R) (items : list (item R)) : out :=
  match items with
  | [] => ([], false)
  | it :: rest =>
      match site_of sh it with
      | None => run_loop sh sel prev rest
      | Some (s, r) =>
          match s_guard s, sel with
          | GNone, _ => cons_out r (run_loop sh sel (Some r) rest)
          | GSelOrMatch, None => cons_out r (run_loop sh sel (Some r) rest)
          | GSelOrMatch, Some st =>
              let t := if s_tested_same s then r else match prev with Some p => p | None => r end in
              match match_step st t with
              | (_, None) => ([], true)
              | (st', Some true) => cons_out r (run_loop sh (Some st') (Some r) rest)
              | (st', Some false) =>
                  if s_nonmatch_stops s then ([], false) else run_loop sh (Some st') (Some r) rest
              end
          end
      end
  end.

(* iterating without selector, then testing each record afterwards with a matcher function; stops at the first
   record on which the test raises *)
Fixpoint post_filter (m : R -> option bool) (rs : list R) : out :=
  match rs with
  | [] => ([], false)
  | r :: t =>
      match m r with
      | None => ([], true)
      | Some true => cons_out r (post_filter m t)
      | Some false => post_filter m t
      end
  end.

Definition truth (m : R -> option bool) (r : R) : bool := match m r with Some true => true | _ => false end.

(* SQLite: the objects are the rows of the tables, table after table *)
Definition sqlite_items (tables : list (list R)) : list (item R) := map IRec (List.concat tables).

End Loop.

Arguments run_loop {R S}.
Arguments post_filter {R}.
Arguments truth {R}.
Arguments cons_out {R}.
Arguments sqlite_items {R}.

(* ------------------------------------------------------------------------------------------------------------ *)
(* The interpreted engine: Selector.match -> RecordContextMatcher.matches.

   State that survives from one match() to the next: whether self.matcher exists, and the matcher's namespace
   self.data (an association list; generator expressions bind their loop variables in it while evaluating).
   The translator reads from the code (a) whether Selector.match keeps and reuses one matcher, (b) which
   attributes `matches` assigns afresh before evaluating (self.data = {...} is one of them on the pinned tree). *)

Section Interpreted.
Variables R V : Type.
Definition ns := list (string * V).

Fixpoint ns_get (d : ns) (k : string) : option V :=
  match d with [] => None | (k', v) :: t => if String.eqb k k' then Some v else ns_get t k end.
(* dict.update: the new bindings win, every other key stays *)
Definition ns_update (d upd : ns) : ns := upd ++ d.

(* the dict display of `matches` plus the whitelist, "r" and "Type": a function of the record only *)
Variable base_ns : R -> ns.
(* evaluation of the selector's body in a namespace: the namespace afterwards (generator variables added) and
   the result (None = raised).  ANY function of the namespace. *)
Variable evalx : ns -> ns * option bool.

Record mstate := { m_created : bool; m_data : ns }.
Definition no_matcher : mstate := {| m_created := false; m_data := [] |}.       (* Selector.__init__ *)
Definition fresh_matcher : mstate := {| m_created := true; m_data := [] |}.     (* RecordContextMatcher.__init__ *)

Definition matches (data_fresh : bool) (st : mstate) (r : R) : mstate * option bool :=
  let d0 := if data_fresh then base_ns r else ns_update (m_data st) (base_ns r) in
  let res := evalx d0 in
  ({| m_created := true; m_data := fst res |}, snd res).

Definition selector_match (reuse data_fresh : bool) (st : mstate) (r : R) : mstate * option bool :=
  matches data_fresh (if m_created st && reuse then st else fresh_matcher) r.

(* the selector object after a history of matched records *)
Fixpoint after_history (reuse data_fresh : bool) (st : mstate) (h : list R) : mstate :=
  match h with [] => st | r :: t => after_history reuse data_fresh (fst (selector_match reuse data_fresh st r)) t end.

(* The compiled engine: CompiledSelector.match.  State = the shared namespace self.ns. *)
Variable call_ns : R -> ns.            (* {"r": WrappedRecord(record), "Type": TypeMatcher(record)} *)
Variable evalc : ns -> ns * option bool.   (* eval(self.code, ns): may bind names in ns (walrus), may raise *)

Definition compiled_match (copied : bool) (shared : ns) (r : R) : ns * option bool :=
  let res := evalc (ns_update shared (call_ns r)) in
  ((if copied then shared else fst res), snd res).

Fixpoint compiled_after (copied : bool) (shared : ns) (h : list R) : ns :=
  match h with [] => shared | r :: t => compiled_after copied (fst (compiled_match copied shared r)) t end.

End Interpreted.

Arguments ns_get {V}.
Arguments ns_update {V}.
Arguments matches {R V}.
Arguments selector_match {R V}.
Arguments after_history {R V}.
Arguments compiled_match {R V}.
Arguments compiled_after {R V}.
Arguments no_matcher {V}.
Arguments fresh_matcher {V}.
Arguments m_created {V}.
Arguments m_data {V}.

(* facts about the matcher classes, read from selector.py by the translator *)
Record matcher_facts := {
  mf_selector_reuses_matcher : bool;     (* Selector.match: `if not self.matcher: self.matcher = RecordContextMatcher(..)` *)
  mf_init_only : list string;            (* attributes assigned in RecordContextMatcher.__init__ and written nowhere else *)
  mf_reset_fresh : list string;          (* attributes `matches` assigns, before evaluating, from an expression that does
                                            not read an attribute it has not already reset in this call *)
  mf_eval_reads : list string;           (* instance attributes read by the methods that run during evaluation *)
  mf_eval_writes : list string;          (* instance attributes written / mutated in place by those methods *)
  mf_compiled_ns_copied : bool           (* CompiledSelector.match evaluates in a copy of self.ns and stores nothing in self *)
}.

Definition smem (a : string) (l : list string) : bool := existsb (String.eqb a) l.

Definition data_fresh_of (f : matcher_facts) : bool := smem "data" (mf_reset_fresh f).

(* every attribute evaluation reads is constant after __init__ or was reset by this call; every attribute it
   writes is reset by the next call: nothing is carried from one record to the next *)
Definition frame_ok (f : matcher_facts) : bool :=
  forallb (fun a => smem a (mf_reset_fresh f) || smem a (mf_init_only f)) (mf_eval_reads f)
  && forallb (fun a => smem a (mf_reset_fresh f)) (mf_eval_writes f)
  && forallb (fun a => negb (smem a (mf_eval_writes f))) (mf_init_only f).

Definition interpreted_ok (f : matcher_facts) : bool :=
  (data_fresh_of f || negb (mf_selector_reuses_matcher f)) && frame_ok f.

(* ------------------------------------------------------------------------------------------------------------ *)
(* make_selector *)
Inductive sel_input :=
| InFalsy        (* None, "" (anything falsy) *)
| InText         (* a non-empty str *)
| InSelector     (* a Selector object *)
| InCompiled     (* a CompiledSelector object *)
| InOther.       (* any other truthy object *)
Inductive sel_output :=
| OutNone                 (* no selector: the reader yields everything *)
| OutNewSelector          (* Selector(<the same expression text>) *)
| OutNewCompiled          (* CompiledSelector(<the same expression text>) *)
| OutSame.                (* the very object that was passed *)

Definition make_selector_spec (i : sel_input) (force_compiled : bool) : sel_output :=
  match i, force_compiled with
  | InFalsy, _ => OutNone
  | InText, false => OutNewSelector
  | InText, true => OutNewCompiled
  | InSelector, false => OutSame
  | InSelector, true => OutNewCompiled
  | InCompiled, _ => OutSame
  | InOther, _ => OutSame
  end.

Definition sel_input_eqb (a b : sel_input) : bool :=
  match a, b with
  | InFalsy, InFalsy | InText, InText | InSelector, InSelector | InCompiled, InCompiled | InOther, InOther => true
  | _, _ => false
  end.
Definition sel_output_eqb (a b : sel_output) : bool :=
  match a, b with
  | OutNone, OutNone | OutNewSelector, OutNewSelector | OutNewCompiled, OutNewCompiled | OutSame, OutSame => true
  | _, _ => false
  end.

Definition ms_table := list (sel_input * bool * sel_output).
Fixpoint ms_lookup (t : ms_table) (i : sel_input) (f : bool) : option sel_output :=
  match t with
  | [] => None
  | (i', f', o) :: rest => if sel_input_eqb i i' && Bool.eqb f f' then Some o else ms_lookup rest i f
  end.
Definition all_inputs : list (sel_input * bool) :=
  flat_map (fun i => [(i, false); (i, true)]) [InFalsy; InText; InSelector; InCompiled; InOther].
Definition ms_table_ok (t : ms_table) : bool :=
  forallb (fun p => match ms_lookup t (fst p) (snd p) with
                    | Some o => sel_output_eqb o (make_selector_spec (fst p) (snd p))
                    | None => false end) all_inputs.

(* which engine / expression a reader ends up with *)
Inductive engine := EInterpreted | ECompiled.
Definition resulting_engine (i : sel_input) (force_compiled : bool) : option engine :=
  match make_selector_spec i force_compiled, i with
  | OutNone, _ => None
  | OutNewSelector, _ => Some EInterpreted
  | OutNewCompiled, _ => Some ECompiled
  | OutSame, InCompiled => Some ECompiled
  | OutSame, _ => Some EInterpreted
  end.
