(* C07 -- syntax of selector expressions and the values they compute.  Definitions only.

   The expression type mirrors Python's `ast` node kinds as flow.record.selector.RecordContextMatcher._eval
   dispatches on them.  `any(<generator expression>)` / `all(<generator expression>)` is one node ([EQuant]);
   every node kind the interpreter has no branch for is [EOther].

   Values: None, bool, int, str (list of code points), list, tuple; the objects a selector can name
   (the record `r`, `Type`, `Type.<type>`, helper functions, field-type modules/constructors) and the
   missing-field sentinel NONE_OBJECT ([VMissing]).  Anything else (floats, bytes, datetimes, bound methods,
   sets ...) is outside the model: the operations answer [Exc EUnmodelled] for it and such cases are covered by
   the implementation-level differential check only. *)
From Coq Require Import List Bool String ZArith NArith.
Import ListNotations.
Open Scope list_scope.

Definition str := list N.     (* a Python str as its code points *)

Inductive value :=
| VNone
| VBool (b : bool)
| VInt (z : Z)
| VStr (s : str)
| VList (l : list value)
| VTuple (l : list value)
| VMissing                      (* flow.record.selector.NONE_OBJECT *)
| VRec                          (* the record being matched (`r`) *)
| VTypeRoot                     (* `Type` = TypeMatcher(record) *)
| VTypeM (t : string) (attrs : list string)
                                (* `Type.<t>[.<attr>...]` for a whitelisted leaf type = TypeMatcherInstance *)
| VSub (name : str) (fields : list (string * string * value))
                                (* a record held by a `record` / `record[]` field: descriptor name, fields *)
| VFunc (f : string)            (* a helper function / any / all / str / repr / fields *)
| VFt (path : string).          (* field-type module or constructor: `net`, `net.ipaddress`, `string` *)

Inductive exc :=
| ETypeError (mentions_nonetype : bool)
| EKeyError | EAttributeError | ENameError | EInvalidOperation | EZeroDivision | EValueError
| EUndefined      (* strict evaluation only: a sub-expression is "not defined" on this record *)
| EUnmodelled.    (* the model declines: value kind or operation outside the modelled fragment *)

Inductive result := Val (v : value) | Exc (x : exc).

Inductive boolop := And | Or.
Inductive unop := Not | USub | UAdd | Invert.
Inductive binop := Add | Mult | Div | Mod | BitAnd | BitOr | Sub | Pow | FloorDiv | BitXor | LShift | RShift | MatMult.
Inductive cmpop := CEq | CNotEq | CLt | CLtE | CGt | CGtE | CIn | CNotIn | CIs | CIsNot.

Inductive expr :=
| EConst (v : value)                                   (* ast.Constant *)
| EName (n : string)                                   (* ast.Name *)
| EAttr (e : expr) (a : string)                        (* ast.Attribute *)
| EList (es : list expr)                               (* ast.List *)
| ETuple (es : list expr)                              (* ast.Tuple *)
| EBoolOp (op : boolop) (es : list expr)               (* ast.BoolOp *)
| EUnary (op : unop) (e : expr)                        (* ast.UnaryOp *)
| EBinOp (op : binop) (l r : expr)                     (* ast.BinOp *)
| ECompare (l : expr) (rest : list (cmpop * expr))     (* ast.Compare: the whole chain *)
| ECall (f : expr) (args : list expr) (kws : list (string * expr))   (* ast.Call *)
| EQuant (all_ : bool) (elt : expr) (gens : list comp) (* any(...)/all(...) over an ast.GeneratorExp *)
| EOther (kind : string)                               (* IfExp, Subscript, Dict, Set, ListComp, JoinedStr, Lambda ... *)
with comp :=
| Comp (target : string) (iter : expr) (ifs : list expr).   (* ast.comprehension *)

(* a record: descriptor name and (field name, field type name, value) in descriptor order *)
Record record := { rec_name : str; rec_fields : list (string * string * value) }.

(* a namespace (the interpreter's `self.data`; Python's scope chain flattened): first match wins *)
Definition names := list (string * value).

Fixpoint lookup (n : string) (d : names) : option value :=
  match d with
  | [] => None
  | (k, v) :: t => if String.eqb k n then Some v else lookup n t
  end.

Definition bind (x : string) (v : value) (d : names) : names := (x, v) :: d.
Definition in_dom (n : string) (d : names) : bool := match lookup n d with Some _ => true | None => false end.

(* ---------------- structural equality of values (used to compare model output with the implementation) *)
Fixpoint list_eqb {A} (f : A -> A -> bool) (a b : list A) : bool :=
  match a, b with
  | [], [] => true
  | x :: s, y :: t => f x y && list_eqb f s t
  | _, _ => false
  end.

Fixpoint value_eqb (a b : value) {struct a} : bool :=
  match a, b with
  | VNone, VNone => true
  | VBool x, VBool y => Bool.eqb x y
  | VInt x, VInt y => Z.eqb x y
  | VStr x, VStr y => list_eqb N.eqb x y
  | VList x, VList y =>
      (fix go (x y : list value) : bool :=
         match x, y with [], [] => true | u :: s, w :: t => value_eqb u w && go s t | _, _ => false end) x y
  | VTuple x, VTuple y =>
      (fix go (x y : list value) : bool :=
         match x, y with [], [] => true | u :: s, w :: t => value_eqb u w && go s t | _, _ => false end) x y
  | VMissing, VMissing => true
  | VRec, VRec => true
  | VTypeRoot, VTypeRoot => true
  | VTypeM x ax, VTypeM y ay => String.eqb x y && list_eqb String.eqb ax ay
  | VSub nx fx, VSub ny fy =>
      list_eqb N.eqb nx ny &&
      (fix go (x y : list (string * string * value)) : bool :=
         match x, y with
         | [], [] => true
         | (n1, t1, u) :: s, (n2, t2, w) :: t => String.eqb n1 n2 && String.eqb t1 t2 && value_eqb u w && go s t
         | _, _ => false
         end) fx fy
  | VFunc x, VFunc y => String.eqb x y
  | VFt x, VFt y => String.eqb x y
  | _, _ => false
  end.

Definition exc_class_eqb (a b : exc) : bool :=
  match a, b with
  | ETypeError _, ETypeError _ => true
  | EKeyError, EKeyError | EAttributeError, EAttributeError | ENameError, ENameError
  | EInvalidOperation, EInvalidOperation | EZeroDivision, EZeroDivision | EValueError, EValueError
  | EUndefined, EUndefined | EUnmodelled, EUnmodelled => true
  | _, _ => false
  end.

Definition is_missing (v : value) : bool := match v with VMissing => true | _ => false end.
Definition is_none (v : value) : bool := match v with VNone => true | _ => false end.

(* the generator variables an expression binds, in evaluation order *)
Fixpoint gvars (e : expr) : list string :=
  match e with
  | EConst _ | EName _ | EOther _ => []
  | EAttr e _ => gvars e
  | EList es | ETuple es | EBoolOp _ es => flat_map gvars es
  | EUnary _ e => gvars e
  | EBinOp _ l r => gvars l ++ gvars r
  | ECompare l rest => gvars l ++ flat_map (fun oc => gvars (snd oc)) rest
  | ECall f args kws => gvars f ++ flat_map gvars args ++ flat_map (fun kw => gvars (snd kw)) kws
  | EQuant _ elt gens =>
      flat_map (fun g => match g with Comp x it cs => x :: gvars it ++ flat_map gvars cs end) gens ++ gvars elt
  end.
