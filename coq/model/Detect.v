(* Model of how flow.record recognises the compression codec and the container format of a source
   (flow/record/base.py: open_stream, open_path, find_adapter_for_stream, RecordAdapter).
   Everything is a function of byte strings ([list byte]); the if-chains and tables of the code are
   DATA (record [facts]) generated from /repo's working tree into gen/Gen_detect.v on every run.
   Definitions only; the proofs are in proofs/Detect_proofs.v. *)
From Coq Require Import List Bool Arith NArith String.
From Coq Require Import Strings.Byte.
Import ListNotations.
Open Scope list_scope.

Definition bytes := list byte.

(* ASCII text as bytes *)
Definition B (s : string) : bytes := list_byte_of_string s.

Fixpoint beqb (a b : bytes) : bool :=
  match a, b with
  | [], [] => true
  | x :: a', y :: b' => Byte.eqb x y && beqb a' b'
  | _, _ => false
  end.

(* bytes.startswith *)
Fixpoint starts_with (p s : bytes) : bool :=
  match p with
  | [] => true
  | x :: p' => match s with [] => false | y :: s' => Byte.eqb x y && starts_with p' s' end
  end.

(* bytes.endswith *)
Definition ends_with (p s : bytes) : bool := starts_with (rev p) (rev s).

(* p in s *)
Fixpoint is_infix (p s : bytes) : bool :=
  match s with
  | [] => starts_with p []
  | _ :: t => starts_with p s || is_infix p t
  end.

(* s[:k] == m *)
Definition slice_eq (k : nat) (s m : bytes) : bool := beqb (firstn k s) m.

(* ---------------------------------------------------------------------------------------------- *)
(* codecs, optional-module flags *)

Inductive codec := Plain | Gzip | Bz2 | Lz4 | Zstd.

Definition codec_eqb (a b : codec) : bool :=
  match a, b with
  | Plain, Plain | Gzip, Gzip | Bz2, Bz2 | Lz4, Lz4 | Zstd, Zstd => true
  | _, _ => false
  end.

(* HAS_BZ2 / HAS_LZ4 / HAS_ZSTD / HAS_AVRO : whether the optional module could be imported *)
Inductive flag := FBz2 | FLz4 | FZstd | FAvro.
Definition env := flag -> bool.
Definition guard_on (e : env) (g : option flag) : bool := match g with None => true | Some f => e f end.

Definition flag_eqb (a b : flag) : bool :=
  match a, b with FBz2, FBz2 | FLz4, FLz4 | FZstd, FZstd | FAvro, FAvro => true | _, _ => false end.
Definition oflag_eqb (a b : option flag) : bool :=
  match a, b with None, None => true | Some x, Some y => flag_eqb x y | _, _ => false end.

(* Independent specification (not generated): the signatures the four formats define for themselves
   (RFC 1952 ID1 ID2; bzip2 "BZh"; LZ4 frame magic 0x184D2204 little-endian; Zstandard frame magic
   0xFD2FB528 little-endian), the conventional file extensions, and which optional module a codec needs. *)
Definition std_magic (c : codec) : bytes :=
  match c with
  | Plain => []
  | Gzip => [x1f; x8b]
  | Bz2 => [x42; x5a; x68]
  | Lz4 => [x04; x22; x4d; x18]
  | Zstd => [x28; xb5; x2f; xfd]
  end.

Definition std_ext (c : codec) : list bytes :=
  match c with
  | Plain => []
  | Gzip => [B ".gz"]
  | Bz2 => [B ".bz2"]
  | Lz4 => [B ".lz4"]
  | Zstd => [B ".zstd"; B ".zst"]
  end.

Definition flag_of (c : codec) : option flag :=
  match c with Plain | Gzip => None | Bz2 => Some FBz2 | Lz4 => Some FLz4 | Zstd => Some FZstd end.

Definition avail (e : env) (c : codec) : bool := guard_on e (flag_of c).

Definition real_codecs : list codec := [Gzip; Bz2; Lz4; Zstd].

(* ---------------------------------------------------------------------------------------------- *)
(* the generated shapes *)

(* one branch of open_stream's if/elif chain:  [HAS_X and] peek_data[:sb_len] == sb_magic  ->  wrap with sb_codec *)
Record sniff_branch := { sb_guard : option flag; sb_len : nat; sb_magic : bytes; sb_codec : codec }.

(* one branch of open_path's chain:  path.endswith(eb_suffixes)  ->  [if not HAS_X: raise RuntimeError]  eb_codec *)
Record ext_branch := { eb_suffixes : list bytes; eb_guard : option flag; eb_codec : codec }.

(* one branch of find_adapter_for_stream *)
Inductive ctest :=
| CPrefix (len : nat) (magic : bytes)        (* peek_data[:len] == magic *)
| CWithin (depth : nat) (magic : bytes).     (* magic in peek_data[:depth] *)
Record cont_branch := { cb_guard : option flag; cb_test : ctest; cb_adapter : bytes }.

(* RecordStreamReader.readheader's acceptance test on the bytes it read *)
Inductive htest :=
| HEndsWith (m : bytes)      (* header.endswith(m) *)
| HContains (m : bytes).     (* m in header *)

Record facts := {
  f_sniff_chain : list sniff_branch;          (* open_stream, in source order *)
  f_sniff_peek : nat;                         (* how many bytes open_stream asks peek() for *)
  f_writer_passthrough : bool;                (* open_stream returns fp unchanged when "w" in mode *)
  f_private_codec_state : bool;               (* every branch of open_stream / open_path builds its own (de)compressor object
                                                 for the stream it opens (none is a module-level instance shared between
                                                 streams) -- what makes [decompress] a function of THIS stream's bytes *)
  f_ext_chain : list ext_branch;              (* open_path, in source order *)
  f_path_fallback_sniffs : bool;              (* open_path: no extension matched, binary read of a file -> open_stream *)
  f_stdin_fallback_sniffs : bool;             (* open_path: path is "-" / "" (standard input), binary read -> open_stream *)
  f_cont_chain : list cont_branch;            (* find_adapter_for_stream, in source order *)
  f_cont_peek : nat;
  f_ext_to_adapter : list (bytes * bytes);    (* RecordAdapter's ext_to_adapter *)
  f_default_adapter : bytes;                  (* ext_to_adapter.get(ext, <this>) *)
  f_rs_magic : bytes;                         (* RECORDSTREAM_MAGIC *)
  f_header_frame : bytes;                     (* the first bytes a RecordStreamWriter writes *)
  f_position_preserved : bool;                (* open_stream / find_adapter_for_stream hand back a stream that continues exactly at the
                                                 position the caller's file object was at (never sought elsewhere): the [bs] the read
                                                 paths below talk about is the content FROM THAT POSITION on *)
  f_no_url_spellings : list (option bytes);   (* RecordReader's url values that mean "no url": the file object / standard input is
                                                 taken and its container SNIFFED (None = argument omitted or None) *)
  f_header_read_len : nat;                    (* RecordStreamReader.readheader: self.fp.read(<this>) *)
  f_header_test : htest;                      (* ... and the test the bytes read must pass (else IOError) *)
  f_flag_deps : list (flag * list bytes);     (* base.py import block: the modules whose import decides each HAS_* flag *)
  f_env : env                                 (* the HAS_* values of the running installation *)
}.

(* the number of leading bytes both peeks rely on *)
Definition peek_depth (F : facts) : nat := Nat.max (f_sniff_peek F) (f_cont_peek F).

(* ---------------------------------------------------------------------------------------------- *)
(* evaluation of the chains *)

Definition sniff_fires (e : env) (b : sniff_branch) (pk : bytes) : bool :=
  guard_on e (sb_guard b) && slice_eq (sb_len b) pk (sb_magic b).

Fixpoint sniff_eval (e : env) (ch : list sniff_branch) (pk : bytes) : codec :=
  match ch with
  | [] => Plain
  | b :: t => if sniff_fires e b pk then sb_codec b else sniff_eval e t pk
  end.

(* open_stream(fp, "rb"): which decompressor wraps fp, given what peek() returned *)
Definition sniff_codec (F : facts) (e : env) (pk : bytes) : codec := sniff_eval e (f_sniff_chain F) pk.

Inductive ext_result :=
| ExtNone                          (* no branch matched: plain file *)
| ExtCodec (c : codec)
| ExtUnavailable (c : codec).      (* RuntimeError("... python module not available") *)

Definition ext_matches (b : ext_branch) (path : bytes) : bool :=
  existsb (fun s => ends_with s path) (eb_suffixes b).

Fixpoint ext_eval (e : env) (ch : list ext_branch) (path : bytes) : ext_result :=
  match ch with
  | [] => ExtNone
  | b :: t =>
      if ext_matches b path
      then (if guard_on e (eb_guard b) then ExtCodec (eb_codec b) else ExtUnavailable (eb_codec b))
      else ext_eval e t path
  end.

(* the (de)compressor open_path chooses from the file name alone; same chain for "rb" and "wb" *)
Definition ext_codec (F : facts) (e : env) (path : bytes) : ext_result := ext_eval e (f_ext_chain F) path.

Definition ctest_holds (t : ctest) (pk : bytes) : bool :=
  match t with
  | CPrefix k m => slice_eq k pk m
  | CWithin d m => is_infix m (firstn d pk)
  end.

Fixpoint cont_eval (e : env) (ch : list cont_branch) (pk : bytes) : option bytes :=
  match ch with
  | [] => None
  | b :: t => if guard_on e (cb_guard b) && ctest_holds (cb_test b) pk then Some (cb_adapter b) else cont_eval e t pk
  end.

(* find_adapter_for_stream: adapter name, given what peek() on the (decompressed) stream returned *)
Definition sniff_container (F : facts) (e : env) (pk : bytes) : option bytes := cont_eval e (f_cont_chain F) pk.

(* what open_path(path, "wb") compresses with / open_path(path, "rb") decompresses with *)
Inductive opened := OCodec (c : codec) | ONotAvailable (c : codec).

Definition open_path_write (F : facts) (e : env) (path : bytes) : opened :=
  match ext_codec F e path with
  | ExtNone => OCodec Plain
  | ExtCodec c => OCodec c
  | ExtUnavailable c => ONotAvailable c
  end.

Definition open_path_read (F : facts) (e : env) (path pk : bytes) : opened :=
  match ext_codec F e path with
  | ExtNone => OCodec (if f_path_fallback_sniffs F then sniff_codec F e pk else Plain)
  | ExtCodec c => OCodec c
  | ExtUnavailable c => ONotAvailable c
  end.

(* open_path("-" or "", "rb"): standard input named explicitly (e.g. through "stream://-"); no extension to go by *)
Definition open_stdin_read (F : facts) (e : env) (pk : bytes) : opened :=
  OCodec (if f_stdin_fallback_sniffs F then sniff_codec F e pk else Plain).

(* ---------------------------------------------------------------------------------------------- *)
(* RecordAdapter: which adapter a URL / path names (posixpath.splitext, urllib.parse.urlsplit restricted to
   what RecordAdapter uses: scheme, netloc + path) *)

Definition b_slash : byte := x2f.
Definition b_dot : byte := x2e.
Definition b_colon : byte := x3a.
Definition b_plus : byte := x2b.
Definition b_hash : byte := x23.
Definition b_qmark : byte := x3f.

(* split at the first occurrence of c: (before, after), c itself dropped *)
Fixpoint split_first (c : byte) (s : bytes) : option (bytes * bytes) :=
  match s with
  | [] => None
  | x :: t =>
      if Byte.eqb x c then Some ([], t)
      else match split_first c t with Some (a, b) => Some (x :: a, b) | None => None end
  end.

Definition basename (p : bytes) : bytes :=
  match split_first b_slash (rev p) with Some (a, _) => rev a | None => p end.

(* os.path.splitext(p)[1]: from the last dot of the last component, unless only dots precede it there *)
Definition splitext_ext (p : bytes) : bytes :=
  match split_first b_dot (rev (basename p)) with
  | None => []
  | Some (after_rev, before_rev) =>
      if forallb (fun x => Byte.eqb x b_dot) before_rev then [] else b_dot :: rev after_rev
  end.

Fixpoint assoc (k : bytes) (t : list (bytes * bytes)) (d : bytes) : bytes :=
  match t with
  | [] => d
  | (k', v) :: t' => if beqb k k' then v else assoc k t' d
  end.

Definition in_range (lo hi : N) (b : byte) : bool := (N.leb lo (Byte.to_N b) && N.leb (Byte.to_N b) hi)%bool.
Definition is_upper := in_range 65 90.
Definition is_lower := in_range 97 122.
Definition is_alpha (b : byte) : bool := is_upper b || is_lower b.
Definition is_digit := in_range 48 57.
(* urllib.parse.scheme_chars *)
Definition scheme_char (b : byte) : bool :=
  is_alpha b || is_digit b || Byte.eqb b b_plus || Byte.eqb b x2d || Byte.eqb b b_dot.
Definition lower_byte (b : byte) : byte :=
  if is_upper b then match Byte.of_N (Byte.to_N b + 32) with Some x => x | None => b end else b.
Definition lower (s : bytes) : bytes := map lower_byte s.

(* urlsplit's scheme detection: (scheme, rest) *)
Definition url_scheme (url dflt : bytes) : bytes * bytes :=
  match split_first b_colon url with
  | Some (x :: pre, post) =>
      if is_alpha x && forallb scheme_char (x :: pre) then (lower (x :: pre), post) else (dflt, url)
  | _ => (dflt, url)
  end.

(* the prefix of s before the first '#' or '?' *)
Fixpoint cut_query (s : bytes) : bytes :=
  match s with
  | [] => []
  | x :: t => if Byte.eqb x b_hash || Byte.eqb x b_qmark then [] else x :: cut_query t
  end.

(* p.netloc + p.path *)
Definition url_netloc_path (rest : bytes) : bytes :=
  match rest with
  | x :: y :: r => if Byte.eqb x b_slash && Byte.eqb y b_slash then cut_query r else cut_query rest
  | _ => cut_query rest
  end.

Record dispatch := { d_adapter : bytes; d_sub : bytes; d_cls_url : bytes }.

(* RecordAdapter's URL branch: adapter module name, sub-adapter, and the path handed to the adapter class *)
Definition adapter_for_url (F : facts) (url : bytes) : dispatch :=
  let dflt := assoc (splitext_ext url) (f_ext_to_adapter F) (f_default_adapter F) in
  let url' := if is_infix (B "://") url then url else dflt ++ B "://" ++ url in
  let '(scheme, rest) := url_scheme url' dflt in
  let '(adapter, sub) := match split_first b_plus scheme with Some (a, s) => (a, s) | None => (scheme, []) end in
  let p := url_netloc_path rest in
  {| d_adapter := adapter; d_sub := sub;
     d_cls_url := match sub with [] => p | _ => sub ++ B "://" ++ p end |}.

(* ---------------------------------------------------------------------------------------------- *)
(* the ways of reading a source.  Environment (NOT verified, enters as Section variables):
   [peek]       what the first peek() on a stream with the given content returns,
   [decompress] the decompressor libraries,
   [parse]      the adapter's reader (RecordStreamReader / fastavro) applied to the plain bytes. *)

(* a source as RecordReader normalises it: the file object / standard input (no url), or a url *)
Inductive source := SrcStream | SrcUrl (u : bytes).

Definition ourl_eqb (a b : option bytes) : bool :=
  match a, b with None, None => true | Some x, Some y => beqb x y | _, _ => false end.

Fixpoint ourl_list_eqb (a b : list (option bytes)) : bool :=
  match a, b with
  | [], [] => true
  | x :: a', y :: b' => ourl_eqb x y && ourl_list_eqb a' b'
  | _, _ => false
  end.

(* RecordReader(url=u, ...): None stands for an omitted / None argument *)
Definition normalise_source (F : facts) (u : option bytes) : source :=
  if existsb (ourl_eqb u) (f_no_url_spellings F) then SrcStream
  else match u with Some x => SrcUrl x | None => SrcStream end.

(* exactly the documented spellings of "standard input / no url": omitted or None, "", "-" *)
Definition std_no_url : list (option bytes) := [None; Some []; Some (B "-")].
Definition spellings_ok (F : facts) : bool := ourl_list_eqb (f_no_url_spellings F) std_no_url.

Section ReadPaths.
Variable F : facts.
Variable e : env.
Variable peek : bytes -> bytes.
Variable decompress : codec -> bytes -> option bytes.
Variable R : Type.
Variable parse : bytes -> bytes -> R.        (* adapter name -> plain content -> what the reader yields *)

Inductive outcome :=
| Read (adapter : bytes) (r : R)
| AdapterNotFound                 (* RecordAdapterNotFound *)
| CodecError                      (* the decompressor rejects the data *)
| NotAvailable (c : codec).       (* RuntimeError: optional module missing *)

Definition unwrap (c : codec) (bs : bytes) : option bytes :=
  match c with Plain => Some bs | _ => decompress c bs end.

(* open_stream(fileobj, "rb") *)
Definition open_stream_rd (bs : bytes) : option bytes := unwrap (sniff_codec F e (peek bs)) bs.

Definition run_adapter (k : bytes) (src : option bytes) : outcome :=
  match src with Some d => Read k (parse k d) | None => CodecError end.

(* adapter class k given a path: cls(cls_url) -> open_path(path, "rb") *)
Definition read_path (k path bs : bytes) : outcome :=
  match open_path_read F e path (peek bs) with
  | OCodec c => run_adapter k (unwrap c bs)
  | ONotAvailable c => NotAvailable c
  end.

(* adapter class k given "-" / "": RecordReader("<scheme>://-"), RecordReader("<scheme>://") -> open_path -> stdin *)
Definition read_stdin_as (k bs : bytes) : outcome :=
  match open_stdin_read F e (peek bs) with
  | OCodec c => run_adapter k (unwrap c bs)
  | ONotAvailable c => NotAvailable c
  end.

(* adapter class k given an open file object: open_path_or_stream -> open_stream *)
Definition read_fileobj_as (k bs : bytes) : outcome := run_adapter k (open_stream_rd bs).

(* RecordReader(fileobj=f) and RecordReader("-") (stdin): open_stream, find_adapter_for_stream, then the
   adapter class receives the (decompressed) stream object and calls open_stream on it once more *)
Definition read_fileobj (bs : bytes) : outcome :=
  match open_stream_rd bs with
  | None => CodecError
  | Some d =>
      match sniff_container F e (peek d) with
      | None => AdapterNotFound
      | Some k => read_fileobj_as k d
      end
  end.

(* RecordReader(url): adapter from extension / scheme, codec from open_path on the class url *)
Definition read_url (url bs : bytes) : outcome :=
  let d := adapter_for_url F url in read_path (d_adapter d) (d_cls_url d) bs.

(* The route is a function of the NORMALISED source only: how "no url" was spelled is not an input of the decision. *)
Definition read_source (s : source) (bs : bytes) : outcome :=
  match s with
  | SrcStream => read_fileobj bs
  | SrcUrl u => read_url u bs
  end.

End ReadPaths.

(* p is the plain content of a container of kind k: a record stream begins with the header frame its writer
   emits, an Avro object container file with "Obj" *)
Definition is_container (F : facts) (e : env) (k p : bytes) : Prop :=
  (k = B "stream" /\ exists rest, p = f_header_frame F ++ rest) \/
  (k = B "avro" /\ e FAvro = true /\ exists rest, p = B "Obj" ++ rest).

Arguments Read {R} _ _.
Arguments AdapterNotFound {R}.
Arguments CodecError {R}.
Arguments NotAvailable {R} _.

(* second stage for the record-stream container: the "stream" adapter's reader accepts the (decompressed) content d only
   if its header passes readheader's test; otherwise IOError("Unknown file format, not a RecordStream") *)
Definition stream_header_ok (F : facts) (d : bytes) : bool :=
  let h := firstn (f_header_read_len F) d in
  match f_header_test F with
  | HEndsWith m => ends_with m h
  | HContains m => is_infix m h
  end.

(* the module each optional-codec flag stands for *)
Definition std_module (f : flag) : bytes :=
  match f with FBz2 => B "bz2" | FLz4 => B "lz4.frame" | FZstd => B "zstandard" | FAvro => B "fastavro" end.

Fixpoint flag_lookup (f : flag) (t : list (flag * list bytes)) : option (list bytes) :=
  match t with [] => None | (g, ms) :: t' => if flag_eqb f g then Some ms else flag_lookup f t' end.

(* What the theorems assume about the environment: the first peek() delivers at least the leading [peek_depth]
   bytes of the stream (or all of it); a compressor's output starts with its format's signature; "no compression"
   is the identity; decompress inverts compress. *)
Definition codec_hyps (F : facts) (peek : bytes -> bytes) (compress : codec -> bytes -> bytes)
           (decompress : codec -> bytes -> option bytes) : Prop :=
  (forall bs, firstn (peek_depth F) (peek bs) = firstn (peek_depth F) bs) /\
  (forall c p, c <> Plain -> starts_with (std_magic c) (compress c p) = true) /\
  (forall p, compress Plain p = p) /\
  (forall c p, c <> Plain -> decompress c (compress c p) = Some p).

(* what the io contract alone promises about peek(): some non-empty prefix (empty only at end of stream) *)
Definition weak_peek (peek : bytes -> bytes) : Prop :=
  (forall bs, exists r, bs = peek bs ++ r) /\ (forall bs, bs <> [] -> peek bs <> []).

Definition incomparable (a b : bytes) : bool := negb (starts_with a b) && negb (starts_with b a).

Fixpoint pairwise_incomparable (l : list bytes) : bool :=
  match l with [] => true | x :: t => forallb (incomparable x) t && pairwise_incomparable t end.

(* ---------------------------------------------------------------------------------------------- *)
(* computed well-formedness of the generated facts (used as [= true] side conditions, closed by reflexivity
   on the generated values in props/C11.v) *)

Fixpoint list_sub (a b : list bytes) : bool :=
  match a with [] => true | x :: t => existsb (beqb x) b && list_sub t b end.

Definition sniff_branch_ok (b : sniff_branch) : bool :=
  negb (codec_eqb (sb_codec b) Plain) &&
  beqb (sb_magic b) (std_magic (sb_codec b)) &&
  Nat.eqb (sb_len b) (List.length (sb_magic b)) &&
  oflag_eqb (sb_guard b) (flag_of (sb_codec b)).

Definition ext_branch_ok (b : ext_branch) : bool :=
  negb (codec_eqb (eb_codec b) Plain) &&
  list_sub (eb_suffixes b) (std_ext (eb_codec b)) && list_sub (std_ext (eb_codec b)) (eb_suffixes b) &&
  oflag_eqb (eb_guard b) (flag_of (eb_codec b)).

Definition covers {A} (proj : A -> codec) (ch : list A) : bool :=
  forallb (fun c => existsb (fun b => codec_eqb (proj b) c) ch) real_codecs.

Definition sniff_chain_ok (F : facts) : bool :=
  forallb sniff_branch_ok (f_sniff_chain F) && covers sb_codec (f_sniff_chain F) &&
  forallb (fun b => Nat.leb (sb_len b) (f_sniff_peek F)) (f_sniff_chain F).

Definition ext_chain_ok (F : facts) : bool :=
  forallb ext_branch_ok (f_ext_chain F) && covers eb_codec (f_ext_chain F).

(* the container chain is: "Obj" prefix (guarded by HAS_AVRO) -> avro, then stream magic within the header
   depth -> stream; the header frame a writer emits is [depth] bytes long and ends with the magic *)
Definition cont_chain_ok (F : facts) : bool :=
  match f_cont_chain F with
  | [ {| cb_guard := Some FAvro; cb_test := CPrefix k m; cb_adapter := a1 |};
      {| cb_guard := None; cb_test := CWithin d rs; cb_adapter := a2 |} ] =>
      beqb m (B "Obj") && Nat.eqb k (List.length m) && beqb a1 (B "avro") && beqb a2 (B "stream") &&
      beqb rs (f_rs_magic F) &&
      Nat.eqb d (List.length (f_header_frame F)) && ends_with rs (f_header_frame F) &&
      Nat.leb d (f_cont_peek F) && Nat.leb k (f_cont_peek F) &&
      incomparable m (f_header_frame F)
  | _ => false
  end.

(* no codec signature is a prefix of (or extends) the header frame or the Avro magic: a plain container is
   never mistaken for compressed data, and vice versa *)
Definition containers_vs_codecs_ok (F : facts) : bool :=
  forallb (fun c => incomparable (std_magic c) (f_header_frame F) && incomparable (std_magic c) (B "Obj")) real_codecs.

Definition adapters_ok (F : facts) : bool :=
  let names := f_default_adapter F :: map snd (f_ext_to_adapter F) in
  forallb (fun n => match n with
                    | x :: _ => is_lower x && forallb (fun b => is_lower b || is_digit b) n
                    | [] => false end) names.

(* readheader reads exactly one header frame and requires it to END with the stream magic *)
Definition header_ok (F : facts) : bool :=
  Nat.eqb (f_header_read_len F) (List.length (f_header_frame F)) &&
  match f_header_test F with HEndsWith m => beqb m (f_rs_magic F) | HContains _ => false end.

(* every HAS_* flag is decided by the import of exactly its own module (so that [e f] means "f's module is importable",
   independently of the other optional modules) *)
Definition flag_deps_ok (F : facts) : bool :=
  forallb (fun f => match flag_lookup f (f_flag_deps F) with
                    | Some [m] => beqb m (std_module f)
                    | _ => false end) [FBz2; FLz4; FZstd; FAvro].

Definition facts_ok (F : facts) : bool :=
  sniff_chain_ok F && ext_chain_ok F && cont_chain_ok F && containers_vs_codecs_ok F && adapters_ok F &&
  f_writer_passthrough F && f_path_fallback_sniffs F && f_stdin_fallback_sniffs F && f_private_codec_state F &&
  header_ok F && flag_deps_ok F && f_position_preserved F && spellings_ok F.
