(* model/IsoTime.v -- executable model of the timestamp field type's value, its ISO-8601 text form
   (exactly what datetime.isoformat() prints / datetime.fromisoformat() reads back), the instant as integer
   microseconds since 1970-01-01T00:00:00Z (proleptic Gregorian calendar), and the four storage encodings
   (binary stream 7-tuple / ISO text, JSON, SQLite, Avro timestamp-micros).  DEFINITIONS ONLY.

   A value is (wall clock fields, offset): `off = None` is a naive datetime, `Some z` an aware one whose
   utcoffset() is z microseconds (signed, |z| < 24 h).  zoneinfo is an oracle: the offset is whatever the
   implementation's utcoffset() answers for (wall time, fold). *)
From Coq Require Import List ZArith Bool String Ascii.
Import ListNotations.
Open Scope Z_scope.
Open Scope list_scope.

Record dtv : Set := mkdt { yr : Z; mo : Z; dy : Z; hh : Z; mi : Z; ss : Z; us : Z; off : option Z }.

(* ---------------------------------------------------------------- validity (datetime's own ranges) *)
Definition DAY_US : Z := 86400000000.
Definition HOUR_US : Z := 3600000000.
Definition MIN_US : Z := 60000000.
Definition SEC_US : Z := 1000000.

Definition is_leap (y : Z) : bool := (y mod 4 =? 0) && (negb (y mod 100 =? 0) || (y mod 400 =? 0)).
Definition days_in_month (y m : Z) : Z :=
  if m =? 2 then (if is_leap y then 29 else 28)
  else if (m =? 4) || (m =? 6) || (m =? 9) || (m =? 11) then 30 else 31.
Definition valid_date (y m d : Z) : bool :=
  (1 <=? m) && (m <=? 12) && (1 <=? d) && (d <=? days_in_month y m).
Definition valid_time (h m s u : Z) : bool :=
  (0 <=? h) && (h <? 24) && (0 <=? m) && (m <? 60) && (0 <=? s) && (s <? 60) && (0 <=? u) && (u <? SEC_US).
Definition valid_off (o : option Z) : bool :=
  match o with None => true | Some z => (- DAY_US <? z) && (z <? DAY_US) end.
Definition validb (d : dtv) : bool :=
  (1 <=? yr d) && (yr d <=? 9999) && valid_date (yr d) (mo d) (dy d)
  && valid_time (hh d) (mi d) (ss d) (us d) && valid_off (off d).
Definition valid (d : dtv) : Prop := validb d = true.
Definition aware (d : dtv) : Prop := off d <> None.

(* the coercion rule of the field type: a naive value means UTC, wall clock fields unchanged *)
Definition coerce (d : dtv) : dtv :=
  match off d with Some _ => d | None => mkdt (yr d) (mo d) (dy d) (hh d) (mi d) (ss d) (us d) (Some 0) end.
Definition wall (d : dtv) : Z * Z * Z * Z * Z * Z * Z := (yr d, mo d, dy d, hh d, mi d, ss d, us d).

(* ---------------------------------------------------------------- fixed-width decimal fields *)
Definition digit_char (n : Z) : ascii := ascii_of_N (Z.to_N (48 + n)).
Definition digit_val (c : ascii) : option Z :=
  let n := Z.of_N (N_of_ascii c) - 48 in if (0 <=? n) && (n <=? 9) then Some n else None.

(* k digits, most significant first, followed by `rest` *)
Fixpoint pd (k : nat) (n : Z) (rest : list ascii) : list ascii :=
  match k with
  | O => rest
  | S k' => digit_char (n / 10 ^ Z.of_nat k') :: pd k' (n mod 10 ^ Z.of_nat k') rest
  end.
Definition print_digits (k : nat) (n : Z) : list ascii := pd k n [].

Fixpoint parse_digits (k : nat) (acc : Z) (s : list ascii) : option (Z * list ascii) :=
  match k with
  | O => Some (acc, s)
  | S k' => match s with
            | [] => None
            | c :: t => match digit_val c with
                        | None => None
                        | Some v => parse_digits k' (acc * 10 + v) t
                        end
            end
  end.

Definition expect (c : ascii) (s : list ascii) : option (list ascii) :=
  match s with
  | x :: t => if Ascii.eqb x c then Some t else None
  | [] => None
  end.

(* ---------------------------------------------------------------- isoformat() *)
Definition print_frac (u : Z) (rest : list ascii) : list ascii :=
  if u =? 0 then rest else "."%char :: pd 6 u rest.

Definition print_off (o : option Z) (rest : list ascii) : list ascii :=
  match o with
  | None => rest
  | Some z =>
      let a := Z.abs z in
      let s := (a / SEC_US) mod 60 in
      let u := a mod SEC_US in
      (if z <? 0 then "-"%char else "+"%char)
        :: pd 2 (a / HOUR_US) (":"%char :: pd 2 ((a / MIN_US) mod 60)
             (if u =? 0 then (if s =? 0 then rest else ":"%char :: pd 2 s rest)
              else ":"%char :: pd 2 s ("."%char :: pd 6 u rest)))
  end.

Definition iso_print_sep (sep : ascii) (d : dtv) : list ascii :=
  pd 4 (yr d) ("-"%char :: pd 2 (mo d) ("-"%char :: pd 2 (dy d) (sep :: pd 2 (hh d) (":"%char :: pd 2 (mi d)
    (":"%char :: pd 2 (ss d) (print_frac (us d) (print_off (off d) []))))))).
Definition iso_print_l (d : dtv) : list ascii := iso_print_sep "T"%char d.
(* datetime.isoformat() *)
Definition iso_print (d : dtv) : string := string_of_list_ascii (iso_print_l d).
(* datetime.isoformat(" ")  (what __str__ prints when no display zone is configured) *)
Definition iso_print_space (d : dtv) : string := string_of_list_ascii (iso_print_sep " "%char d).

(* ---------------------------------------------------------------- fromisoformat() on that language
   (date, 'T' or ' ', time with optional 6-digit fraction, optional offset [+-]HH:MM[:SS[.ffffff]] or 'Z') *)
Definition parse_frac (s : list ascii) : option (Z * list ascii) :=
  match s with
  | "."%char :: t => parse_digits 6 0 t
  | _ => Some (0, s)
  end.

(* q = the reader has CPython's C-implementation quirk (probed, GENERATED fact): an offset whose whole seconds are
   zero is taken to be UTC and its microseconds are dropped ("+00:00:00.000001" reads as UTC) *)
Definition mk_off (q neg : bool) (h m s u : Z) : option (option Z) :=
  if q && (h =? 0) && (m =? 0) && (s =? 0) then Some (Some 0)
  else let a := ((h * 60 + m) * 60 + s) * SEC_US + u in Some (Some (if neg then - a else a)).
(* offsets the reader q reads exactly: all of them without the quirk; with it, zero or at least one second *)
Definition off_exact (q : bool) (o : option Z) : bool :=
  match o with None => true | Some z => negb q || (z =? 0) || (SEC_US <=? Z.abs z) end.

Definition parse_off_body (q neg : bool) (t : list ascii) : option (option Z) :=
  match parse_digits 2 0 t with
  | None => None
  | Some (h, t1) =>
    match expect ":"%char t1 with
    | None => None
    | Some t2 =>
      match parse_digits 2 0 t2 with
      | None => None
      | Some (m, t3) =>
        match t3 with
        | [] => mk_off q neg h m 0 0
        | c3 :: t4 =>
          if Ascii.eqb c3 ":"%char then
            match parse_digits 2 0 t4 with
            | None => None
            | Some (s, t5) =>
              match t5 with
              | [] => mk_off q neg h m s 0
              | c5 :: t6 =>
                if Ascii.eqb c5 "."%char then
                  match parse_digits 6 0 t6 with
                  | Some (u, []) => mk_off q neg h m s u
                  | _ => None
                  end
                else None
              end
            end
          else None
        end
      end
    end
  end.

Definition parse_off (q : bool) (s : list ascii) : option (option Z) :=
  match s with
  | [] => Some None
  | c :: t =>
      if Ascii.eqb c "+"%char then parse_off_body q false t
      else if Ascii.eqb c "-"%char then parse_off_body q true t
      else if Ascii.eqb c "Z"%char then (match t with [] => Some (Some 0) | _ => None end)
      else None
  end.

Definition obind {A B : Type} (x : option A) (f : A -> option B) : option B :=
  match x with Some a => f a | None => None end.

Definition parse_sep (s : list ascii) : option (list ascii) :=
  match s with
  | c :: t => if Ascii.eqb c "T"%char || Ascii.eqb c " "%char then Some t else None
  | [] => None
  end.

Definition iso_parse_l (q : bool) (s : list ascii) : option dtv :=
  obind (parse_digits 4 0 s) (fun '(y, s1) =>
  obind (expect "-"%char s1) (fun s2 =>
  obind (parse_digits 2 0 s2) (fun '(m, s3) =>
  obind (expect "-"%char s3) (fun s4 =>
  obind (parse_digits 2 0 s4) (fun '(d, s5) =>
  obind (parse_sep s5) (fun s6 =>
  obind (parse_digits 2 0 s6) (fun '(h, s7) =>
  obind (expect ":"%char s7) (fun s8 =>
  obind (parse_digits 2 0 s8) (fun '(mn, s9) =>
  obind (expect ":"%char s9) (fun s10 =>
  obind (parse_digits 2 0 s10) (fun '(sc, s11) =>
  obind (parse_frac s11) (fun '(u, s12) =>
  obind (parse_off q s12) (fun o =>
  let r := mkdt y m d h mn sc u o in if validb r then Some r else None))))))))))))).

Definition iso_parse (q : bool) (s : string) : option dtv := iso_parse_l q (list_ascii_of_string s).

(* ---------------------------------------------------------------- the instant: proleptic Gregorian day count *)
(* days since 1970-01-01 of the civil date y-m-d *)
Definition days_from_civil (y m d : Z) : Z :=
  let y' := if m <=? 2 then y - 1 else y in
  let era := y' / 400 in
  let yoe := y' - era * 400 in
  let mp := if 2 <? m then m - 3 else m + 9 in
  let doy := (153 * mp + 2) / 5 + d - 1 in
  let doe := yoe * 365 + yoe / 4 - yoe / 100 + doy in
  era * 146097 + doe - 719468.

Definition civil_of_doe (doe : Z) : Z * Z * Z :=       (* (year of era (March based), month, day) *)
  let yoe := (doe - doe / 1460 + doe / 36524 - doe / 146096) / 365 in
  let doy := doe - (365 * yoe + yoe / 4 - yoe / 100) in
  let mp := (5 * doy + 2) / 153 in
  let d := doy - (153 * mp + 2) / 5 + 1 in
  let m := if mp <? 10 then mp + 3 else mp - 9 in
  (yoe, m, d).

Definition civil_from_days (z : Z) : Z * Z * Z :=
  let z' := z + 719468 in
  let era := z' / 146097 in
  let doe := z' - era * 146097 in
  match civil_of_doe doe with
  | (yoe, m, d) => let y := yoe + era * 400 in (if m <=? 2 then y + 1 else y, m, d)
  end.

Definition off_or_utc (d : dtv) : Z := match off d with Some z => z | None => 0 end.

(* microseconds since the epoch of the instant the value denotes (wall clock minus offset; naive = UTC) *)
Definition to_micros (d : dtv) : Z :=
  (((days_from_civil (yr d) (mo d) (dy d) * 24 + hh d) * 60 + mi d) * 60 + ss d) * SEC_US + us d - off_or_utc d.

(* EPOCH + timedelta(microseconds=n): the aware UTC value of an instant *)
Definition from_micros_utc (n : Z) : dtv :=
  let days := n / DAY_US in
  let r := n mod DAY_US in
  match civil_from_days days with
  | (y, m, d) => mkdt y m d (r / HOUR_US) ((r / MIN_US) mod 60) ((r / SEC_US) mod 60) (r mod SEC_US) (Some 0)
  end.

Definition to_utc (d : dtv) : dtv := from_micros_utc (to_micros d).

Definition MIN_MICROS : Z := to_micros (mkdt 1 1 1 0 0 0 0 (Some 0)).
Definition MAX_MICROS : Z := to_micros (mkdt 9999 12 31 23 59 59 999999 (Some 0)).
Definition in_utc_range (d : dtv) : bool := (MIN_MICROS <=? to_micros d) && (to_micros d <=? MAX_MICROS).

(* ---------------------------------------------------------------- input forms of datetime.__new__ *)
Inductive dt_input : Type :=
| InObj (d : dtv) (off_fold0 : option Z)
     (* a datetime object: wall clock fields and utcoffset() (None = naive); off_fold0 is the zone's answer
        for the same wall clock with fold=0 (it differs from `off d` only for fold=1 values in a DST fold/gap) *)
| InText (s : string)          (* ISO text *)
| InEpochMicros (n : Z).       (* an epoch number, given exactly as microseconds *)

(* the constructor applied to plain fields: range checks, then naive => UTC *)
Definition dt_of_fields (d : dtv) : option dtv := if validb d then Some (coerce d) else None.
Definition dt_of_epoch (n : Z) : option dtv :=
  let d := from_micros_utc n in if validb d then Some d else None.
(* the object branch rebuilds the value from the argument's fields and tzinfo; utcoffset() of the result is
   the argument's only when `fold` is passed on too (keeps_fold: GENERATED fact about datetime.__new__) *)
Definition obj_rebuild (keeps_fold : bool) (d : dtv) (off_fold0 : option Z) : dtv :=
  if keeps_fold then d else mkdt (yr d) (mo d) (dy d) (hh d) (mi d) (ss d) (us d) off_fold0.

Definition dt_new (q keeps_fold : bool) (i : dt_input) : option dtv :=
  match i with
  | InObj d o0 => dt_of_fields (obj_rebuild keeps_fold d o0)
  | InText s => option_map coerce (iso_parse q s)
  | InEpochMicros n => dt_of_epoch n
  end.

(* ---------------------------------------------------------------- storage encodings *)
Definition tuple7 : Set := (Z * Z * Z * Z * Z * Z * Z)%type.
Definition pack_tuple (d : dtv) : tuple7 := wall d.
Definition of_tuple (t : tuple7) (o : option Z) : dtv :=
  match t with (y, m, d, h, mn, s, u) => mkdt y m d h mn s u o end.
(* fieldtypes.datetime applied to the unpacked 7-tuple: the naive value of these fields, coerced *)
Definition unpack_tuple (t : tuple7) : option dtv := dt_of_fields (of_tuple t None).

Inductive wire : Type :=
| WTuple (t : tuple7)
| WText (s : string)
| WMicros (n : Z).

(* The binary packer's rule, as the translator reads it from RecordPacker.pack_obj:
   `if <disjunction of tests>: <form> else: <form>`.  tz_kind is what the tests can observe of tzinfo. *)
Inductive tz_kind : Set := KNaive | KEqUTC | KOther.      (* tzinfo is None | tzinfo == timezone.utc | any other *)
Inductive pk_test : Set := TzinfoIsNone | TzinfoEqUTC.
Inductive pk_form : Set := FormTuple7 | FormIsoText.
Record pack_rule : Set := { pr_tests : list pk_test; pr_then : pk_form; pr_else : pk_form }.

Definition eval_test (k : tz_kind) (t : pk_test) : bool :=
  match t, k with TzinfoIsNone, KNaive => true | TzinfoEqUTC, KEqUTC => true | _, _ => false end.
Definition chosen_form (r : pack_rule) (k : tz_kind) : pk_form :=
  if existsb (eval_test k) (pr_tests r) then pr_then r else pr_else r.
Definition encode_form (f : pk_form) (d : dtv) : wire :=
  match f with FormTuple7 => WTuple (pack_tuple d) | FormIsoText => WText (iso_print d) end.

(* tz_kind is consistent with the offset: naive has none; tzinfo == UTC means utcoffset() is 0 *)
Definition kind_ok (k : tz_kind) (d : dtv) : Prop :=
  match k with KNaive => off d = None | KEqUTC => off d = Some 0 | KOther => off d <> None end.

(* a rule is safe when the tuple form (which drops the offset) is chosen only for naive / == UTC values *)
Definition rule_safe (r : pack_rule) : bool :=
  match chosen_form r KOther with FormTuple7 => false | FormIsoText => true end.

Definition stream_encode (r : pack_rule) (k : tz_kind) (d : dtv) : wire := encode_form (chosen_form r k) d.
Definition text_decode (q : bool) (s : string) : option dtv := option_map coerce (iso_parse q s).
Definition stream_decode (q : bool) (w : wire) : option dtv :=
  match w with
  | WTuple t => unpack_tuple t
  | WText s => text_decode q s
  | WMicros _ => None
  end.

(* JSON and SQLite: isoformat() text, read back through the field type *)
Definition text_encode (f : pk_form) (d : dtv) : option wire :=
  match f with FormIsoText => Some (WText (iso_print d)) | FormTuple7 => None end.
Definition text_wire_decode (q : bool) (w : wire) : option dtv :=
  match w with WText s => text_decode q s | _ => None end.

(* SQLite: the reader derives a column's field type from its DECLARED type (GENERATED: what the writer declares for a
   datetime field when it creates the table and when it adds the column to an existing table, and what the reader
   makes of that declaration).  A column that does not read as "datetime" hands the stored text back as text. *)
Definition sqlite_decode (reads_as : string) (q : bool) (w : wire) : option dtv :=
  if String.eqb reads_as "datetime" then text_wire_decode q w else None.

(* Avro timestamp-micros: the writer stores the instant (any instant fits a long).  The reader hands back
   EPOCH + timedelta(microseconds=n) when the schema carries the logical type (fastavro) or when the raw number
   exceeds the reader's guard; a raw number not above the guard would be taken as epoch SECONDS.  An instant whose
   UTC form leaves years 1..9999 cannot be built (OverflowError on reading): refused, never altered. *)
Definition avro_encode (d : dtv) : wire := WMicros (to_micros d).
Definition avro_decode (logical_micros : bool) (guard : Z) (w : wire) : option dtv :=
  match w with
  | WMicros n =>
      if logical_micros || (guard <? n) then dt_of_epoch n else dt_of_epoch (n * SEC_US)
  | _ => None
  end.

(* ---------------------------------------------------------------- the display setting
   Which operations of a timestamp read the display zone: decided by the GENERATED list of functions that
   mention DISPLAY_TZINFO / flow_record_tz.  `render` is the only place a display zone can enter. *)
Inductive dt_op : Set := OpStr | OpRepr | OpPack | OpEq | OpHash | OpNew
                       | OpWriteStream | OpWriteJson | OpWriteSqlite | OpWriteAvro
                       | OpReadStream | OpReadJson | OpReadSqlite | OpReadAvro.

Definition string_in (s : string) (l : list string) : bool := existsb (String.eqb s) l.
Definition reads_display (readers : list string) (fns : list string) : bool :=
  existsb (fun f => string_in f readers) fns.

(* result of an operation under a display setting: operations whose functions do not read the setting get
   the setting-free result `base`; the others may depend on it through `shown` *)
Definition observe {R : Type} (readers fns : list string) (base : R) (shown : option Z -> R) (display : option Z) : R :=
  if reads_display readers fns then shown display else base.

(* ---------------------------------------------------------------- how a timestamp enters a record
   Every route must run the field type's constructor (dt_new); a route that stores its argument as it is leaves a
   naive datetime naive and text / numbers unconverted.  Which routes do is a GENERATED fact (functions observed to
   run for each route). *)
Inductive entry_route : Set :=
| RCtorKw | RCtorPos | RSetattr | RReplace | RGroupSetattr | RNestedGroupSetattr | RGroupReplace
| RInitFromDict | RInitFromRecord | RExtendRecord | RListElem | RListSetattr.
Definition all_routes : list entry_route :=
  [RCtorKw; RCtorPos; RSetattr; RReplace; RGroupSetattr; RNestedGroupSetattr; RGroupReplace;
   RInitFromDict; RInitFromRecord; RExtendRecord; RListElem; RListSetattr].
Definition DT_CONSTRUCTOR : string := "fieldtypes/__init__:datetime.__new__".
Definition route_coerces (fns : list string) : bool := string_in DT_CONSTRUCTOR fns.
Inductive stored : Type := StoredValue (d : dtv) | StoredRaw (i : dt_input) | Rejected.
Definition enter_via (fns : list string) (q keeps_fold : bool) (i : dt_input) : stored :=
  if route_coerces fns then (match dt_new q keeps_fold i with Some d => StoredValue d | None => Rejected end)
  else StoredRaw i.

(* ---------------------------------------------------------------- values made by the field type's other constructors
   Field-wise construction (positional / keyword, with or without a tzinfo argument, and every classmethod that ends
   in it: combine, strptime, fromtimestamp, fromisoformat, fromordinal, now, ...) is dt_of_fields: explicit
   tzinfo=None is naive input like any other.  `replace(tzinfo=None)` on a value of the field type is different:
   when the interpreter builds the result without calling the field type's constructor (GENERATED probe), the result
   is a naive value OF THE FIELD TYPE, which a record stores as it is. *)
Definition strip_off (d : dtv) : dtv := mkdt (yr d) (mo d) (dy d) (hh d) (mi d) (ss d) (us d) None.
Definition replace_tzinfo_none (bypasses_constructor : bool) (d : dtv) : option dtv :=
  if bypasses_constructor then Some (strip_off d) else dt_of_fields (strip_off d).
