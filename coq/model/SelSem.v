(* C07 -- semantics of selector expressions.  Definitions only (proofs: proofs/SelSem_proofs.v).

   PART 1  primitive operations on values, ONE definition used by both semantics: truthiness, Python's
           comparison / membership / arithmetic rules on the modelled kinds, the helper functions, attribute
           access, calls.
   PART 2  [py_eval]: what the expression means in Python (short-circuit and/or returning operands, chained
           comparisons, scoped generator variables).  Its strict variant evaluates and/or eagerly and treats a
           sub-expression whose value is the missing-field sentinel as undefined: that is [all_defined].
   PART 3  [interp]: a transcription of RecordContextMatcher._eval branch by branch, with the namespace
           `self.data` threaded as state; the Compare and GeneratorExp branches are parametrised by the
           GENERATED facts compare_is_chained / comprehension_ifs_honoured. *)
From Coq Require Import List Bool String ZArith NArith Ascii.
Import ListNotations.
From FR Require Cmp.
From FR Require Import SelAst Gen_selector Gen_selsem.
Open Scope list_scope.

(* ------------------------------------------------------------------------------------------------ *)
(* PART 1: primitives                                                                                *)

Definition truthy (v : value) : bool :=
  match v with
  | VNone => false
  | VBool b => b
  | VInt z => negb (Z.eqb z 0)
  | VStr s => match s with [] => false | _ => true end
  | VList l | VTuple l => match l with [] => false | _ => true end
  | VMissing => false          (* NoneObject.__len__ returns 0 *)
  | VRec | VTypeRoot | VTypeM _ _ | VSub _ _ | VFunc _ | VFt _ => true
  end.

Definition numeric (v : value) : option Z :=
  match v with VBool b => Some (if b then 1 else 0)%Z | VInt z => Some z | _ => None end.

(* the kinds whose comparison methods answer NotImplemented for a foreign operand *)
Definition plain (v : value) : bool :=
  match v with VNone | VBool _ | VInt _ | VStr _ | VList _ | VTuple _ => true | _ => false end.

Inductive rop := REq | RNe | RLt | RLe | RGt | RGe.
Definition rswap (op : rop) : rop :=
  match op with RLt => RGt | RGt => RLt | RLe => RGe | RGe => RLe | x => x end.
Definition ord_res (op : rop) (c : comparison) : bool :=
  match op, c with
  | REq, Datatypes.Eq => true | REq, _ => false
  | RNe, Datatypes.Eq => false | RNe, _ => true
  | RLt, Datatypes.Lt => true | RLt, _ => false
  | RLe, Datatypes.Gt => false | RLe, _ => true
  | RGt, Datatypes.Gt => true | RGt, _ => false
  | RGe, Datatypes.Lt => false | RGe, _ => true
  end.

Fixpoint str_compare (a b : str) : comparison :=
  match a, b with
  | [], [] => Datatypes.Eq
  | [], _ :: _ => Datatypes.Lt
  | _ :: _, [] => Datatypes.Gt
  | x :: s, y :: t => match N.compare x y with Datatypes.Eq => str_compare s t | c => c end
  end.

Definition vb (b : bool) : result := Val (VBool b).

(* comparison of two operands of different (or unordered) kinds *)
Definition cross (op : rop) (a b : value) : result :=
  match op with
  | REq => vb false
  | RNe => vb true
  | _ => Exc (ETypeError (is_none a || is_none b))
  end.

(* PyObject_RichCompare on plain values.  Elements that are not plain make the model decline. *)
Fixpoint rich (op : rop) (a b : value) {struct a} : result :=
  let seq :=
    fix seq (l1 l2 : list value) {struct l1} : result :=
      match l1, l2 with
      | [], [] => vb (ord_res op Datatypes.Eq)
      | [], _ :: _ => vb (ord_res op Datatypes.Lt)
      | _ :: _, [] => vb (ord_res op Datatypes.Gt)
      | x :: t1, y :: t2 =>
          match rich REq x y with
          | Val (VBool true) => seq t1 t2
          | Val _ => match op with REq => vb false | RNe => vb true | _ => rich op x y end
          | Exc e => Exc e
          end
      end in
  if negb (plain a && plain b) then Exc EUnmodelled else
  match a, b with
  | VNone, VNone => match op with REq => vb true | RNe => vb false | _ => Exc (ETypeError true) end
  | VStr s1, VStr s2 => vb (ord_res op (str_compare s1 s2))
  | VList l1, VList l2 => seq l1 l2
  | VTuple l1, VTuple l2 => seq l1 l2
  | _, _ =>
      match numeric a, numeric b with
      | Some x, Some y => vb (ord_res op (Z.compare x y))
      | _, _ => cross op a b
      end
  end.

(* ---- the record ---- *)
Fixpoint field_value (fs : list (string * string * value)) (n : string) : option value :=
  match fs with
  | [] => None
  | (k, _, v) :: t => if String.eqb k n then Some v else field_value t n
  end.

Definition starts_underscore (a : string) : bool :=
  match a with String "_" _ => true | _ => false end.

(* getattr(v, a, NONE_OBJECT) for a field value v and a public attribute name a: ints have real / imag /
   numerator / denominator, nested records have their fields, None has no public attribute; everything else
   (methods of str / list, properties of uri ...) is outside the model *)
Definition int_attr (z : Z) (a : string) : option value :=
  if String.eqb a "real" || String.eqb a "numerator" then Some (VInt z)
  else if String.eqb a "imag" then Some (VInt 0)
  else if String.eqb a "denominator" then Some (VInt 1)
  else None.
Definition value_getattr (v : value) (a : string) : result :=
  match v with
  | VInt z => match int_attr z a with Some w => Val w | None => Exc EUnmodelled end
  | VSub _ fs => match field_value fs a with
                 | Some w => Val w
                 | None => if starts_underscore a then Exc EUnmodelled else Val VMissing
                 end
  | VNone | VMissing => if starts_underscore a then Exc EUnmodelled else Val VMissing
  | _ => Exc EUnmodelled
  end.
Fixpoint attr_path (v : value) (attrs : list string) : result :=
  match attrs with
  | [] => Val v
  | a :: t => match value_getattr v a with Val w => attr_path w t | e => e end
  end.

Definition app_res (a b : list value + exc) : list value + exc :=
  match a, b with
  | inl x, inl y => inl (x ++ y)
  | inr e, _ => inr e
  | _, inr e => inr e
  end.

(* TypeMatcherInstance._values: for every field of type t that is there, follow the attribute path; values that
   end in the sentinel are skipped *)
Fixpoint tm_own (fs : list (string * string * value)) (t : string) (attrs : list string) : list value + exc :=
  match fs with
  | [] => inl []
  | (_, ty, v) :: rest =>
      if String.eqb ty t && negb (is_missing v)
      then match attr_path v attrs with
           | Val VMissing => tm_own rest t attrs
           | Val w => app_res (inl [w]) (tm_own rest t attrs)
           | Exc e => inr e
           end
      else tm_own rest t attrs
  end.

(* TypeMatcherInstance._op: its own values, then -- depth first -- those of the records held by `record` fields,
   then those held by `record[]` fields.  [keep]: the recursion hands the attribute path on (GENERATED fact). *)
Fixpoint tm_all_v (keep : bool) (t : string) (attrs : list string) (v : value) {struct v} : list value + exc :=
  match v with
  | VSub _ fs =>
      let sub_attrs := if keep then attrs else [] in
      let singles :=
        (fix go (l : list (string * string * value)) : list value + exc :=
           match l with
           | [] => inl []
           | (_, ty, w) :: rest =>
               if String.eqb ty "record"
               then match w with
                    | VSub _ _ => app_res (tm_all_v keep t sub_attrs w) (go rest)
                    | _ => go rest
                    end
               else go rest
           end) fs in
      let lists :=
        (fix go (l : list (string * string * value)) : list value + exc :=
           match l with
           | [] => inl []
           | (_, ty, w) :: rest =>
               if String.eqb ty "record[]"
               then match w with
                    | VList es =>
                        app_res ((fix each (es : list value) : list value + exc :=
                                    match es with
                                    | [] => inl []
                                    | e :: es' => match e with
                                                  | VSub _ _ => app_res (tm_all_v keep t sub_attrs e) (each es')
                                                  | _ => each es'
                                                  end
                                    end) es) (go rest)
                    | _ => go rest
                    end
               else go rest
           end) fs in
      app_res (tm_own fs t attrs) (app_res singles lists)
  | _ => inl []
  end.
Definition tm_all (keep : bool) (R : record) (t : string) (attrs : list string) : list value + exc :=
  tm_all_v keep t attrs (VSub (rec_name R) (rec_fields R)).
Fixpoint string_to_str (s : string) : str :=
  match s with EmptyString => [] | String c t => N_of_ascii c :: string_to_str t end.
(* TypeMatcherInstance.__iter__: the NAMES of the fields of type t *)
Definition tm_names (R : record) (t : string) : list value :=
  flat_map (fun f => match f with (n, ty, _) => if String.eqb ty t then [VStr (string_to_str n)] else [] end)
           (rec_fields R).

(* `any(p(v) for v in vs)` where p may raise: first exception or first True wins *)
Fixpoint exists_res (p : value -> result) (vs : list value) : result :=
  match vs with
  | [] => vb false
  | v :: t => match p v with
              | Val x => if truthy x then vb true else exists_res p t
              | Exc e => Exc e
              end
  end.

(* what the sentinel's own comparison method returns (GENERATED table of NoneObject) *)
Definition sent_const (op : rop) : result :=
  let o := match op with
           | REq => Cmp.s_eq none_object | RNe => Cmp.s_ne none_object | RLt => Cmp.s_lt none_object
           | RLe => Cmp.s_le none_object | RGt => Cmp.s_gt none_object | RGe => Cmp.s_ge none_object end in
  match o with Some b => vb b | None => Exc EUnmodelled end.

(* v <op> b where v is a field value and b any operand that is not a typed matcher *)
Definition rich_m (op : rop) (v b : value) : result :=
  match b with
  | VMissing => if plain v then sent_const (rswap op) else Exc EUnmodelled
  | _ => rich op v b
  end.

(* a <op> b as Python evaluates it (one of the six rich comparisons) *)
Definition exists_on (p : value -> result) (l : list value + exc) : result :=
  match l with inl vs => exists_res p vs | inr e => Exc e end.

Definition compare (keep : bool) (R : record) (op : rop) (a b : value) : result :=
  match a, b with
  | VMissing, _ => sent_const op
  | VTypeM _ _, VTypeM _ _ => Exc EUnmodelled
  | VTypeM t at_, _ => exists_on (fun v => rich_m op v b) (tm_all keep R t at_)
  | _, VTypeM t at_ => if plain a then exists_on (fun v => rich_m (rswap op) v a) (tm_all keep R t at_) else Exc EUnmodelled
  | _, VMissing => if plain a then sent_const (rswap op) else Exc EUnmodelled
  | _, _ => rich op a b
  end.

(* a is b *)
Definition is_op (a b : value) : result :=
  match a, b with
  | VNone, VNone => vb true
  | VMissing, VMissing => vb true
  | VBool x, VBool y => vb (Bool.eqb x y)
  | (VNone | VMissing | VBool _), _ => if plain b || is_missing b then vb false else Exc EUnmodelled
  | _, (VNone | VMissing | VBool _) => if plain a then vb false else Exc EUnmodelled
  | _, _ => Exc EUnmodelled
  end.

(* ---- membership: operator.contains(container, item) ---- *)
Fixpoint prefix_of (p s : str) : bool :=
  match p, s with
  | [], _ => true
  | _ :: _, [] => false
  | x :: p', y :: s' => N.eqb x y && prefix_of p' s'
  end.
Fixpoint substr (p s : str) : bool :=
  prefix_of p s || match s with [] => false | _ :: s' => substr p s' end.

Definition contains_plain (c item : value) : result :=
  match c with
  | VList l | VTuple l => if plain item then exists_res (fun x => rich REq x item) l else Exc EUnmodelled
  | VStr s => match item with
              | VStr p => vb (substr p s)
              | _ => if plain item then Exc (ETypeError (is_none item)) else Exc EUnmodelled
              end
  | VNone | VBool _ | VInt _ => Exc (ETypeError (is_none c))
  | _ => Exc EUnmodelled
  end.

Definition contains (keep : bool) (R : record) (c item : value) : result :=
  match c with
  | VMissing => match Cmp.s_contains none_object with Some b => vb b | None => Exc EUnmodelled end
  | VTypeM t at_ => if plain item then exists_on (fun v => contains_plain v item) (tm_all keep R t at_) else Exc EUnmodelled
  | _ => contains_plain c item
  end.

Definition neg_res (r : result) : result :=
  match r with Val v => vb (negb (truthy v)) | e => e end.

(* ---- arithmetic ---- *)
Definition terr (a b : value) : result :=
  if plain a && plain b then Exc (ETypeError (is_none a || is_none b)) else Exc EUnmodelled.

Fixpoint repeat_list {A} (l : list A) (n : nat) : list A :=
  match n with O => [] | S k => l ++ repeat_list l k end.
Definition rep_limit : Z := 1000.
Definition repeat_seq {A} (mk : list A -> value) (l : list A) (n : Z) : result :=
  if Z.ltb n (- 2 ^ 63) then Exc EUnmodelled          (* OverflowError: does not fit an index *)
  else if Z.leb n 0 then Val (mk [])
  else if Z.ltb rep_limit n then Exc EUnmodelled
  else Val (mk (repeat_list l (Z.to_nat n))).

Definition py_add (a b : value) : result :=
  match a, b with
  | VStr x, VStr y => Val (VStr (x ++ y))
  | VList x, VList y => Val (VList (x ++ y))
  | VTuple x, VTuple y => Val (VTuple (x ++ y))
  | _, _ => match numeric a, numeric b with
            | Some x, Some y => Val (VInt (x + y))
            | _, _ => terr a b
            end
  end.

Definition py_mul (a b : value) : result :=
  match numeric a, numeric b with
  | Some x, Some y => Val (VInt (x * y))
  | Some n, None =>
      match b with
      | VStr s => repeat_seq VStr s n | VList l => repeat_seq VList l n | VTuple l => repeat_seq VTuple l n
      | _ => terr a b
      end
  | None, Some n =>
      match a with
      | VStr s => repeat_seq VStr s n | VList l => repeat_seq VList l n | VTuple l => repeat_seq VTuple l n
      | _ => terr a b
      end
  | None, None => terr a b
  end.

Definition py_mod (a b : value) : result :=
  match a with
  | VStr _ => Exc EUnmodelled                       (* printf-style formatting *)
  | _ => match numeric a, numeric b with
         | Some x, Some y => if Z.eqb y 0 then Exc EZeroDivision else Val (VInt (Z.modulo x y))
         | _, _ => terr a b
         end
  end.

Definition py_truediv (a b : value) : result :=
  match numeric a, numeric b with
  | Some x, Some y => if Z.eqb y 0 then Exc EZeroDivision else Exc EUnmodelled    (* a float *)
  | _, _ => terr a b
  end.

Definition py_bit (fb : bool -> bool -> bool) (fz : Z -> Z -> Z) (a b : value) : result :=
  match a, b with
  | VBool x, VBool y => Val (VBool (fb x y))
  | _, _ => match numeric a, numeric b with
            | Some x, Some y => Val (VInt (fz x y))
            | _, _ => terr a b
            end
  end.
Definition py_and := py_bit andb Z.land.
Definition py_or := py_bit orb Z.lor.
Definition py_xor := py_bit xorb Z.lxor.

Definition py_sub (a b : value) : result :=
  match numeric a, numeric b with Some x, Some y => Val (VInt (x - y)) | _, _ => terr a b end.
Definition py_floordiv (a b : value) : result :=
  match numeric a, numeric b with
  | Some x, Some y => if Z.eqb y 0 then Exc EZeroDivision else Val (VInt (Z.div x y))
  | _, _ => terr a b
  end.
Definition unmodelled2 (a b : value) : result := Exc EUnmodelled.

(* what each binary operator means in Python *)
Definition binop_meaning (op : binop) : value -> value -> result :=
  match op with
  | Add => py_add | Mult => py_mul | Div => py_truediv | Mod => py_mod | BitAnd => py_and | BitOr => py_or
  | Sub => py_sub | FloorDiv => py_floordiv | BitXor => py_xor
  | Pow | LShift | RShift | MatMult => unmodelled2
  end.

Definition py_not (v : value) : result := vb (negb (truthy v)).
Definition unop_meaning (op : unop) (v : value) : result :=
  match op with
  | Not => py_not v
  | USub => match numeric v with Some x => Val (VInt (- x)) | None => if plain v then Exc (ETypeError (is_none v)) else Exc EUnmodelled end
  | UAdd => match numeric v with Some x => Val (VInt x) | None => if plain v then Exc (ETypeError (is_none v)) else Exc EUnmodelled end
  | Invert => match numeric v with Some x => Val (VInt (- x - 1)) | None => if plain v then Exc (ETypeError (is_none v)) else Exc EUnmodelled end
  end.

(* the functions of module `operator` by name (the right-hand sides of AST_OPERATORS) *)
Definition operator2 (name : string) : option (value -> value -> result) :=
  if String.eqb name "add" then Some py_add else if String.eqb name "mul" then Some py_mul
  else if String.eqb name "truediv" then Some py_truediv else if String.eqb name "mod" then Some py_mod
  else if String.eqb name "and_" then Some py_and else if String.eqb name "or_" then Some py_or
  else if String.eqb name "sub" then Some py_sub else if String.eqb name "floordiv" then Some py_floordiv
  else if String.eqb name "xor" then Some py_xor else None.
Definition operator1 (name : string) : option (value -> result) :=
  if String.eqb name "not_" then Some py_not else None.

Fixpoint assoc {A} (k : string) (l : list (string * A)) : option A :=
  match l with [] => None | (k', v) :: t => if String.eqb k' k then Some v else assoc k t end.

Definition binop_kind (op : binop) : string :=
  match op with
  | Add => "Add" | Mult => "Mult" | Div => "Div" | Mod => "Mod" | BitAnd => "BitAnd" | BitOr => "BitOr"
  | Sub => "Sub" | Pow => "Pow" | FloorDiv => "FloorDiv" | BitXor => "BitXor" | LShift => "LShift"
  | RShift => "RShift" | MatMult => "MatMult"
  end.
Definition unop_kind (op : unop) : string :=
  match op with Not => "Not" | USub => "USub" | UAdd => "UAdd" | Invert => "Invert" end.
Definition boolop_kind (op : boolop) : string := match op with And => "And" | Or => "Or" end.
Definition cmpop_kind (op : cmpop) : string :=
  match op with
  | CEq => "Eq" | CNotEq => "NotEq" | CLt => "Lt" | CLtE => "LtE" | CGt => "Gt" | CGtE => "GtE"
  | CIn => "In" | CNotIn => "NotIn" | CIs => "Is" | CIsNot => "IsNot"
  end.

(* AST_OPERATORS[type(op)]: None = KeyError; Some None = an operator.<name> the model does not know *)
Definition table_op2 (kind : string) : option (option (value -> value -> result)) :=
  match assoc kind operator_table with None => None | Some nm => Some (operator2 nm) end.
Definition table_op1 (kind : string) : option (option (value -> result)) :=
  match assoc kind operator_table with None => None | Some nm => Some (operator1 nm) end.

(* ---- iteration ---- *)
Definition iter_values (R : record) (v : value) : list value + exc :=
  match v with
  | VList l | VTuple l => inl l
  | VStr s => inl (map (fun c => VStr [c]) s)
  | VTypeM t _ => inl (tm_names R t)
  | VNone | VBool _ | VInt _ => inr (ETypeError (is_none v))
  | VMissing => inr (ETypeError false)
  | _ => inr EUnmodelled
  end.

(* ---- helper functions ---- *)
Definition ascii_only (s : str) : bool := forallb (fun c => N.ltb c 128) s.
Definition lower_cp (c : N) : N := if N.leb 65 c && N.leb c 90 then (c + 32)%N else c.
Definition upper_cp (c : N) : N := if N.leb 97 c && N.leb c 122 then (c - 32)%N else c.
Definition h_lower (v : value) : result :=
  match v with VStr s => if ascii_only s then Val (VStr (map lower_cp s)) else Exc EUnmodelled | _ => Val v end.
Definition h_upper (v : value) : result :=
  match v with VStr s => if ascii_only s then Val (VStr (map upper_cp s)) else Exc EUnmodelled | _ => Val v end.

Definition unknown_record : str := string_to_str "UnknownRecord".
Definition h_name (R : record) (v : value) : result :=
  match v with VRec => Val (VStr (rec_name R)) | VSub nm _ => Val (VStr nm) | _ => if plain v || is_missing v then Val (VStr unknown_record) else Exc EUnmodelled end.

Definition str_eqb (a b : str) : bool := list_eqb N.eqb a b.
Definition h_has_field (R : record) (r f : value) : result :=
  match r, f with
  | VRec, VStr s => vb (existsb (fun fd => match fd with (n, _, _) => str_eqb (string_to_str n) s end) (rec_fields R))
  | _, _ => Exc EUnmodelled
  end.

Fixpoint map_res (f : value -> result) (l : list value) : list value + exc :=
  match l with
  | [] => inl []
  | v :: t => match f v with
              | Val x => match map_res f t with inl xs => inl (x :: xs) | inr e => inr e end
              | Exc e => inr e
              end
  end.

(* _field_value(r, field) inside the helpers: a name starting with "__" is refused (InvalidOperation), otherwise
   getattr(r, field, NONE_OBJECT); field must be the name of a field or of nothing *)
Definition helper_getattr (R : record) (f : value) : result :=
  match f with
  | VStr (95%N :: 95%N :: _) => Exc EInvalidOperation
  | VStr s =>
      match find (fun fd => match fd with (n, _, _) => str_eqb (string_to_str n) s end) (rec_fields R) with
      | Some (_, _, v) => Val v
      | None => match s with
                | 95%N :: _ => Exc EUnmodelled          (* _desc, _generated, ... *)
                | _ => Val VMissing
                end
      end
  | _ => if plain f then Exc (ETypeError (is_none f)) else Exc EUnmodelled
  end.

(* the common loop of field_equals / field_contains: for field in fields: ...: for s in strings: if test: return True *)
Section HelperLoop.
Variable R : record.
Variable nocase : bool.
Variable test : value -> value -> result.     (* test s fvalue *)
Fixpoint strings_loop (fv : value) (ss : list value) : result :=
  match ss with
  | [] => vb false
  | s :: t => match test s fv with
              | Val x => if truthy x then vb true else strings_loop fv t
              | Exc e => Exc e
              end
  end.
Fixpoint fields_loop (ss : list value) (fs : list value) : result :=
  match fs with
  | [] => vb false
  | f :: t =>
      match helper_getattr R f with
      | Exc e => Exc e
      | Val VMissing => fields_loop ss t
      | Val fv =>
          match (if nocase then h_lower fv else Val fv) with
          | Exc e => Exc e
          | Val fv' =>
              match strings_loop fv' ss with
              | Val (VBool true) => vb true
              | Val _ => fields_loop ss t
              | Exc e => Exc e
              end
          end
      end
  end.
End HelperLoop.

Definition h_field_loop (R : record) (test : value -> value -> result) (r fields strings nocase : value) : result :=
  match r with
  | VRec =>
      let nc := truthy nocase in
      match (if nc then match iter_values R strings with inl ss => map_res h_lower ss | inr e => inr e end
             else inl [strings]) with
      | inr e => Exc e
      | inl prepared =>
          match iter_values R fields with
          | inr e => Exc e
          | inl fs =>
              if nc then fields_loop R nc test prepared fs
              else (* `strings` itself is iterated inside the field loop *)
                match fs with
                | [] => vb false
                | _ => match iter_values R strings with
                       | inl ss => fields_loop R nc test ss fs
                       | inr e =>
                           (* the iteration error surfaces at the first field that exists *)
                           match fields_loop R nc (fun _ _ => Exc e) [VNone] fs with
                           | Val v => Val v | Exc x => Exc x end
                       end
                end
          end
      end
  | _ => Exc EUnmodelled
  end.

Definition h_field_equals (R : record) (r fields strings nocase : value) : result :=
  h_field_loop R (fun s fv => rich_m REq s fv) r fields strings nocase.
Definition h_field_contains (R : record) (r fields strings nocase wb : value) : result :=
  match wb with
  | VBool false =>      (* a wanted string that is itself a missing field matches nothing (GENERATED fact) *)
      h_field_loop R (fun s fv => if field_contains_skips_missing_string && is_missing s then vb false
                               else contains_plain fv s) r fields strings nocase
  | _ => Exc EUnmodelled            (* word_boundary: regular expressions *)
  end.

(* binding of call arguments to parameters (positional, then keywords); None = TypeError *)
Fixpoint bind_pos (ps : list (string * option bool)) (args : list value) : option (list (string * value) * list (string * option bool)) :=
  match args, ps with
  | [], _ => Some ([], ps)
  | _ :: _, [] => None
  | a :: at_, (p, _) :: pt =>
      match bind_pos pt at_ with Some (b, rest) => Some ((p, a) :: b, rest) | None => None end
  end.
Fixpoint no_dup_keys (kws : list (string * value)) : bool :=
  match kws with [] => true | (k, _) :: t => negb (existsb (fun kv => String.eqb (fst kv) k) t) && no_dup_keys t end.
Definition bind_args (ps : list (string * option bool)) (args : list value) (kws : list (string * value)) : option (list value) :=
  match bind_pos ps args with
  | None => None
  | Some (bound, rest) =>
      if negb (forallb (fun kv => existsb (fun p => String.eqb (fst p) (fst kv)) rest) kws) then None
      else
        (fix fill (ps : list (string * option bool)) : option (list value) :=
           match ps with
           | [] => Some []
           | (p, dflt) :: pt =>
               let v := match assoc p bound with
                        | Some v => Some v
                        | None => match assoc p kws with
                                  | Some v => Some v
                                  | None => match dflt with Some b => Some (VBool b) | None => None end
                                  end
                        end in
               match v, fill pt with Some v, Some vs => Some (v :: vs) | _, _ => None end
           end) ps
  end.

Definition call_helper (R : record) (f : string) (args : list value) (kws : list (string * value)) : result :=
  match assoc f helper_signatures with
  | None => Exc EUnmodelled
  | Some ps =>
      if negb (no_dup_keys kws) then Exc EUnmodelled else
      match bind_args ps args kws with
      | None => Exc (ETypeError false)
      | Some vs =>
          match vs with
          | [a] => if String.eqb f "lower" then h_lower a else if String.eqb f "upper" then h_upper a
                   else if String.eqb f "name" then h_name R a else Exc EUnmodelled
          | [a; b] => if String.eqb f "has_field" then h_has_field R a b else Exc EUnmodelled
          | [a; b; c; d] => if String.eqb f "field_equals" then h_field_equals R a b c d else Exc EUnmodelled
          | [a; b; c; d; e] => if String.eqb f "field_contains" then h_field_contains R a b c d e else Exc EUnmodelled
          | _ => Exc EUnmodelled
          end
      end
  end.

(* any(iterable) / all(iterable) on a value *)
Definition call_quant (R : record) (all_ : bool) (args : list value) (kws : list (string * value)) : result :=
  match args, kws with
  | [v], [] => match iter_values R v with
               | inl vs => vb (if all_ then forallb truthy vs else existsb truthy vs)
               | inr e => Exc e
               end
  | _, _ => Exc (ETypeError false)
  end.

Definition in_list (s : string) (l : list string) : bool := existsb (String.eqb s) l.

(* field-type constructors the model implements *)
Definition call_fieldtype (path : string) (args : list value) (kws : list (string * value)) : result :=
  match args, kws with
  | [VStr s], [] => if String.eqb path "string" then Val (VStr s) else Exc EUnmodelled
  | [VInt z], [] => if String.eqb path "varint" then Val (VInt z) else Exc EUnmodelled
  | _, _ => Exc EUnmodelled
  end.

(* func( *args, **kwargs ) as Python applies it *)
Definition apply (R : record) (f : value) (args : list value) (kws : list (string * value)) : result :=
  match f with
  | VFunc n =>
      if String.eqb n "any" then call_quant R false args kws
      else if String.eqb n "all" then call_quant R true args kws
      else call_helper R n args kws
  | VFt p => if in_list p whitelist then call_fieldtype p args kws else Exc EUnmodelled
  | _ => if plain f || is_missing f then Exc (ETypeError false) else Exc EUnmodelled
  end.

(* RecordContextMatcher._is_allowed_callable *)
Definition allowed_callable (f : value) : bool :=
  match f with
  | VFunc _ => true
  | VFt p => in_list p whitelist
  | _ => false
  end.

(* ---- attribute access ---- *)
Definition starts_dunder (a : string) : bool :=
  match a with String "_" (String "_" _) => true | _ => false end.
Definition ft_valid (p : string) : bool :=
  existsb (fun w => String.eqb w p || String.prefix (p ++ ".") w) whitelist.

(* Some r = the attribute exists / the model declines; None = the object has no such attribute *)
Definition getattr_found (R : record) (o : value) (a : string) : option result :=
  match o with
  | VRec => match field_value (rec_fields R) a with
            | Some v => Some (Val v)
            | None => if starts_underscore a then Some (Exc EUnmodelled) else None
            end
  | VTypeRoot =>
      if in_list a whitelist_roots
      then Some (if in_list a whitelist then Val (VTypeM a []) else Exc EUnmodelled)
      else Some (Val VMissing)            (* TypeMatcher.__getattr__ itself answers NONE_OBJECT *)
  | VFt p => let p' := (p ++ "." ++ a)%string in if ft_valid p' then Some (Val (VFt p')) else None
  | VMissing => None
  | VTypeM t at_ =>            (* TypeMatcherInstance.__getattr__ of a leaf type: extend the attribute path *)
      Some (if starts_underscore a then Val VMissing else Val (VTypeM t (at_ ++ [a])))
  | VSub _ fs => match field_value fs a with
                 | Some v => Some (Val v)
                 | None => if starts_underscore a then Some (Exc EUnmodelled) else None
                 end
  | VInt z => Some (match int_attr z a with Some w => Val w | None => Exc EUnmodelled end)
  | _ => Some (Exc EUnmodelled)
  end.

(* obj.attr in Python; [wrapped]: the record is a WrappedRecord (compiled engine) *)
Definition getattr_py (R : record) (wrapped : bool) (o : value) (a : string) : result :=
  if starts_dunder a then Exc EUnmodelled else
  match getattr_found R o a with
  | Some r => r
  | None => match o with
            | VRec => if wrapped then Val VMissing else Exc EAttributeError
            | VMissing =>        (* NoneObject.__getattr__ (GENERATED fact): a missing field's attribute is missing too *)
                if sentinel_attribute_is_sentinel then Val VMissing else Exc EAttributeError
            | _ => Exc EAttributeError
            end
  end.

(* getattr(obj, attr, NONE_OBJECT) in the interpreter *)
Definition getattr_interp (R : record) (o : value) (a : string) : result :=
  match getattr_found R o a with
  | Some r => r
  | None => Val VMissing
  end.

(* ------------------------------------------------------------------------------------------------ *)
(* shared by both evaluators: outcome of scanning a generator expression for any()/all()             *)
Inductive scan := Hit | NoHit | Fail (x : exc).
(* any(): a truthy element decides; all(): a falsy element decides *)
Definition decisive (all_ : bool) (v : value) : bool := if all_ then negb (truthy v) else truthy v.
Definition scan_result (all_ : bool) (s : scan) : result :=
  match s with Hit => vb (negb all_) | NoHit => vb all_ | Fail x => Exc x end.

(* `a and b and c` / `a or b or c`: the operand at which Python stops *)
Definition stops (op : boolop) (v : value) : bool := match op with And => negb (truthy v) | Or => truthy v end.
Fixpoint select (op : boolop) (vs : list value) : result :=
  match vs with
  | [] => Exc EUnmodelled
  | v :: t => match t with [] => Val v | _ :: _ => if stops op v then Val v else select op t end
  end.

Definition is_typem (v : value) : bool := match v with VTypeM _ _ => true | _ => false end.
Definition quant_name (all_ : bool) : string := if all_ then "all" else "any".

(* the operators of the documented language *)
Definition lang_binop (op : binop) : bool :=
  match op with Add | Mult | Div | Mod | BitAnd | BitOr => true | _ => false end.
Definition lang_unop (op : unop) : bool := match op with Not => true | _ => false end.

(* ------------------------------------------------------------------------------------------------ *)
(* PART 2: the Python meaning                                                                        *)
Section Python.
Variable R : record.
Variable roots : list string.      (* names that resolve to field-type modules / constructors *)
Variable wrapped : bool.           (* r is a WrappedRecord: a field the record lacks reads as NONE_OBJECT *)
Variable keep : bool.              (* the typed matcher hands its attribute path on to nested records: true in the
                                      documented meaning; the GENERATED fact for the engine that uses TypeMatcher *)

Definition py_name (ns : names) (n : string) : result :=
  match lookup n ns with
  | Some v => Val v
  | None => if in_list n roots then Val (VFt n)
            else if in_list n python_builtin_names then Exc EUnmodelled     (* len, bool, int ...: not modelled *)
            else Exc ENameError
  end.

(* strict evaluation: the sentinel as the value of a sub-expression means "not defined on this record" *)
Definition chk (strict : bool) (r : result) : result :=
  match r with
  | Val VMissing => if strict then Exc EUndefined else r
  | _ => r
  end.

(* one link `a <op> b` of a comparison.  Strict: a typed matcher on the LEFT of in / not in is documented as
   interpreter-only ("requires the TypeMatcher to unroll its values") and counts as not defined. *)
Definition link_py (strict : bool) (op : cmpop) (a b : value) : result :=
  match op with
  | CEq => compare keep R REq a b | CNotEq => compare keep R RNe a b
  | CLt => compare keep R RLt a b | CLtE => compare keep R RLe a b
  | CGt => compare keep R RGt a b | CGtE => compare keep R RGe a b
  | CIs => is_op a b | CIsNot => neg_res (is_op a b)
  | CIn => if strict && is_typem a then Exc EUndefined else contains keep R b a
  | CNotIn => if strict && is_typem a then Exc EUndefined else neg_res (contains keep R b a)
  end.

Section PyComb.
Variable g : names -> expr -> result.

Fixpoint p_seq (ns : names) (es : list expr) : list value + exc :=
  match es with
  | [] => inl []
  | e :: t => match g ns e with
              | Val v => match p_seq ns t with inl vs => inl (v :: vs) | inr x => inr x end
              | Exc x => inr x
              end
  end.

Fixpoint p_kws (ns : names) (kws : list (string * expr)) : list (string * value) + exc :=
  match kws with
  | [] => inl []
  | (k, e) :: t => match g ns e with
                   | Val v => match p_kws ns t with inl vs => inl ((k, v) :: vs) | inr x => inr x end
                   | Exc x => inr x
                   end
  end.

(* short-circuit and/or: the value is an OPERAND *)
Fixpoint p_lazy (op : boolop) (ns : names) (es : list expr) : result :=
  match es with
  | [] => Exc EUnmodelled
  | e :: t =>
      match t with
      | [] => g ns e
      | _ :: _ => match g ns e with
                  | Val v => if stops op v then Val v else p_lazy op ns t
                  | Exc x => Exc x
                  end
      end
  end.

(* a op1 b op2 c ...: conjunction of the links, each operand evaluated once, stops at the first false link *)
Fixpoint p_chain (link : cmpop -> value -> value -> result) (ns : names) (rest : list (cmpop * expr))
                 (left last : value) : result :=
  match rest with
  | [] => Val last
  | (op, c) :: t =>
      match g ns c with
      | Exc x => Exc x
      | Val rv =>
          match link op left rv with
          | Exc x => Exc x
          | Val res => if truthy res then p_chain link ns t rv res else Val res
          end
      end
  end.

Fixpoint p_ifs (ns : names) (cs : list expr) : bool + exc :=
  match cs with
  | [] => inl true
  | c :: t => match g ns c with
              | Val v => if truthy v then p_ifs ns t else inl false
              | Exc x => inr x
              end
  end.

(* the nested loops of a generator expression consumed by any()/all(); generator variables are scoped *)
Section PGens.
Variable all_ : bool.
Variable elt : expr.
Fixpoint p_gens (gs : list comp) (ns : names) : scan :=
  match gs with
  | [] => match g ns elt with
          | Val v => if decisive all_ v then Hit else NoHit
          | Exc x => Fail x
          end
  | Comp x it cs :: gs' =>
      match g ns it with
      | Exc e => Fail e
      | Val iv =>
          match iter_values R iv with
          | inr e => Fail e
          | inl vals =>
              (fix loop (vals : list value) : scan :=
                 match vals with
                 | [] => NoHit
                 | v :: vs =>
                     let ns1 := bind x v ns in
                     match p_ifs ns1 cs with
                     | inr e => Fail e
                     | inl false => loop vs
                     | inl true => match p_gens gs' ns1 with NoHit => loop vs | o => o end
                     end
                 end) vals
          end
      end
  end.
End PGens.
End PyComb.

Fixpoint py_eval_gen (strict : bool) (ns : names) (e : expr) {struct e} : result :=
  chk strict
  match e with
  | EConst v => Val v
  | EName n => py_name ns n
  | EAttr o a => match py_eval_gen strict ns o with Val ov => getattr_py R wrapped ov a | x => x end
  | EList es => match p_seq (py_eval_gen strict) ns es with inl vs => Val (VList vs) | inr x => Exc x end
  | ETuple es => match p_seq (py_eval_gen strict) ns es with inl vs => Val (VTuple vs) | inr x => Exc x end
  | EBoolOp op es =>
      if strict
      then match p_seq (py_eval_gen strict) ns es with inl vs => select op vs | inr x => Exc x end
      else p_lazy (py_eval_gen strict) op ns es
  | EUnary op a =>
      if strict && negb (lang_unop op) then Exc EUndefined       (* an operator outside the language *)
      else match py_eval_gen strict ns a with Val v => unop_meaning op v | x => x end
  | EBinOp op l r =>
      if strict && negb (lang_binop op) then Exc EUndefined else
      match py_eval_gen strict ns l with
      | Val a => match py_eval_gen strict ns r with Val b => binop_meaning op a b | x => x end
      | x => x
      end
  | ECompare l rest =>
      match py_eval_gen strict ns l with
      | Val a => p_chain (py_eval_gen strict) (link_py strict) ns rest a (VBool true)
      | x => x
      end
  | ECall f args kws =>
      match py_eval_gen strict ns f with
      | Val fv =>
          match p_seq (py_eval_gen strict) ns args with
          | inl vs => match p_kws (py_eval_gen strict) ns kws with
                      | inl kvs => apply R fv vs kvs
                      | inr x => Exc x
                      end
          | inr x => Exc x
          end
      | x => x
      end
  | EQuant all_ elt gens =>
      (* the callee is whatever the name any / all is bound to here (a generator variable may shadow it) *)
      match py_name ns (quant_name all_) with
      | Val (VFunc q) =>
          if String.eqb q (quant_name all_) then scan_result all_ (p_gens (py_eval_gen strict) all_ elt gens ns)
          else Exc EUnmodelled
      | Val fv => if plain fv then Exc (ETypeError false) else Exc EUnmodelled      (* not callable *)
      | Exc x => Exc x
      end
  | EOther _ => Exc EUnmodelled
  end.
End Python.

(* ------------------------------------------------------------------------------------------------ *)
(* PART 3: RecordContextMatcher._eval                                                                *)
Record facts := { chained : bool; ifs_honoured : bool; tm_keeps_attrs : bool; genvars_scoped : bool;
                  binop_lookup_first : bool }.
Definition gen_facts : facts :=
  {| chained := compare_is_chained; ifs_honoured := comprehension_ifs_honoured;
     tm_keeps_attrs := typematcher_recursion_keeps_attrs; genvars_scoped := generator_variables_scoped;
     binop_lookup_first := binop_operator_lookup_first |}.

(* self.data.pop(name, None) for every loop variable of a finished generator expression *)
Definition remove_names (xs : list string) (d : names) : names :=
  filter (fun kv => negb (in_list (fst kv) xs)) d.

Section Interpreter.
Variable F : facts.
Variable R : record.

(* ast.Name: self.data, else getattr(dynamic_fieldtype, id) *)
Definition interp_name (d : names) (n : string) : result :=
  match lookup n d with
  | Some v => Val v
  | None => if in_list n whitelist_roots then Val (VFt n) else Exc EAttributeError
  end.

Definition guarded (g : Cmp.in_guard) (l r : value) : bool :=
  (Cmp.g_left g && is_missing l) || (Cmp.g_right g && is_missing r).

(* the In / NotIn lambdas of AST_COMPARATORS (guards GENERATED) *)
Definition in_lambda (op : cmpop) (l r : value) : result :=
  match op with
  | CNotIn => if guarded guard_notin l r then vb (Cmp.g_value guard_notin) else neg_res (contains (tm_keeps_attrs F) R r l)
  | _ => if guarded guard_in l r then vb (Cmp.g_value guard_in) else contains (tm_keeps_attrs F) R r l
  end.

Definition cmp_by_name (nm : string) (a b : value) : result :=
  let k := tm_keeps_attrs F in
  if String.eqb nm "eq" then compare k R REq a b else if String.eqb nm "ne" then compare k R RNe a b
  else if String.eqb nm "lt" then compare k R RLt a b else if String.eqb nm "le" then compare k R RLe a b
  else if String.eqb nm "gt" then compare k R RGt a b else if String.eqb nm "ge" then compare k R RGe a b
  else if String.eqb nm "is_" then is_op a b else if String.eqb nm "is_not" then neg_res (is_op a b)
  else Exc EUnmodelled.

(* one iteration of the Compare loop: comp = AST_COMPARATORS[type(op)]; TypeMatcherInstance special case *)
Definition link_interp (op : cmpop) (a b : value) : result :=
  if negb (in_list (cmpop_kind op) comparator_kinds) then Exc EKeyError else
  match op with
  | CIn | CNotIn =>
      match a with
      | VTypeM t at_ =>         (* any(comp(v, right) for v in left._values()): the matcher's OWN values only *)
          exists_on (fun v => in_lambda op v b) (tm_own (rec_fields R) t at_)
      | _ => in_lambda op a b
      end
  | _ => match assoc (cmpop_kind op) comparator_table with
         | Some nm => cmp_by_name nm a b
         | None => Exc EUnmodelled
         end
  end.

Fixpoint fold_res (fn : value -> value -> result) (acc : value) (vs : list bool) : result :=
  match vs with
  | [] => Val acc
  | b :: t => match fn acc (VBool b) with Val acc' => fold_res fn acc' t | x => x end
  end.

Definition iter_values_interp (v : value) : list value + exc :=
  match v with VMissing => inl [] | _ => iter_values R v end.     (* `if resolved_gen is not NONE_OBJECT` *)

Section IComb.
Variable f : names -> expr -> result * names.

Fixpoint i_seq (es : list expr) (d : names) : (list value + exc) * names :=
  match es with
  | [] => (inl [], d)
  | e :: t => match f d e with
              | (Val v, d1) => match i_seq t d1 with (inl vs, d2) => (inl (v :: vs), d2) | (inr x, d2) => (inr x, d2) end
              | (Exc x, d1) => (inr x, d1)
              end
  end.

Fixpoint i_kws (kws : list (string * expr)) (d : names) : (list (string * value) + exc) * names :=
  match kws with
  | [] => (inl [], d)
  | (k, e) :: t => match f d e with
                   | (Val v, d1) => match i_kws t d1 with (inl vs, d2) => (inl ((k, v) :: vs), d2) | (inr x, d2) => (inr x, d2) end
                   | (Exc x, d1) => (inr x, d1)
                   end
  end.

(* BoolOp: every operand is evaluated; a TypeError mentioning NoneType counts as False; bool() *)
Fixpoint i_bools (es : list expr) (d : names) : (list bool + exc) * names :=
  match es with
  | [] => (inl [], d)
  | e :: t =>
      match f d e with
      | (r, d1) =>
          match (match r with Val v => inl (truthy v) | Exc (ETypeError true) => inl false | Exc x => inr x end) with
          | inl b => match i_bools t d1 with (inl bs, d2) => (inl (b :: bs), d2) | (inr x, d2) => (inr x, d2) end
          | inr x => (inr x, d1)
          end
      end
  end.

Fixpoint i_chain (rest : list (cmpop * expr)) (left last : value) (d : names) : result * names :=
  match rest with
  | [] => (Val last, d)
  | (op, c) :: t =>
      match f d c with
      | (Exc x, d1) => (Exc x, d1)
      | (Val rv, d1) =>
          match link_interp op left rv with
          | Exc x => (Exc x, d1)
          | Val res => if truthy res then i_chain t rv res d1 else (Val res, d1)
          end
      end
  end.

Fixpoint i_ifs (cs : list expr) (d : names) : (bool + exc) * names :=
  match cs with
  | [] => (inl true, d)
  | c :: t => match f d c with
              | (Val v, d1) => if truthy v then i_ifs t d1 else (inl false, d1)
              | (Exc x, d1) => (inr x, d1)
              end
  end.

(* recursive_generator + generator_expr consumed by any()/all(): loop variables are written into self.data *)
Section IGens.
Variable all_ : bool.
Variable elt : expr.
Fixpoint i_gens (gs : list comp) (d : names) : scan * names :=
  match gs with
  | [] => match f d elt with
          | (Val v, d1) => (if decisive all_ v then Hit else NoHit, d1)
          | (Exc x, d1) => (Fail x, d1)
          end
  | Comp x it cs :: gs' =>
      match f d it with
      | (Exc e, d1) => (Fail e, d1)
      | (Val iv, d1) =>
          match iter_values_interp iv with
          | inr e => (Fail e, d1)
          | inl vals =>
              (fix loop (vals : list value) (d : names) : scan * names :=
                 match vals with
                 | [] => (NoHit, d)
                 | v :: vs =>
                     let d1 := bind x v d in
                     match (if ifs_honoured F then i_ifs cs d1 else (inl true, d1)) with
                     | (inr e, d2) => (Fail e, d2)
                     | (inl false, d2) => loop vs d2
                     | (inl true, d2) => match i_gens gs' d2 with (NoHit, d3) => loop vs d3 | o => o end
                     end
                 end) vals d1
          end
      end
  end.
End IGens.
End IComb.

Definition comp_target (g : comp) : string := match g with Comp x _ _ => x end.

Fixpoint interp (d : names) (e : expr) {struct e} : result * names :=
  match e with
  | EConst v => (Val v, d)
  | EList es => match i_seq interp es d with (inl vs, d') => (Val (VList vs), d') | (inr x, d') => (Exc x, d') end
  | ETuple es => match i_seq interp es d with (inl vs, d') => (Val (VTuple vs), d') | (inr x, d') => (Exc x, d') end
  | EName n => (interp_name d n, d)
  | EAttr o a =>
      if starts_dunder a then (Exc EInvalidOperation, d)
      else match interp d o with (Val ov, d') => (getattr_interp R ov a, d') | x => x end
  | EBoolOp op es =>
      match i_bools interp es d with
      | (inr x, d') => (Exc x, d')
      | (inl [], d') => (Exc EUnmodelled, d')
      | (inl (b :: bs), d') =>
          match bs with
          | [] => (Val (VBool b), d')
          | _ :: _ => match table_op2 (boolop_kind op) with
                      | None => (Exc EKeyError, d')
                      | Some None => (Exc EUnmodelled, d')
                      | Some (Some fn) => (fold_res fn (VBool b) bs, d')
                      end
          end
      end
  | EBinOp op l r =>
      (* [binop_lookup_first]: op = AST_OPERATORS[type(node.op)] is looked up BEFORE the operands are evaluated *)
      if binop_lookup_first F && match table_op2 (binop_kind op) with None => true | Some _ => false end
      then (Exc EKeyError, d)
      else
      match interp d l with
      | (Val a, d1) =>
          match interp d1 r with
          | (Val b, d2) =>
              if is_missing a || is_missing b then (vb false, d2)
              else match table_op2 (binop_kind op) with
                   | None => (Exc EKeyError, d2)
                   | Some None => (Exc EUnmodelled, d2)
                   | Some (Some fn) => (fn a b, d2)
                   end
          | x => x
          end
      | x => x
      end
  | EUnary op a =>
      match table_op1 (unop_kind op) with
      | None => (Exc EKeyError, d)
      | Some None => (Exc EUnmodelled, d)
      | Some (Some fn) => match interp d a with (Val v, d') => (fn v, d') | x => x end
      end
  | ECompare l rest =>
      match interp d l with
      | (Val a, d1) =>
          if chained F then i_chain interp rest a (VBool true) d1
          else match rest with
               | [] => (Exc EUnmodelled, d1)
               | (op, c) :: _ => match interp d1 c with (Val b, d2) => (link_interp op a b, d2) | x => x end
               end
      | x => x
      end
  | ECall fe args kws =>
      match fe with
      | EName _ | EAttr _ _ =>
          match interp d fe with
          | (rf, d1) =>
              match (match rf with Val fv => inl (Some fv) | Exc EAttributeError => inl None | Exc x => inr x end) with
              | inr x => (Exc x, d1)
              | inl None => (Exc EInvalidOperation, d1)
              | inl (Some fv) =>
                  if negb (allowed_callable fv) then (Exc EInvalidOperation, d1)
                  else match i_seq interp args d1 with
                       | (inr x, d2) => (Exc x, d2)
                       | (inl vs, d2) =>
                           match i_kws interp kws d2 with
                           | (inr x, d3) => (Exc x, d3)
                           | (inl kvs, d3) => (apply R fv vs kvs, d3)
                           end
                       end
              end
          end
      | _ => (Exc EInvalidOperation, d)
      end
  | EQuant all_ elt gens =>
      (* a Call whose callee is the Name any / all and whose argument is the (lazy) generator object *)
      match interp_name d (quant_name all_) with
      | Exc EAttributeError => (Exc EInvalidOperation, d)
      | Exc x => (Exc x, d)
      | Val fv =>
          if negb (allowed_callable fv) then (Exc EInvalidOperation, d)
          else match fv with
               | VFunc q =>
                   if negb (String.eqb q (quant_name all_)) then (Exc EUnmodelled, d)
                   else if existsb (fun g => in_dom (comp_target g) d) gens then (Exc EInvalidOperation, d)
                   else match i_gens interp all_ elt gens d with
                        | (s, d') =>
                            (* generator_expr's `finally`: the loop variables leave self.data when the generator is
                               exhausted, closed by any()/all() or aborted by an exception [genvars_scoped] *)
                            (scan_result all_ s,
                             if genvars_scoped F then remove_names (map comp_target gens) d' else d')
                        end
               | _ => (Exc EUnmodelled, d)
               end
      end
  | EOther _ => (Exc (ETypeError false), d)
  end.
End Interpreter.

(* ------------------------------------------------------------------------------------------------ *)
(* the namespaces                                                                                    *)
Definition data_value (n kind : string) : value :=
  if String.eqb kind "func" then VFunc n
  else if String.eqb kind "rec" then VRec
  else if String.eqb kind "type" then VTypeRoot
  else if String.eqb n "True" then VBool true
  else if String.eqb n "False" then VBool false
  else VNone.

(* self.data as RecordContextMatcher.matches builds it (GENERATED name list) *)
Definition std_data : names := map (fun nk => (fst nk, data_value (fst nk) (snd nk))) data_names.

(* the namespace of CompiledSelector.match: helpers, net, r, Type -- plus Python's builtins *)
Definition compiled_names : names :=
  map (fun n => (n, VFunc n)) function_whitelist_names
  ++ [("r"%string, VRec); ("Type"%string, VTypeRoot)]
  ++ map (fun n => (n, VFunc n)) ["any"; "all"; "str"; "repr"]%string.

Definition truth (r : result) : option bool := match r with Val v => Some (truthy v) | Exc _ => None end.

(* the interpreted engine: Selector(e).match(R) *)
Definition interpreted (R : record) (e : expr) : result := fst (interp gen_facts R std_data e).
(* what the expression means in Python, names bound as the selector language documents them *)
Definition py_eval (R : record) (e : expr) : result := py_eval_gen R whitelist_roots false true false std_data e.
Definition py_strict (R : record) (e : expr) : result := py_eval_gen R whitelist_roots false true true std_data e.
(* the compiled engine: eval(code, namespace) with r = WrappedRecord(record) *)
Definition compiled (R : record) (e : expr) : result :=
  py_eval_gen R compiled_extra_names true (tm_keeps_attrs gen_facts) false compiled_names e.

(* every sub-expression is defined on the record (and/or operands included, whether Python would skip them or not) *)
Definition all_defined (R : record) (e : expr) : Prop := exists v, py_strict R e = Val v.

(* ------------------------------------------------------------------------------------------------ *)
(* the documented language as a predicate on expressions                                             *)
Definition callee_shape (f : expr) : bool := match f with EName _ | EAttr _ _ => true | _ => false end.

(* [bpos]: the expression stands where only its truth value is used (top level, operand of and/or/not,
   condition or element of any()/all()).  and/or are in the language in such positions only: elsewhere their
   VALUE (an operand in Python, a bool in the interpreter) would be observed. *)
Fixpoint lang (bpos : bool) (e : expr) {struct e} : bool :=
  match e with
  | EConst _ | EName _ => true
  | EAttr o _ => lang false o
  | EList es | ETuple es => forallb (lang false) es
  | EBoolOp _ es => bpos && forallb (lang true) es
  | EUnary op a => match op with Not => lang true a | _ => false end
  | EBinOp op l r => lang_binop op && lang false l && lang false r
  | ECompare l rest => lang false l && forallb (fun oc => lang false (snd oc)) rest
  | ECall f args kws =>
      callee_shape f && lang false f && forallb (lang false) args && forallb (fun kw => lang false (snd kw)) kws
  | EQuant _ elt gens =>
      lang true elt &&
      match gens with
      | [] => false
      | _ :: _ => forallb (fun g => match g with Comp _ it cs => lang false it && forallb (lang true) cs end) gens
      end
  | EOther _ => false
  end.

Definition in_language (e : expr) : bool := lang true e.

Fixpoint nodupb (l : list string) : bool :=
  match l with [] => true | x :: t => negb (in_list x t) && nodupb t end.
Definition disjointb (xs ys : list string) : bool := forallb (fun x => negb (in_list x ys)) xs.

(* the generator variables bound inside one `for` clause (by generator expressions in its iterable / conditions) *)
Definition comp_inner (g : comp) : list string :=
  match g with Comp _ it cs => gvars it ++ flat_map gvars cs end.

(* No generator expression re-binds a variable of a generator expression that encloses it (Python allows that; the
   interpreter's single namespace does not), and the `for` clauses of one generator expression bind distinct
   names.  Sibling generator expressions may use the same names. *)
Fixpoint scoped (e : expr) {struct e} : bool :=
  match e with
  | EConst _ | EName _ | EOther _ => true
  | EAttr o _ => scoped o
  | EList es | ETuple es | EBoolOp _ es => forallb scoped es
  | EUnary _ a => scoped a
  | EBinOp _ l r => scoped l && scoped r
  | ECompare l rest => scoped l && forallb (fun oc => scoped (snd oc)) rest
  | ECall f args kws => scoped f && forallb scoped args && forallb (fun kw => scoped (snd kw)) kws
  | EQuant _ elt gens =>
      nodupb (map comp_target gens) &&
      disjointb (map comp_target gens) (gvars elt ++ flat_map comp_inner gens) &&
      scoped elt &&
      forallb (fun g => match g with Comp _ it cs => scoped it && forallb scoped cs end) gens
  end.

(* generator variable names: properly scoped, none of the names `matches` defines, no field-type name *)
Definition fresh_vars (e : expr) : bool :=
  scoped e && forallb (fun x => negb (in_dom x std_data) && negb (in_list x whitelist_roots)) (gvars e).
