(* Model of flow/record/adapter/sqlite.py: the SQLite store as seen by the writer's connection and by an
   independent second connection, the three statements the writer issues (CREATE TABLE IF NOT EXISTS,
   ALTER TABLE ADD COLUMN for the missing columns, INSERT), the value mapping of db_insert_record, SQLite's
   column affinity where the writer's values meet it, the reader's mapping, and SqliteWriter itself
   (write / tx_cycle / flush / close) -- once as the clean functions the theorems are about and once as an
   interpreter of the statement lists GENERATED from the method bodies (gen/Gen_sqlite.v).
   Definitions only; proofs are in proofs/Sqlite_proofs.v. *)
From Coq Require Import List Bool String Ascii ZArith NArith DecimalString.
Import ListNotations.
Open Scope list_scope.

(* ------------------------------------------------------------------------------------------ *)
(* results *)

Inductive err :=
| EDuplicateColumn      (* sqlite3.OperationalError: duplicate column name *)
| EReservedName         (* sqlite3.OperationalError: object name reserved for internal use *)
| ENoSuchTable | ENoSuchColumn
| EOverflow             (* OverflowError: Python int too large to convert to SQLite INTEGER *)
| EZeroDivision         (* count % 0 *)
| ETransaction          (* BEGIN inside a transaction / COMMIT outside one *)
| EClosed               (* self.con is None *)
| EUnsupported.         (* a generated statement list uses a call the interpreter level does not have *)

Inductive res (A : Type) := Ok (a : A) | Err (e : err).
Arguments Ok {A} a.
Arguments Err {A} e.

Definition bind {A B} (r : res A) (f : A -> res B) : res B :=
  match r with Ok a => f a | Err e => Err e end.
Notation "r >>= f" := (bind r f) (at level 50, left associativity).

(* ------------------------------------------------------------------------------------------ *)
(* names: SQLite compares identifiers ASCII-case-insensitively *)

Definition lower_ascii (c : ascii) : ascii :=
  let n := N_of_ascii c in
  if (65 <=? n)%N && (n <=? 90)%N then ascii_of_N (n + 32) else c.

Fixpoint fold_case (s : string) : string :=
  match s with
  | EmptyString => EmptyString
  | String c t => String (lower_ascii c) (fold_case t)
  end.

Definition same_ident (a b : string) : bool := String.eqb (fold_case a) (fold_case b).

Definition mem_str (x : string) (l : list string) : bool := existsb (String.eqb x) l.
Definition mem_ident (x : string) (l : list string) : bool := existsb (same_ident x) l.

(* keep the first element of every key, in order (fold_left form: grows on the right) *)
Definition dedup_step {A} (key : A -> string) (acc : list A) (x : A) : list A :=
  if mem_str (key x) (map key acc) then acc else acc ++ [x].
Definition dedup_by {A} (key : A -> string) (l : list A) : list A := fold_left (dedup_step key) l [].
Definition self (s : string) : string := s.

(* ------------------------------------------------------------------------------------------ *)
(* values *)

(* a field value as db_insert_record's isinstance chain sees it *)
Inductive pval :=
| PText (s : string)          (* str (UTF-8 bytes) *)
| PInt (z : Z)                (* int (and its subclasses varint, uint16, filesize ...) *)
| PBool (b : bool)
| PFloat (bits : N)           (* IEEE-754 binary64 bit pattern *)
| PBytes (b : string)
| PTime (iso : string)        (* datetime, identified by its isoformat() text *)
| PNone
| POther (txt : string).      (* anything else, identified by its str() *)

(* what SQLite stores in a cell: storage class + content *)
Inductive sval := SNull | SInt (z : Z) | SReal (bits : N) | SText (s : string) | SBlob (b : string).

Definition sval_eqb (a b : sval) : bool :=
  match a, b with
  | SNull, SNull => true
  | SInt x, SInt y => Z.eqb x y
  | SReal x, SReal y => N.eqb x y
  | SText x, SText y => String.eqb x y
  | SBlob x, SBlob y => String.eqb x y
  | _, _ => false
  end.

Definition pval_eqb (a b : pval) : bool :=
  match a, b with
  | PText x, PText y => String.eqb x y
  | PInt x, PInt y => Z.eqb x y
  | PBool x, PBool y => Bool.eqb x y
  | PFloat x, PFloat y => N.eqb x y
  | PBytes x, PBytes y => String.eqb x y
  | PTime x, PTime y => String.eqb x y
  | PNone, PNone => true
  | POther x, POther y => String.eqb x y
  | _, _ => false
  end.

Definition two63 : Z := 9223372036854775808%Z.
Definition int64_ok (z : Z) : bool := (- two63 <=? z)%Z && (z <? two63)%Z.

Definition exp_bits (bits : N) : N := ((bits / 4503599627370496) mod 2048)%N.
Definition frac_bits (bits : N) : N := (bits mod 4503599627370496)%N.
Definition is_nan (bits : N) : bool := (exp_bits bits =? 2047)%N && negb (frac_bits bits =? 0)%N.
Definition is_finite (bits : N) : bool := (bits <? 18446744073709551616)%N && negb (exp_bits bits =? 2047)%N.
Definition neg_zero : N := 9223372036854775808%N.

(* db_insert_record + the sqlite3 module's parameter binding:
   datetime -> isoformat() text; bytes / int / bool / float / None are handed over as they are; everything
   else -> str().  Binding: an int outside 64 bits raises OverflowError, NaN is bound as NULL. *)
Definition db_value (v : pval) : res sval :=
  match v with
  | PTime iso => Ok (SText iso)
  | PBytes b => Ok (SBlob b)
  | PInt z => if int64_ok z then Ok (SInt z) else Err EOverflow
  | PBool b => Ok (SInt (if b then 1 else 0)%Z)
  | PFloat bits => Ok (if is_nan bits then SNull else SReal bits)
  | PNone => Ok SNull
  | PText s => Ok (SText s)
  | POther t => Ok (SText t)
  end.

(* column affinity from the declared type (https://sqlite.org/datatype3.html 3.1) *)
Inductive affinity := AffInteger | AffText | AffBlob | AffReal | AffNumeric.

Fixpoint has_sub (needle s : string) : bool :=
  if String.prefix needle s then true
  else match s with EmptyString => false | String _ t => has_sub needle t end.

Definition affinity_of (decl : string) : affinity :=
  let d := fold_case decl in
  if has_sub "int" d then AffInteger
  else if has_sub "char" d || has_sub "clob" d || has_sub "text" d then AffText
  else if has_sub "blob" d || String.eqb d "" then AffBlob
  else if has_sub "real" d || has_sub "floa" d || has_sub "doub" d then AffReal
  else AffNumeric.

Definition dec (z : Z) : string := NilZero.string_of_int (Z.to_int z).

(* characters that can occur in a numeric literal (with surrounding white space) *)
Definition numeric_char (c : ascii) : bool :=
  let n := N_of_ascii c in
  ((48 <=? n) && (n <=? 57))%N || existsb (N.eqb n) [43; 45; 46; 69; 101; 32; 9; 10; 11; 12; 13]%N.
Fixpoint maybe_numeric (s : string) : bool :=
  match s with EmptyString => true | String c t => numeric_char c && maybe_numeric t end.

(* Where the effect of affinity on a bound value is modelled exactly.  Outside this domain (a float bound
   to a TEXT column, an int bound to a REAL column, numeric-looking text bound to a numeric column, an
   integer-valued float bound to an INTEGER/NUMERIC column) [store_cell] is the identity and is NOT claimed to
   be what SQLite does; the writer reaches those combinations only when a same-named field changes its
   type between descriptors. *)
Definition affinity_exact (a : affinity) (v : sval) : bool :=
  match a, v with
  | _, SNull | _, SBlob _ => true
  | AffBlob, _ => true
  | AffText, SInt _ | AffText, SText _ => true
  | AffText, SReal _ => false
  | (AffInteger | AffNumeric | AffReal), SText s => negb (maybe_numeric s)
  | (AffInteger | AffNumeric), SInt _ => true
  | (AffInteger | AffNumeric), SReal _ => false
  | AffReal, SReal _ => true
  | AffReal, SInt _ => false
  end.

Definition store_cell (a : affinity) (v : sval) : sval :=
  match a, v with
  | AffText, SInt z => SText (dec z)                          (* numeric value into a TEXT column -> text *)
  | AffReal, SReal bits => if (bits =? neg_zero)%N then SReal 0 else SReal bits
       (* REAL columns store integral floats as integers on disk and turn them back on read: -0.0 -> 0.0 *)
  | _, x => x
  end.

(* ------------------------------------------------------------------------------------------ *)
(* descriptors, records *)

Record desc := { d_name : string; d_fields : list (string * string) }.    (* (typename, fieldname) *)
Record record := { r_desc : desc; r_vals : list pval }.                  (* one value per entry of all_fields *)

Definition pair_eqb (a b : string * string) : bool := String.eqb (fst a) (fst b) && String.eqb (snd a) (snd b).
Fixpoint list_eqb {A} (eqb : A -> A -> bool) (l1 l2 : list A) : bool :=
  match l1, l2 with
  | [], [] => true
  | x :: t1, y :: t2 => eqb x y && list_eqb eqb t1 t2
  | _, _ => false
  end.
(* RecordDescriptor.__eq__: name and field tuples *)
Definition desc_eqb (a b : desc) : bool :=
  String.eqb (d_name a) (d_name b) && list_eqb pair_eqb (d_fields a) (d_fields b).

Definition lookup {A} (k : string) (l : list (string * A)) : option A :=
  match find (fun p => String.eqb (fst p) k) l with Some p => Some (snd p) | None => None end.

(* the tables of sqlite.py and base.py the model depends on; instantiated with GENERATED values *)
Record config := {
  cfg_field_map : list (string * string);          (* FIELD_MAP: field type -> declared column type *)
  cfg_sqlite_field_map : list (string * string);   (* SQLITE_FIELD_MAP: declared column type -> field type *)
  cfg_reserved : list (string * string);           (* RESERVED_FIELDS as (typename, fieldname), in order *)
  cfg_default_batch : N }.

Section WithConfig.
Variable C : config.

(* FIELD_MAP.get(typename, "TEXT") *)
Definition decl_of (typename : string) : string :=
  match lookup typename (cfg_field_map C) with Some d => d | None => "TEXT"%string end.
(* SQLITE_FIELD_MAP.get(decl, "string") *)
Definition ftype_of (decl : string) : string :=
  match lookup decl (cfg_sqlite_field_map C) with Some t => t | None => "string"%string end.

(* descriptor.get_all_fields(): own fields then the reserved ones *)
Definition all_fields (d : desc) : list (string * string) := d_fields d ++ cfg_reserved C.
Definition field_names (d : desc) : list string := map snd (all_fields d).
(* column definitions (name, declared type) *)
Definition cols_of (d : desc) : list (string * string) :=
  map (fun f => (snd f, decl_of (fst f))) (all_fields d).

(* ------------------------------------------------------------------------------------------ *)
(* tables *)

Definition row := list (string * sval).          (* (column name, stored value) for the columns given at INSERT *)
Record table := { t_name : string; t_cols : list (string * string); t_rows : list row }.
Definition tables := list table.

Definition is_table (name : string) (t : table) : bool := same_ident (t_name t) name.
Definition find_table (name : string) (ts : tables) : option table := find (is_table name) ts.
Definition update_table (name : string) (f : table -> table) (ts : tables) : tables :=
  map (fun t => if is_table name t then f t else t) ts.

Fixpoint ident_nodup (l : list string) : bool :=
  match l with [] => true | x :: t => negb (mem_ident x t) && ident_nodup t end.

(* SQLite keeps object names that begin with "sqlite_" (any case) for itself *)
Definition reserved_name (n : string) : bool := String.prefix "sqlite_" (fold_case n).

(* CREATE TABLE IF NOT EXISTS "<name>" (<all fields>) *)
Definition create_table_if_absent (d : desc) (ts : tables) : res tables :=
  match find_table (d_name d) ts with
  | Some _ => Ok ts
  | None =>
      if reserved_name (d_name d) then Err EReservedName
      else if ident_nodup (field_names d)
      then Ok (ts ++ [{| t_name := d_name d; t_cols := cols_of d; t_rows := [] |}])
      else Err EDuplicateColumn
  end.

(* update_descriptor_columns: PRAGMA table_info, then one ALTER TABLE ADD COLUMN per field whose name is not
   (EXACTLY, Python set membership) among the existing column names; SQLite refuses a column whose name
   matches an existing one case-insensitively *)
Fixpoint add_columns (existing : list string) (new : list (string * string)) (cols : list (string * string))
  : res (list (string * string)) :=
  match new with
  | [] => Ok cols
  | c :: rest =>
      if mem_str (fst c) existing then add_columns existing rest cols
      else if mem_ident (fst c) (map fst cols) then Err EDuplicateColumn
      else add_columns existing rest (cols ++ [c])
  end.

Definition add_missing_columns (d : desc) (ts : tables) : res tables :=
  match find_table (d_name d) ts with
  | None => Ok ts         (* PRAGMA table_info of a missing table is empty; every column would then be added to
                             a table that does not exist -- unreachable after create_table_if_absent *)
  | Some t =>
      add_columns (map fst (t_cols t)) (cols_of d) (t_cols t) >>= fun cols' =>
      Ok (update_table (d_name d) (fun t0 => {| t_name := t_name t0; t_cols := cols'; t_rows := t_rows t0 |}) ts)
  end.

(* INSERT INTO "<name>" ("<f1>", ...) VALUES (?, ...): every named column must exist (case-insensitively);
   each value is converted by db_value and then by the column's affinity *)
Definition find_col (f : string) (cols : list (string * string)) : option (string * string) :=
  find (fun c => same_ident (fst c) f) cols.

Fixpoint build_row (cols : list (string * string)) (fvs : list (string * pval)) : res row :=
  match fvs with
  | [] => Ok []
  | (f, v) :: rest =>
      match find_col f cols with
      | None => Err ENoSuchColumn
      | Some c =>
          db_value v >>= fun sv =>
          build_row cols rest >>= fun r =>
          Ok ((fst c, store_cell (affinity_of (snd c)) sv) :: r)
      end
  end.

Definition field_values (r : record) : list (string * pval) := combine (field_names (r_desc r)) (r_vals r).

Definition insert_record (r : record) (ts : tables) : res tables :=
  match find_table (d_name (r_desc r)) ts with
  | None => Err ENoSuchTable
  | Some t =>
      build_row (t_cols t) (field_values r) >>= fun rw =>
      Ok (update_table (d_name (r_desc r))
            (fun t0 => {| t_name := t_name t0; t_cols := t_cols t0; t_rows := t_rows t0 ++ [rw] |}) ts)
  end.

(* SELECT * ... ORDER BY rowid: one value per column, NULL where the row has none *)
Definition cell (rw : row) (c : string * string) : sval :=
  match lookup (fst c) rw with Some v => v | None => SNull end.
Definition select_all (t : table) : list (list sval) := map (fun rw => map (cell rw) (t_cols t)) (t_rows t).

Definition raw_rows (ts : tables) (name : string) : list row :=
  match find_table name ts with Some t => t_rows t | None => [] end.
Definition row_counts (ts : tables) : list (string * N) := map (fun t => (t_name t, N.of_nat (List.length (t_rows t)))) ts.

(* ------------------------------------------------------------------------------------------ *)
(* one connection with explicit transactions (isolation_level=None) and what another connection sees *)

Inductive op := OCreate (d : desc) | OAddCols (d : desc) | OInsert (r : record).

Definition apply_op (ts : tables) (o : op) : res tables :=
  match o with
  | OCreate d => create_table_if_absent d ts
  | OAddCols d => add_missing_columns d ts
  | OInsert r => insert_record r ts
  end.

Definition apply_ops (os : list op) (ts : tables) : res tables :=
  fold_left (fun acc o => acc >>= fun t => apply_op t o) os (Ok ts).

Record conn := {
  c_committed : tables;      (* the database file as any other connection reads it *)
  c_pending : list op;       (* statements of the open transaction, not yet committed *)
  c_in_tx : bool }.

(* what the writing connection itself reads *)
Definition view (c : conn) : res tables := apply_ops (c_pending c) (c_committed c).

(* con.execute(<DDL or INSERT>): inside a transaction the statement joins it, outside it autocommits *)
Definition exec_sql (c : conn) (o : op) : res conn :=
  view c >>= fun cur =>
  apply_op cur o >>= fun cur' =>
  if c_in_tx c
  then Ok {| c_committed := c_committed c; c_pending := c_pending c ++ [o]; c_in_tx := true |}
  else Ok {| c_committed := cur'; c_pending := []; c_in_tx := false |}.

Definition exec_commit (c : conn) : res conn :=
  if c_in_tx c
  then view c >>= fun cur => Ok {| c_committed := cur; c_pending := []; c_in_tx := false |}
  else Err ETransaction.

Definition exec_begin (c : conn) : res conn :=
  if c_in_tx c then Err ETransaction
  else Ok {| c_committed := c_committed c; c_pending := c_pending c; c_in_tx := true |}.

(* con.close(): an open transaction is rolled back *)
Definition con_close (c : conn) : conn :=
  {| c_committed := c_committed c; c_pending := []; c_in_tx := false |}.

(* ------------------------------------------------------------------------------------------ *)
(* SqliteWriter *)

Record wstate := {
  w_count : N; w_batch : N; w_seen : list desc;
  w_open : bool;              (* self.con is not None *)
  w_con : conn }.

Definition set_con (w : wstate) (c : conn) : wstate :=
  {| w_count := w_count w; w_batch := w_batch w; w_seen := w_seen w; w_open := w_open w; w_con := c |}.
Definition seen (w : wstate) (d : desc) : bool := existsb (desc_eqb d) (w_seen w).
Definition add_seen (w : wstate) (d : desc) : wstate :=
  {| w_count := w_count w; w_batch := w_batch w; w_seen := w_seen w ++ [d]; w_open := w_open w; w_con := w_con w |}.
Definition incr_count (w : wstate) : wstate :=
  {| w_count := w_count w + 1; w_batch := w_batch w; w_seen := w_seen w; w_open := w_open w; w_con := w_con w |}.
Definition set_closed (w : wstate) : wstate :=
  {| w_count := w_count w; w_batch := w_batch w; w_seen := w_seen w; w_open := false; w_con := w_con w |}.

(* self.count % self.batch_size == 0 *)
Definition batch_full (w : wstate) : res bool :=
  if (w_batch w =? 0)%N then Err EZeroDivision else Ok ((w_count w mod w_batch w) =? 0)%N.

Definition sql (w : wstate) (o : op) : res wstate :=
  if w_open w then exec_sql (w_con w) o >>= fun c => Ok (set_con w c) else Err EClosed.

Definition on_con (w : wstate) (f : conn -> res conn) : res wstate :=
  if w_open w then f (w_con w) >>= fun c => Ok (set_con w c) else Err EClosed.

(* self.con.in_transaction *)
Definition in_tx (w : wstate) : res bool := if w_open w then Ok (c_in_tx (w_con w)) else Err EClosed.

(* --- the clean model --- *)

Definition tx_cycle (w : wstate) : res wstate :=
  in_tx w >>= fun b =>
  (if b then on_con w exec_commit else Ok w) >>= fun w1 =>
  on_con w1 exec_begin.

Definition flush (w : wstate) : res wstate := if w_open w then tx_cycle w else Ok w.

Definition write (w : wstate) (r : record) : res wstate :=
  let d := r_desc r in
  (if seen w d then Ok w
   else sql (add_seen w d) (OCreate d) >>= fun w1 => sql w1 (OAddCols d) >>= flush) >>= fun w2 =>
  sql w2 (OInsert r) >>= fun w3 =>
  let w4 := incr_count w3 in
  batch_full w4 >>= fun full => if full then flush w4 else Ok w4.

Definition close (w : wstate) : res wstate :=
  (if w_open w then flush w >>= fun w1 => on_con w1 (fun c => Ok (con_close c)) else Ok w) >>= fun w2 =>
  Ok (set_closed w2).

(* __init__ on a database file that holds [db]: connect(isolation_level=None); count = 0; tx_cycle() *)
Definition init_on (db : tables) (batch : N) : res wstate :=
  tx_cycle {| w_count := 0; w_batch := batch; w_seen := [];
              w_open := true; w_con := {| c_committed := db; c_pending := []; c_in_tx := false |} |}.
Definition init (batch : N) : res wstate := init_on [] batch.

(* one writer session ends (close) and a NEW SqliteWriter is opened on the same file: the database persists,
   count and descriptors_seen start afresh *)
Definition reopen (w : wstate) : res wstate :=
  close w >>= fun w1 => init_on (c_committed (w_con w1)) (w_batch w1).

(* --- the same methods as statement lists (GENERATED from the method bodies) and their interpreter --- *)

Inductive cond :=
| CNewDesc        (* desc not in self.descriptors_seen *)
| CBatchFull      (* self.count % self.batch_size == 0 *)
| CHasCon         (* self.con *)
| CInTx.          (* self.con.in_transaction *)

Inductive simple :=
| SeenAdd | CreateTable | UpdateColumns | InsertRecord | IncrCount
| CallFlush | CallTxCycle | ExecCommit | ExecBegin | ConClose.

Inductive stmt := Do (s : simple) | When (c : cond) (body : list simple) | SetConNone.

Record code := {
  code_write : list stmt; code_tx_cycle : list stmt; code_flush : list stmt; code_close : list stmt;
  code_init_autocommit : bool;     (* sqlite3.connect(..., isolation_level=None) *)
  code_init_count_zero : bool;
  code_init_tx_cycle : bool }.     (* __init__ ends with self.tx_cycle() *)

Section Interp.
Variable calls : simple -> wstate -> res wstate.     (* what CallFlush / CallTxCycle mean at this level *)
Variable cur : option record.                        (* the argument of write *)

Definition exec_simple (s : simple) (w : wstate) : res wstate :=
  match s, cur with
  | SeenAdd, Some r => Ok (add_seen w (r_desc r))
  | CreateTable, Some r => sql w (OCreate (r_desc r))
  | UpdateColumns, Some r => sql w (OAddCols (r_desc r))
  | InsertRecord, Some r => sql w (OInsert r)
  | IncrCount, _ => Ok (incr_count w)
  | (CallFlush | CallTxCycle), _ => calls s w
  | ExecCommit, _ => on_con w exec_commit
  | ExecBegin, _ => on_con w exec_begin
  | ConClose, _ => on_con w (fun c => Ok (con_close c))
  | _, None => Err EUnsupported
  end.

Definition eval_cond (c : cond) (w : wstate) : res bool :=
  match c, cur with
  | CNewDesc, Some r => Ok (negb (seen w (r_desc r)))
  | CNewDesc, None => Err EUnsupported
  | CBatchFull, _ => batch_full w
  | CHasCon, _ => Ok (w_open w)
  | CInTx, _ => in_tx w
  end.

Fixpoint exec_simples (l : list simple) (w : wstate) : res wstate :=
  match l with [] => Ok w | s :: t => exec_simple s w >>= exec_simples t end.

Definition exec_stmt (s : stmt) (w : wstate) : res wstate :=
  match s with
  | Do x => exec_simple x w
  | When c body => eval_cond c w >>= fun b => if b then exec_simples body w else Ok w
  | SetConNone => Ok (set_closed w)
  end.

Fixpoint exec_stmts (l : list stmt) (w : wstate) : res wstate :=
  match l with [] => Ok w | s :: t => exec_stmt s w >>= exec_stmts t end.
End Interp.

Definition no_calls (s : simple) (w : wstate) : res wstate := Err EUnsupported.

Definition code_tx (cd : code) (w : wstate) : res wstate := exec_stmts no_calls None (code_tx_cycle cd) w.
Definition calls1 (cd : code) (s : simple) (w : wstate) : res wstate :=
  match s with CallTxCycle => code_tx cd w | _ => Err EUnsupported end.
Definition code_flush_fn (cd : code) (w : wstate) : res wstate := exec_stmts (calls1 cd) None (code_flush cd) w.
Definition calls2 (cd : code) (s : simple) (w : wstate) : res wstate :=
  match s with CallTxCycle => code_tx cd w | CallFlush => code_flush_fn cd w | _ => Err EUnsupported end.
Definition code_write_fn (cd : code) (w : wstate) (r : record) : res wstate :=
  exec_stmts (calls2 cd) (Some r) (code_write cd) w.
Definition code_close_fn (cd : code) (w : wstate) : res wstate := exec_stmts (calls2 cd) None (code_close cd) w.
Definition code_init_on (cd : code) (db : tables) (batch : N) : res wstate :=
  if code_init_autocommit cd && code_init_count_zero cd && code_init_tx_cycle cd
  then code_tx cd {| w_count := 0; w_batch := batch; w_seen := [];
                     w_open := true; w_con := {| c_committed := db; c_pending := []; c_in_tx := false |} |}
  else Err EUnsupported.
Definition code_init (cd : code) (batch : N) : res wstate := code_init_on cd [] batch.
Definition code_reopen (cd : code) (w : wstate) : res wstate :=
  code_close_fn cd w >>= fun w1 => code_init_on cd (c_committed (w_con w1)) (w_batch w1).

(* ------------------------------------------------------------------------------------------ *)
(* histories *)

Inductive event :=
| EWrite (r : record)
| EFlush
| EReopen.      (* close the writer, open a new SqliteWriter on the same file with the same batch size *)

Definition step (w : wstate) (e : event) : res wstate :=
  match e with EWrite r => write w r | EFlush => flush w | EReopen => reopen w end.

Definition run_from (w0 : res wstate) (evs : list event) : res wstate :=
  fold_left (fun acc e => acc >>= fun w => step w e) evs w0.
Definition run (batch : N) (evs : list event) : res wstate := run_from (init batch) evs.
Definition finish (batch : N) (evs : list event) : res wstate := run batch evs >>= close.

(* what an independent connection reads *)
Definition visible (w : wstate) : tables := c_committed (w_con w).
(* the database file left behind by  with SqliteWriter(path, batch_size=batch) as w: <history> *)
Definition final_db (batch : N) (evs : list event) : res tables := finish batch evs >>= fun w => Ok (visible w).

Definition writes (evs : list event) : list record :=
  flat_map (fun e => match e with EWrite r => [r] | EFlush | EReopen => [] end) evs.
Definition descs_of (evs : list event) : list desc := map r_desc (writes evs).

(* ---- the content of the database as a function of the history alone (no batches, no transactions) ---- *)

Definition seq_state := (list desc * tables)%type.

(* the schema statements of a new descriptor *)
Definition ddl (d : desc) (ts : tables) : res tables :=
  create_table_if_absent d ts >>= add_missing_columns d.

Definition seq_write (st : seq_state) (r : record) : res seq_state :=
  let d := r_desc r in
  (if existsb (desc_eqb d) (fst st) then Ok st
   else ddl d (snd st) >>= fun t2 => Ok (fst st ++ [d], t2)) >>= fun st1 =>
  insert_record r (snd st1) >>= fun t3 => Ok (fst st1, t3).

Definition seq_step (st : seq_state) (e : event) : res seq_state :=
  match e with EWrite r => seq_write st r | EFlush => Ok st | EReopen => Ok ([], snd st) end.

Definition seq_run (evs : list event) : res seq_state :=
  fold_left (fun acc e => acc >>= fun st => seq_step st e) evs (Ok ([], [])).

Definition content (evs : list event) : res tables := seq_run evs >>= fun st => Ok (snd st).

(* ---- the same content described declaratively: which tables, which columns, which rows ---- *)

Definition type_names (evs : list event) : list string := map d_name (descs_of evs).
Definition descs_named (n : string) (evs : list event) : list desc :=
  filter (fun d => String.eqb (d_name d) n) (descs_of evs).
Definition records_named (n : string) (evs : list event) : list record :=
  filter (fun r => String.eqb (d_name (r_desc r)) n) (writes evs).

(* a value as it sits in a column of declared type [decl] *)
Definition stored (decl : string) (v : pval) : sval :=
  match db_value v with Ok sv => store_cell (affinity_of decl) sv | Err _ => SNull end.
Definition decl_in (cols : list (string * string)) (f : string) : string :=
  match lookup f cols with Some d => d | None => EmptyString end.
Definition raw_row (cols : list (string * string)) (r : record) : row :=
  map (fun fv => (fst fv, stored (decl_in cols (fst fv)) (snd fv))) (field_values r).
Definition mk_table (n : string) (ds : list desc) (rs : list record) : table :=
  let cols := dedup_by fst (flat_map cols_of ds) in
  {| t_name := n; t_cols := cols; t_rows := map (raw_row cols) rs |}.
Definition spec_table (evs : list event) (n : string) : table :=
  mk_table n (descs_named n evs) (records_named n evs).
Definition spec_tables (evs : list event) : tables := map (spec_table evs) (dedup_by self (type_names evs)).

(* ... and as an independent connection observes it with PRAGMA table_info and SELECT * *)
Definition spec_cols (n : string) (evs : list event) : list (string * string) :=
  dedup_by fst (flat_map cols_of (descs_named n evs)).       (* one column per field, first declaration wins *)
Definition spec_row (cols : list (string * string)) (r : record) : list sval :=
  map (fun c => match lookup (fst c) (field_values r) with Some v => stored (snd c) v | None => SNull end) cols.
Definition spec_db (evs : list event) : list (string * list (string * string) * list (list sval)) :=
  map (fun n => (n, spec_cols n evs, map (spec_row (spec_cols n evs)) (records_named n evs)))
      (dedup_by self (type_names evs)).                      (* one table per type name, in order of first use *)
Definition observe (ts : tables) : list (string * list (string * string) * list (list sval)) :=
  map (fun t => (t_name t, t_cols t, select_all t)) ts.

(* the hypotheses under which the declarative description holds *)
Definition case_inj (l : list string) : Prop :=
  forall a b, In a l -> In b l -> fold_case a = fold_case b -> a = b.
(* no two type names, and no two field names of one type name, differ only in ASCII case *)
Definition case_distinct (evs : list event) : Prop :=
  case_inj (type_names evs) /\ forall n, case_inj (flat_map field_names (descs_named n evs)).
(* a descriptor has no field twice and none named like a reserved field (RecordDescriptor guarantees it) *)
Definition wf_history (evs : list event) : Prop := forall d, In d (descs_of evs) -> NoDup (field_names d).
Definition storable (v : pval) : Prop := match v with PInt z => int64_ok z = true | _ => True end.
Definition ints_in_range (evs : list event) : Prop := forall r, In r (writes evs) -> Forall storable (r_vals r).
(* no type name begins with "sqlite_" *)
Definition no_reserved_names (evs : list event) : Prop := forall n, In n (type_names evs) -> reserved_name n = false.

(* the same hypotheses as computable tests (sound, see proofs) *)
Definition case_injb (l : list string) : bool :=
  let u := dedup_by self l in
  forallb (fun a => forallb (fun b => implb (same_ident a b) (String.eqb a b)) u) u.
Fixpoint nodupb (l : list string) : bool :=
  match l with [] => true | x :: t => negb (mem_str x t) && nodupb t end.
Definition storableb (v : pval) : bool := match v with PInt z => int64_ok z | _ => true end.
Definition wf_historyb (evs : list event) : bool := forallb (fun d => nodupb (field_names d)) (descs_of evs).
Definition case_distinctb (evs : list event) : bool :=
  case_injb (type_names evs) &&
  forallb (fun n => case_injb (flat_map field_names (descs_named n evs))) (dedup_by self (type_names evs)).
Definition ints_in_rangeb (evs : list event) : bool := forallb (fun r => forallb storableb (r_vals r)) (writes evs).

Definition no_reserved_namesb (evs : list event) : bool := forallb (fun n => negb (reserved_name n)) (type_names evs).

Definition hypsb (evs : list event) : bool :=
  wf_historyb evs && case_distinctb evs && ints_in_rangeb evs && no_reserved_namesb evs.

(* ---- commit points as positions in the history ---- *)

Record scan := { sc_pos : nat; sc_cnt : N; sc_seen : list desc; sc_lc : nat }.

Definition scan_step (batch : N) (s : scan) (e : event) : scan :=
  match e with
  | EFlush => {| sc_pos := S (sc_pos s); sc_cnt := sc_cnt s; sc_seen := sc_seen s; sc_lc := S (sc_pos s) |}
  | EReopen => {| sc_pos := S (sc_pos s); sc_cnt := 0; sc_seen := []; sc_lc := S (sc_pos s) |}
       (* close commits everything; the new writer counts from 0 and has seen no descriptor *)
  | EWrite r =>
      let new := negb (existsb (desc_eqb (r_desc r)) (sc_seen s)) in
      let lc1 := if new then sc_pos s else sc_lc s in      (* a new descriptor commits everything before this record *)
      let cnt := (sc_cnt s + 1)%N in
      let lc2 := if ((cnt mod batch) =? 0)%N then S (sc_pos s) else lc1 in   (* a full batch commits this record too *)
      {| sc_pos := S (sc_pos s); sc_cnt := cnt;
         sc_seen := if new then sc_seen s ++ [r_desc r] else sc_seen s; sc_lc := lc2 |}
  end.

Definition scan_all (batch : N) (evs : list event) : scan :=
  fold_left (scan_step batch) evs {| sc_pos := 0; sc_cnt := 0; sc_seen := []; sc_lc := 0 |}.

(* number of leading events whose records are visible to another connection after [evs] *)
Definition last_commit (batch : N) (evs : list event) : nat := sc_lc (scan_all batch evs).

Definition n_writes (evs : list event) : N := N.of_nat (List.length (writes evs)).

(* the events of the current writer session: those after the last EReopen *)
Definition session_step (acc : list event) (e : event) : list event :=
  match e with EReopen => [] | _ => acc ++ [e] end.
Definition session (evs : list event) : list event := fold_left session_step evs [].

(* the same positions described one by one: [c] leading events are committed as a whole when ... *)
Definition is_commit_point (batch : N) (evs : list event) (c : nat) : Prop :=
  c = 0                                                                           (* nothing written yet *)
  \/ (exists c', c = S c' /\ (nth_error evs c' = Some EFlush \/ nth_error evs c' = Some EReopen))
                                                               (* an explicit flush; the end of a writer session *)
  \/ (exists c' r, c = S c' /\ nth_error evs c' = Some (EWrite r) /\
                   (n_writes (session (firstn c evs)) mod batch = 0)%N)    (* every batch-th record of a session *)
  \/ (exists r, nth_error evs c = Some (EWrite r) /\
                ~ In (r_desc r) (descs_of (session (firstn c evs)))).
                                                 (* the next record brings a descriptor new to this session *)

(* ------------------------------------------------------------------------------------------ *)
(* SqliteReader.read_table: declared column type -> field type; clean-ups; field type conversion.
   [None] = the conversion of that storage class by that field type is not modelled. *)

Definition is_zero_real (bits : N) : bool := (bits =? 0)%N || (bits =? neg_zero)%N.

Definition read_cell (decl : string) (v : sval) : option pval :=
  let ft := ftype_of decl in
  if String.eqb ft "varint" then
    match v with
    | SInt z => Some (PInt z) | SNull => Some PNone
    | SText s => if String.eqb s "" then Some PNone else None
    | _ => None
    end
  else if String.eqb ft "bytes" then
    match v with
    | SBlob b => Some (PBytes b) | SNull => Some PNone
    | SInt z => if (z =? 0)%Z then Some PNone else None
    | SReal bits => if is_zero_real bits then Some PNone else None
    | SText s => Some (PBytes s)
    end
  else if String.eqb ft "float" then
    match v with SReal bits => Some (PFloat bits) | SNull => Some PNone | _ => None end
  else if String.eqb ft "datetime" then
    match v with SText iso => Some (PTime iso) | SNull => Some PNone | _ => None end
  else if String.eqb ft "string" then
    match v with SText s => Some (PText s) | SNull => Some PNone | _ => None end
  else None.

(* the records SqliteReader yields for one table: per row, one value per column *)
Definition read_table (t : table) : list (list (option pval)) :=
  map (fun vals => map (fun cv => read_cell (snd (fst cv)) (snd cv)) (combine (t_cols t) vals)) (select_all t).

(* SqliteReader.__iter__ when table_names lists every table (GENERATED fact: the query has no further filter) *)
Definition read_db (ts : tables) : list (string * list (list (option pval))) :=
  map (fun t => (t_name t, read_table t)) ts.

(* what a record looks like after the round trip, per field of its own descriptor *)
Definition expected_back (typename : string) (v : pval) : option pval :=
  match db_value v with
  | Ok sv => read_cell (decl_of typename) (store_cell (affinity_of (decl_of typename)) sv)
  | Err _ => None
  end.

(* what the value-fidelity statements need from FIELD_MAP / SQLITE_FIELD_MAP (checked by computation on
   the generated tables) *)
Definition affinity_eqb (a b : affinity) : bool :=
  match a, b with
  | AffInteger, AffInteger | AffText, AffText | AffBlob, AffBlob | AffReal, AffReal | AffNumeric, AffNumeric => true
  | _, _ => false
  end.
Definition maps_as (ty : string) (a : affinity) (back : string) : bool :=
  affinity_eqb (affinity_of (decl_of ty)) a && String.eqb (ftype_of (decl_of ty)) back.
Definition int_types : list string := ["varint"; "filesize"; "uint32"]%string.
Definition value_side_ok : bool :=
  maps_as "string" AffText "string" && forallb (fun ty => maps_as ty AffInteger "varint") int_types &&
  maps_as "boolean" AffInteger "varint" && maps_as "float" AffReal "float" && maps_as "bytes" AffBlob "bytes" &&
  maps_as "datetime" AffNumeric "datetime" && String.eqb (ftype_of "TEXT") "string".

End WithConfig.

(* ------------------------------------------------------------------------------------------ *)
(* boolean comparison of an observed database with the model's (used by the correspondence check) *)

Definition cols_eqb (a b : list (string * string)) : bool := list_eqb pair_eqb a b.
Definition rows_eqb (a b : list (list sval)) : bool := list_eqb (list_eqb sval_eqb) a b.

(* SqliteReader.table_names: the (whitespace- and case-normalised) query that lists EVERY table; the GENERATED
   fact reader_table_query must be this text for [read_db] to be what SqliteReader.__iter__ does *)
Definition all_tables_query : string := "select name from sqlite_master where type='table'".
