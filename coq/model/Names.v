(* C06 model: names in record type definitions (flow/record/base.py).  Definitions only; proofs are in
   proofs/Names_proofs.v.  Strings are lists of code points (N).

   Part 1 is the INDEPENDENT SPECIFICATION of the property text (it does not mention regexes):
     type_name_grammar     "a slash-separated sequence of ASCII identifiers"
     ident_no_underscore   "an ASCII identifier that does not start with an underscore"
     whitelisted_opt_list  "on the field-type whitelist (optionally in list form)"
   Part 2 models what the code does, parameterised by the facts the translator reads from /repo on every
   run (record name_facts; instantiated in gen/Gen_names.v): the two regexes, is_valid_field_name as a
   decision tree, the order of the checks in _generate_record_class, RESERVED_FIELDS, WHITELIST,
   keyword.kwlist, the class template with its holes. *)
From Coq Require Import List Bool NArith String Ascii.
Import ListNotations.
From FR Require Import Regex.
Open Scope N_scope.
Open Scope list_scope.

Definition str := list N.

Fixpoint s2n (s : string) : str :=
  match s with
  | EmptyString => []
  | String a t => N_of_ascii a :: s2n t
  end.

Fixpoint str_eqb (a b : str) : bool :=
  match a, b with
  | [], [] => true
  | x :: a', y :: b' => (x =? y) && str_eqb a' b'
  | _, _ => false
  end.

Definition mem (x : str) (l : list str) : bool := existsb (str_eqb x) l.

Fixpoint prefixb (p s : str) : bool :=
  match p, s with
  | [], _ => true
  | x :: p', y :: s' => (x =? y) && prefixb p' s'
  | _ :: _, [] => false
  end.

Fixpoint substrb (p s : str) : bool :=
  prefixb p s || match s with [] => false | _ :: t => substrb p t end.

(* ------------------------------------------------------------------------------------------- *)
(* Part 1: specification *)

Definition is_alpha (c : N) : bool := ((65 <=? c) && (c <=? 90)) || ((97 <=? c) && (c <=? 122)).
Definition is_digit (c : N) : bool := (48 <=? c) && (c <=? 57).
Definition UNDERSCORE : N := 95.
Definition SLASH : N := 47.
Definition is_underscore (c : N) : bool := c =? UNDERSCORE.
Definition is_slash (c : N) : bool := c =? SLASH.
Definition is_word (c : N) : bool := is_alpha c || is_digit c || is_underscore c.

(* ASCII identifier that does not start with an underscore: a letter, then letters / digits / "_" *)
Definition ident_no_underscore (s : str) : bool :=
  match s with
  | [] => false
  | c :: t => is_alpha c && forallb is_word t
  end.

(* str.split(d) for a one-character separator *)
Fixpoint split_on (d : N) (s : str) : list str :=
  match s with
  | [] => [[]]
  | c :: t =>
      if c =? d then [] :: split_on d t
      else match split_on d t with
           | p :: ps => (c :: p) :: ps
           | [] => [[c]]
           end
  end.

(* slash-separated sequence of identifiers (each starting with a letter) *)
Definition type_name_grammar (s : str) : bool := forallb ident_no_underscore (split_on SLASH s).

(* base ++ "[]"  ->  Some base *)
Definition strip_brackets (s : str) : option str :=
  match rev s with
  | x :: y :: r => if (x =? 93) && (y =? 91) then Some (rev r) else None
  | _ => None
  end.

Definition strip_list (t : str) : str :=
  match strip_brackets t with Some b => b | None => t end.

Definition whitelisted_opt_list (wl : list str) (t : str) : bool := mem (strip_list t) wl.

(* "P s, or s is one trailing newline longer than a string satisfying P" -- the exact slack of "$" *)
Definition slack (P : str -> bool) (s : str) : Prop :=
  P s = true \/ exists g, s = g ++ [NL] /\ P g = true.

(* keep the first occurrence of every name (what an OrderedDict's keys do) *)
Fixpoint dedup_seen (seen xs : list str) : list str :=
  match xs with
  | [] => []
  | x :: t => if mem x seen then dedup_seen seen t else x :: dedup_seen (seen ++ [x]) t
  end.
Definition dedup (xs : list str) : list str := dedup_seen [] xs.

Fixpoint nodupb (xs : list str) : bool :=
  match xs with
  | [] => true
  | x :: t => negb (mem x t) && nodupb t
  end.

(* ------------------------------------------------------------------------------------------- *)
(* Part 2: the code, parameterised by generated facts *)

(* is_valid_field_name(name, check_reserved): conditions it tests and its if/return structure *)
Inductive vcond :=
| ACheckReserved                 (* the parameter check_reserved *)
| AInReserved                    (* name in RESERVED_FIELDS *)
| AStartsUnderscore              (* name.startswith("_") *)
| ARegexMatch                    (* RE_VALID_FIELD_NAME.match(name) *)
| ANot (c : vcond)
| AAnd (a b : vcond)
| AOr (a b : vcond).

Inductive dtree :=
| DRet (b : bool)
| DIf (c : vcond) (t e : dtree).

Record valuation := { v_check : bool; v_reserved : bool; v_underscore : bool; v_match : bool }.

Fixpoint eval_cond (c : vcond) (v : valuation) : bool :=
  match c with
  | ACheckReserved => v_check v
  | AInReserved => v_reserved v
  | AStartsUnderscore => v_underscore v
  | ARegexMatch => v_match v
  | ANot a => negb (eval_cond a v)
  | AAnd a b => eval_cond a v && eval_cond b v
  | AOr a b => eval_cond a v || eval_cond b v
  end.

Fixpoint eval_dtree (t : dtree) (v : valuation) : bool :=
  match t with
  | DRet b => b
  | DIf c a b => if eval_cond c v then eval_dtree a v else eval_dtree b v
  end.

(* top-level steps of _generate_record_class, in source order *)
Inductive gstep :=
| GCheckFieldNames      (* for every field: if not is_valid_field_name(fieldname[, check_reserved]): raise *)
| GBuildRecordFields    (* RecordField(n, t) for every field: is_valid_field_name(n, check_reserved=..) then fieldtype(t) *)
| GCheckTypeName        (* if not RE_VALID_RECORD_TYPE_NAME.match(name): raise *)
| GExec.                (* exec(code, ...) *)

Inductive hole := HName | HFieldTypes | HSlots | HArgs | HInit | HUnpack.
Inductive tpiece := TText (s : str) | THole (h : hole).

Record re_fact := { re_body : regex; re_end : end_anchor }.

Record name_facts := {
  nf_field_re : re_fact;                  (* RE_VALID_FIELD_NAME *)
  nf_type_re : re_fact;                   (* RE_VALID_RECORD_TYPE_NAME *)
  nf_reserved : list (str * str);         (* RESERVED_FIELDS, ordered: (name, type) *)
  nf_whitelist : list str;                (* WHITELIST, ordered *)
  nf_keywords : list str;                 (* keyword.kwlist *)
  nf_field_valid : dtree;                 (* is_valid_field_name *)
  nf_grc_check_reserved : bool;           (* check_reserved as seen by the call in _generate_record_class *)
  nf_rf_check_reserved : bool;            (* check_reserved as seen by the call in RecordField.__init__ *)
  nf_gsteps : list gstep;                 (* _generate_record_class *)
  nf_rf_validates_before_fieldtype : bool;(* RecordField.__init__: name check (raising) precedes fieldtype(typename) *)
  nf_ft_strips_one_list_suffix : bool;    (* fieldtype: exactly one trailing "[]" is removed *)
  nf_ft_whitelist_before_import : bool;   (* fieldtype: `not in WHITELIST -> raise` precedes importlib / getattr / type() *)
  nf_exec_sites : list str;               (* functions of base.py that call exec/eval/compile *)
  nf_grc_callers : list str;              (* functions of base.py that call _generate_record_class *)
  nf_routes : list (str * bool);          (* untrusted route -> hands the definition to RecordDescriptor(...) only *)
  nf_template : list tpiece;              (* RECORD_CLASS_TEMPLATE *)
  nf_plain_default_types : list str;      (* field types whose default is rendered inline as None *)
  nf_init_tail : str;                     (* _generate_record_class: the constant appended to init_code after the fields *)
  nf_kw_args : str;                       (* keyword path: args, init_code, unpack_code constants *)
  nf_kw_init : str;
  nf_kw_unpack : str;
  nf_to_str_surrogateescape : bool        (* utils.to_str (the one base.py and packer.py use): identity on str; on bytes equal
                                             to decode("utf-8", "surrogateescape") on a battery of invalid / truncated /
                                             overlong sequences at every position -- no byte is dropped or merged *)
}.

(* the same facts with both regexes ending in the given anchor (to state what "$" would admit) *)
Definition with_end (e : end_anchor) (F : name_facts) : name_facts :=
  {| nf_field_re := {| re_body := re_body (nf_field_re F); re_end := e |};
     nf_type_re := {| re_body := re_body (nf_type_re F); re_end := e |};
     nf_reserved := nf_reserved F; nf_whitelist := nf_whitelist F; nf_keywords := nf_keywords F;
     nf_field_valid := nf_field_valid F; nf_grc_check_reserved := nf_grc_check_reserved F;
     nf_rf_check_reserved := nf_rf_check_reserved F; nf_gsteps := nf_gsteps F;
     nf_rf_validates_before_fieldtype := nf_rf_validates_before_fieldtype F;
     nf_ft_strips_one_list_suffix := nf_ft_strips_one_list_suffix F;
     nf_ft_whitelist_before_import := nf_ft_whitelist_before_import F;
     nf_exec_sites := nf_exec_sites F; nf_grc_callers := nf_grc_callers F; nf_routes := nf_routes F;
     nf_template := nf_template F; nf_plain_default_types := nf_plain_default_types F;
     nf_init_tail := nf_init_tail F; nf_kw_args := nf_kw_args F; nf_kw_init := nf_kw_init F;
     nf_kw_unpack := nf_kw_unpack F; nf_to_str_surrogateescape := nf_to_str_surrogateescape F |}.

Definition is_ascii (c : N) : bool := c <? 128.

Section WithFacts.
Variable F : name_facts.

Definition reserved_names : list str := map fst (nf_reserved F).

Definition starts_underscore (s : str) : bool :=
  match s with c :: _ => is_underscore c | [] => false end.

Definition re_match (r : re_fact) (s : str) : bool := py_match (re_body r) (re_end r) s.

Definition field_valid (check_reserved : bool) (f : str) : bool :=
  eval_dtree (nf_field_valid F)
    {| v_check := check_reserved; v_reserved := mem f reserved_names;
       v_underscore := starts_underscore f; v_match := re_match (nf_field_re F) f |}.

Definition type_ok (t : str) : bool := whitelisted_opt_list (nf_whitelist F) t.

(* a definition: type name and (field type, field name) pairs, as handed to RecordDescriptor *)
Definition decl := list (str * str).

(* does the definition get as far as exec?  (every check step that fails raises) *)
Fixpoint reaches_exec (steps : list gstep) (name : str) (d : decl) : bool :=
  match steps with
  | [] => false
  | GExec :: _ => true
  | GCheckFieldNames :: r =>
      forallb (field_valid (nf_grc_check_reserved F)) (map snd d) && reaches_exec r name d
  | GBuildRecordFields :: r =>
      forallb (field_valid (nf_rf_check_reserved F)) (map snd d) && forallb type_ok (map fst d)
      && reaches_exec r name d
  | GCheckTypeName :: r => re_match (nf_type_re F) name && reaches_exec r name d
  end.

Definition validators_pass (name : str) (d : decl) : bool := reaches_exec (nf_gsteps F) name d.

(* fieldtype(clspath): the class path that is resolved with importlib/getattr, if any *)
Definition fieldtype (p : str) : option str :=
  let c := if nf_ft_strips_one_list_suffix F then strip_list p else p in
  if mem c (nf_whitelist F) then Some c else None.

(* OrderedDict *)
Fixpoint od_set (k v : str) (l : list (str * str)) : list (str * str) :=
  match l with
  | [] => [(k, v)]
  | (k', v') :: t => if str_eqb k k' then (k', v) :: t else (k', v') :: od_set k v t
  end.
Definition od_update (acc kvs : list (str * str)) : list (str * str) :=
  fold_left (fun a kv => od_set (fst kv) (snd kv) a) kvs acc.

(* all_fields = OrderedDict([(n, RecordField(n, t)) for t, n in fields]); all_fields.update(reserved) *)
Definition all_fields (d : decl) : list (str * str) :=
  od_update (od_update [] (map (fun tn => (snd tn, fst tn)) d)) (nf_reserved F).

Definition slots (d : decl) : list str := map fst (all_fields d).

(* ---- rendering of the class source ---- *)
Inductive frag :=
| Fix (s : str)       (* text that does not come from the definition *)
| Dyn (s : str).      (* text taken from the definition (type name with "/" -> "_", a declared field name) *)

Definition frag_text (f : frag) : str := match f with Fix s => s | Dyn s => s end.

Definition frag_eqb (a b : frag) : bool :=
  match a, b with
  | Fix x, Fix y => str_eqb x y
  | Dyn x, Dyn y => str_eqb x y
  | _, _ => false
  end.

Definition sanitize (name : str) : str := map (fun c => if c =? SLASH then UNDERSCORE else c) name.

Definition nm (k : str) : frag := if mem k reserved_names then Fix k else Dyn k.

Definition fx (s : string) : frag := Fix (s2n s).
Definition TAB : frag := Fix [9].
Definition LF : frag := Fix [10].

(* repr() of a string of identifier characters *)
Definition quoted (k : str) : list frag := [fx "'"; nm k; fx "'"].

Fixpoint join (sep : list frag) (xs : list (list frag)) : list frag :=
  match xs with
  | [] => []
  | [x] => x
  | x :: t => x ++ sep ++ join sep t
  end.

Definition contains_keyword (d : decl) : bool := existsb (fun f => mem f (nf_keywords F)) (map snd d).

Definition default_of (k t : str) : list frag :=
  if mem t (nf_plain_default_types F) then [fx "None"] else [fx "_field_"; nm k; fx ".type.default()"].

Definition init_tail : list frag := [Fix (nf_init_tail F)].
Definition kw_init : list frag := [Fix (nf_kw_init F)].
Definition kw_unpack : list frag := [Fix (nf_kw_unpack F)].

Definition render_hole (h : hole) (name : str) (d : decl) : list frag :=
  let af := all_fields d in
  let keys := map fst af in
  let kw := contains_keyword d in
  match h with
  | HName => [Dyn (sanitize name)]
  | HFieldTypes =>
      [fx "{"; LF]
      ++ List.concat (map (fun k => [TAB; TAB] ++ quoted k ++ [fx ": _field_"; nm k; fx ".type,"; LF]) keys)
      ++ [TAB; fx "}"]
  | HSlots =>
      [fx "("] ++ join [fx ", "] (map quoted keys)
      ++ (match keys with [_] => [fx ","] | _ => [] end) ++ [fx ")"]
  | HArgs =>
      if kw then [Fix (nf_kw_args F)]
      else join [fx ", "] (map (fun k => [nm k; fx "=None"]) keys)
  | HInit =>
      (if kw then kw_init
       else List.concat (map (fun kt => [TAB; TAB; fx "__self."; nm (fst kt); fx " = "; nm (fst kt); fx " if ";
                                    nm (fst kt); fx " is not None else "]
                                   ++ default_of (fst kt) (snd kt) ++ [LF]) af))
      ++ init_tail
  | HUnpack =>
      if kw then kw_unpack
      else [TAB; TAB; fx "return __cls("; LF]
           ++ List.concat (map (fun kt => [TAB; TAB; TAB; nm (fst kt); fx " = _field_"; nm (fst kt);
                                      fx ".type._unpack("; nm (fst kt); fx ") if "; nm (fst kt);
                                      fx " is not None else "]
                                     ++ default_of (fst kt) (snd kt) ++ [fx ","; LF]) af)
           ++ [TAB; TAB; fx ")"]
  end.

Definition render (name : str) (d : decl) : list frag :=
  List.concat (map (fun p => match p with TText s => [Fix s] | THole h => render_hole h name d end) (nf_template F)).

(* the text handed to exec: RECORD_CLASS_TEMPLATE.format(...).replace("\t", "    ") *)
Definition expand_tabs (s : str) : str :=
  List.concat (map (fun c => if c =? 9 then [32; 32; 32; 32] else [c]) s).

Definition render_text (name : str) (d : decl) : str :=
  expand_tabs (List.concat (map frag_text (render name d))).

(* every piece of definition text in the source is a non-empty run of identifier characters *)
Definition frag_clean (f : frag) : bool :=
  match f with
  | Fix _ => true
  | Dyn s => match s with [] => false | _ => forallb is_word s end
  end.

(* the structural facts: every exec in base.py sits in _generate_record_class, which is only called by
   RecordDescriptor.__init__; RecordField validates before resolving; fieldtype tests the whitelist before
   importing; every untrusted route goes through RecordDescriptor(...) *)
Definition guarded : bool :=
  forallb (fun s => str_eqb s (s2n "_generate_record_class")) (nf_exec_sites F)
  && forallb (fun s => str_eqb s (s2n "RecordDescriptor.__init__")) (nf_grc_callers F)
  && nf_rf_validates_before_fieldtype F
  && nf_ft_whitelist_before_import F
  && nf_ft_strips_one_list_suffix F
  && forallb (fun r => snd r) (nf_routes F)
  && nf_to_str_surrogateescape F.

End WithFacts.
