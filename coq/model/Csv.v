(* C20 -- text-oriented writers (csvfile / line / text adapters), Python's csv writer + reader, and
   normalize_fieldname.  Executable Gallina model, DEFINITIONS ONLY; proofs are in proofs/Csv_proofs.v.

   Text is a list of Unicode code points (N), bytes are lists of N < 256.
   Environment models (validated by execution only, see tools/vf/props/c20.py):
     - csv.writer with QUOTE_MINIMAL / doublequote / configurable line terminator  (csv_write)
     - csv.reader on a file opened with newline=""                                   (csv_parse)
     - CPython's UTF-8 encoder with the strict / surrogateescape error handlers     (utf8)
     - str.format_map's template grammar (restricted: plain names, !conversion, :spec without nesting)
   The text forms str(v) / repr(v) / format(v, spec) of field VALUES are inputs of the model (i_str,
   i_repr, the fmt table): how a field type prints itself is outside this model. *)
From Coq Require Import List Bool NArith.
From Coq Require String Ascii.
Import ListNotations.
Open Scope N_scope.
Open Scope list_scope.

Definition text := list N.

(* ------------------------------------------------------------------------------------------ *)
(* generic helpers *)

Fixpoint text_eqb (a b : text) : bool :=
  match a, b with
  | [], [] => true
  | x :: a', y :: b' => N.eqb x y && text_eqb a' b'
  | _, _ => false
  end.

Definition mem (k : text) (l : list text) : bool := existsb (text_eqb k) l.

Fixpoint join (sep : text) (l : list text) : text :=
  match l with
  | [] => []
  | x :: t => match t with [] => x | _ :: _ => x ++ sep ++ join sep t end
  end.

Fixpoint strip_prefix (p s : text) : option text :=
  match p, s with
  | [], _ => Some s
  | x :: p', y :: s' => if N.eqb x y then strip_prefix p' s' else None
  | _ :: _, [] => None
  end.

(* str.replace(old, new) for a non-empty [old]: leftmost, non-overlapping *)
Fixpoint replace_aux (fuel : nat) (old new s : text) : text :=
  match fuel with
  | O => s
  | S f =>
      match s with
      | [] => []
      | c :: t =>
          match strip_prefix old s with
          | Some rest => new ++ replace_aux f old new rest
          | None => c :: replace_aux f old new t
          end
      end
  end.

Definition replace (old new s : text) : text :=
  match old with [] => s | _ :: _ => replace_aux (S (List.length s)) old new s end.

Definition replace_all (tbl : list (text * text)) (s : text) : text :=
  fold_left (fun acc p => replace (fst p) (snd p) acc) tbl s.

(* str.split(",") *)
Fixpoint split_on (sep : N) (cur : text) (s : text) : list text :=
  match s with
  | [] => [rev cur]
  | c :: t => if N.eqb c sep then rev cur :: split_on sep [] t else split_on sep (c :: cur) t
  end.
Definition split_comma (s : text) : list text := split_on 44 [] s.

(* decimal rendering of a natural number (str(int)) *)
Fixpoint uint_digits (u : Decimal.uint) : text :=
  match u with
  | Decimal.Nil => []
  | Decimal.D0 u => 48 :: uint_digits u | Decimal.D1 u => 49 :: uint_digits u
  | Decimal.D2 u => 50 :: uint_digits u | Decimal.D3 u => 51 :: uint_digits u
  | Decimal.D4 u => 52 :: uint_digits u | Decimal.D5 u => 53 :: uint_digits u
  | Decimal.D6 u => 54 :: uint_digits u | Decimal.D7 u => 55 :: uint_digits u
  | Decimal.D8 u => 56 :: uint_digits u | Decimal.D9 u => 57 :: uint_digits u
  end.
Definition dec (n : N) : text := uint_digits (N.to_uint n).

Definition list_max (l : list nat) : nat := fold_right Nat.max O l.
Definition rjust (w : nat) (s : text) : text := repeat 32 (w - List.length s) ++ s.

Fixpoint count_occ_N (c : N) (s : text) : nat :=
  match s with [] => O | x :: t => if N.eqb x c then S (count_occ_N c t) else count_occ_N c t end.

(* ------------------------------------------------------------------------------------------ *)
(* UTF-8 encoder with error handler strict (se = false) or surrogateescape (se = true) *)

Definition utf8_cp (se : bool) (c : N) : option (list N) :=
  if c <? 128 then Some [c]
  else if c <? 2048 then Some [192 + c / 64; 128 + c mod 64]
  else if c <? 65536 then
    if (55296 <=? c) && (c <=? 57343) then
      (if se && (56448 <=? c) && (c <=? 56575) then Some [c - 56320] else None)
    else Some [224 + c / 4096; 128 + (c / 64) mod 64; 128 + c mod 64]
  else if c <? 1114112 then
    Some [240 + c / 262144; 128 + (c / 4096) mod 64; 128 + (c / 64) mod 64; 128 + c mod 64]
  else None.

Fixpoint utf8 (se : bool) (s : text) : option (list N) :=
  match s with
  | [] => Some []
  | c :: t =>
      match utf8_cp se c, utf8 se t with
      | Some b, Some r => Some (b ++ r)
      | _, _ => None
      end
  end.

(* code points the encoder accepts *)
Definition cp_ok (se : bool) (c : N) : bool :=
  (c <? 1114112) && (negb ((55296 <=? c) && (c <=? 57343)) || (se && (56448 <=? c) && (c <=? 56575))).

(* ------------------------------------------------------------------------------------------ *)
(* Python's csv module: writer (QUOTE_MINIMAL, quotechar = the double quote, doublequote) and reader *)

Definition QUOTE : N := 34.
Definition CR : N := 13.
Definition LF : N := 10.
Definition CRLF : text := [CR; LF].

Definition cell := text.
Definition row := list cell.

(* _csv.c join_append_data (3.12): a cell is quoted iff it holds the delimiter, the quote character or
   a character OF THE LINE TERMINATOR; quotes are doubled *)
Definition needs_quote (d : N) (term : text) (c : N) : bool :=
  (c =? d) || (c =? QUOTE) || existsb (N.eqb c) term.
Definition esc (c : N) : text := if c =? QUOTE then [QUOTE; QUOTE] else [c].
Definition write_cell (d : N) (term : text) (s : cell) : text :=
  if existsb (needs_quote d term) s then QUOTE :: flat_map esc s ++ [QUOTE] else s.
(* a row whose only cell is empty is written as "" (so that it is not read back as an empty row) *)
Definition write_row (d : N) (term : text) (r : row) : text :=
  match r with
  | [[]] => [QUOTE; QUOTE] ++ term
  | _ => join [d] (map (write_cell d term) r) ++ term
  end.
Definition csv_write (d : N) (term : text) (rows : list row) : text := flat_map (write_row d term) rows.

(* csv.reader over the characters of a file opened with newline="" (lines end after LF, CR LF or a lone
   CR and are handed over unchanged; the reader gets an end-of-line signal after each).  States of _csv.c:
   SR = START_RECORD, SRcr = START_RECORD right after a CR (a directly following LF belongs to the same
   line: EAT_CRNL), SF = START_FIELD, IF = IN_FIELD, IQ = IN_QUOTED_FIELD, QQ = QUOTE_IN_QUOTED_FIELD. *)
Inductive cls := KDelim | KQuote | KCR | KLF | KOther.
Definition classify (d c : N) : cls :=
  if c =? CR then KCR else if c =? LF then KLF else if c =? QUOTE then KQuote
  else if c =? d then KDelim else KOther.

Inductive pstate := SR | SRcr | SF | IF | IQ | QQ.

Definition finish (fld : text) (rw : list cell) : row := rev (rev fld :: rw).

Fixpoint parse (d : N) (st : pstate) (fld : text) (rw : list cell) (inp : text) {struct inp} : list row :=
  match inp with
  | [] => match st with SR | SRcr => [] | _ => [finish fld rw] end
  | c :: t =>
      match st with
      | SRcr =>
          match classify d c with
          | KLF => parse d SR [] [] t
          | KCR => [] :: parse d SRcr [] [] t
          | KQuote => parse d IQ [] [] t
          | KDelim => parse d SF [] [[]] t
          | KOther => parse d IF [c] [] t
          end
      | SR =>
          match classify d c with
          | KLF => [] :: parse d SR [] [] t
          | KCR => [] :: parse d SRcr [] [] t
          | KQuote => parse d IQ [] [] t
          | KDelim => parse d SF [] [[]] t
          | KOther => parse d IF [c] [] t
          end
      | SF =>
          match classify d c with
          | KLF => finish [] rw :: parse d SR [] [] t
          | KCR => finish [] rw :: parse d SRcr [] [] t
          | KQuote => parse d IQ [] rw t
          | KDelim => parse d SF [] ([] :: rw) t
          | KOther => parse d IF [c] rw t
          end
      | IF =>
          match classify d c with
          | KLF => finish fld rw :: parse d SR [] [] t
          | KCR => finish fld rw :: parse d SRcr [] [] t
          | KDelim => parse d SF [] (rev fld :: rw) t
          | _ => parse d IF (c :: fld) rw t
          end
      | IQ =>
          match classify d c with
          | KQuote => parse d QQ fld rw t
          | _ => parse d IQ (c :: fld) rw t
          end
      | QQ =>
          match classify d c with
          | KQuote => parse d IQ (c :: fld) rw t
          | KDelim => parse d SF [] (rev fld :: rw) t
          | KLF => finish fld rw :: parse d SR [] [] t
          | KCR => finish fld rw :: parse d SRcr [] [] t
          | KOther => parse d IF (c :: fld) rw t
          end
      end
  end.

Definition csv_parse (d : N) (inp : text) : list row := parse d SR [] [] inp.

Definition delim_ok (d : N) : bool := negb (d =? QUOTE) && negb (d =? CR) && negb (d =? LF).

(* a line break inside a cell is only protected when the terminator contains that character *)
Definition cell_ok (term : text) (s : cell) : bool :=
  forallb (fun c => negb ((c =? CR) || (c =? LF)) || existsb (N.eqb c) term) s.
Definition rows_ok (term : text) (rows : list row) : bool := forallb (forallb (cell_ok term)) rows.

(* ------------------------------------------------------------------------------------------ *)
(* records as the writers see them *)

Record item := {
  i_key : text;            (* field name *)
  i_type : text;           (* field type name *)
  i_str : option text;     (* str(value); None when the value is None *)
  i_repr : text            (* repr(value) *)
}.

Record prec := { p_name : text; p_items : list item }.   (* plain Record: items in __slots__ order *)
Inductive rec := Plain (p : prec) | Grouped (name : text) (members : list prec).

Definition desc := (text * list (text * text))%type.     (* (name, ((type, field) ...)) *)

Fixpoint pairs_eqb (a b : list (text * text)) : bool :=
  match a, b with
  | [], [] => true
  | (x1, x2) :: a', (y1, y2) :: b' => text_eqb x1 y1 && text_eqb x2 y2 && pairs_eqb a' b'
  | _, _ => false
  end.
Definition desc_eqb (a b : desc) : bool := text_eqb (fst a) (fst b) && pairs_eqb (snd a) (snd b).

(* OrderedDict construction from (key, value) pairs: a repeated key keeps its first position *)
Fixpoint dedup_aux (seen : list text) (l : list item) : list item :=
  match l with
  | [] => []
  | it :: t => if mem (i_key it) seen then dedup_aux seen t else it :: dedup_aux (i_key it :: seen) t
  end.
Definition dedup (l : list item) : list item := dedup_aux [] l.

Definition find_item (k : text) (l : list item) : option item := find (fun it => text_eqb (i_key it) k) l.

(* the constants the adapters contain; GENERATED into gen/Gen_text.v from the source on every run *)
Record cfg := {
  g_reserved : list text;             (* RESERVED_FIELDS keys *)
  g_default_term : text;              (* CsvfileWriter: lineterminator or <this> *)
  g_term_repl : list (text * text);   (* CsvfileWriter: escape replacements, in order *)
  g_csv_se : bool;                    (* CsvfileWriter opens the file with errors="surrogateescape" *)
  g_hdr_pre : text; g_hdr_suf : text; (* LineWriter: f"--[ RECORD {count} ]--\n" *)
  g_line_sep : text; g_line_end : text;   (* LineWriter: "{:>w} = {}\n" *)
  g_vkey_mid : text; g_vkey_end : text;   (* LineWriter verbose: f"{key} ({type})" *)
  g_vwidth_extra : nat;               (* LineWriter verbose: width = max(len(key + type)) + <this> *)
  g_line_se : bool;                   (* LineWriter encodes lines with errors="surrogateescape" *)
  g_text_repl : list (text * text);   (* text.REPLACE_LIST *)
  g_text_end : text;                  (* TextWriter appends b"\n" *)
  g_text_se : bool                    (* TextWriter encodes with errors="surrogateescape" *)
}.

Definition rec_items (r : rec) : list item :=
  match r with
  | Plain p => p_items p
  | Grouped _ ms => dedup (flat_map p_items ms)          (* first member's field prevails *)
  end.
Definition rec_name (r : rec) : text := match r with Plain p => p_name p | Grouped n _ => n end.
Definition user_items (c : cfg) (l : list item) : list item :=
  filter (fun it => negb (mem (i_key it) (g_reserved c))) l.
Definition rec_desc (c : cfg) (r : rec) : desc :=
  (rec_name r, map (fun it => (i_type it, i_key it)) (user_items c (rec_items r))).

(* the `fields` / `exclude` arguments as the adapters receive them: absent, a str (split on ","), a list *)
Inductive farg := FNone | FStr (s : text) | FList (l : list text).
Definition farg_list (a : farg) : option (list text) :=
  match a with FNone => None | FStr s => Some (split_comma s) | FList l => Some l end.

Record opts := {
  o_fields : farg; o_exclude : farg;
  o_term : option text;       (* csvfile: lineterminator argument *)
  o_verbose : bool;           (* line *)
  o_spec : option text        (* text: format_spec argument *)
}.

(* Record._asdict(fields, exclude) *)
Definition asdict (fields exclude : option (list text)) (items : list item) : list item :=
  let ex := match exclude with Some l => l | None => [] end in
  match fields with
  | Some (f :: fs) =>
      dedup (flat_map (fun k => match find_item k items with
                                | Some it => if mem k ex then [] else [it]
                                | None => [] end) (f :: fs))
  | _ => dedup (filter (fun it => negb (mem (i_key it) ex)) items)
  end.
Definition selected (o : opts) (r : rec) : list item :=
  asdict (farg_list (o_fields o)) (farg_list (o_exclude o)) (rec_items r).

(* ------------------------------------------------------------------------------------------ *)
(* CsvfileWriter *)

Definition resolve_term (c : cfg) (arg : option text) : text :=
  replace_all (g_term_repl c) (match arg with Some (x :: t) => x :: t | _ => g_default_term c end).

Definition cell_of (it : item) : cell := match i_str it with Some s => s | None => [] end.

Record cstate := { c_desc : option desc; c_names : list text }.
Definition cstate0 : cstate := {| c_desc := None; c_names := [] |}.

(* DictWriter.writerow(rdict): cells in the order of the writer's fieldnames, restval "" ; a key the
   writer does not know raises ValueError (extrasaction="raise") *)
Definition dict_row (names : list text) (d : list item) : option row :=
  if forallb (fun it => mem (i_key it) names) d
  then Some (map (fun k => match find_item k d with Some it => cell_of it | None => [] end) names)
  else None.

Definition csvw_step (c : cfg) (o : opts) (st : cstate) (r : rec) : option (cstate * list row) :=
  let d := selected o r in
  let changed := match c_desc st with None => true | Some d0 => negb (desc_eqb d0 (rec_desc c r)) end in
  let st' := if changed then {| c_desc := Some (rec_desc c r); c_names := map i_key d |} else st in
  match dict_row (c_names st') d with
  | Some rw => Some (st', (if changed then [c_names st'] else []) ++ [rw])
  | None => None
  end.

Fixpoint csvw_run (c : cfg) (o : opts) (st : cstate) (rs : list rec) : option (list row) :=
  match rs with
  | [] => Some []
  | r :: t =>
      match csvw_step c o st r with
      | Some (st', rows) => match csvw_run c o st' t with Some more => Some (rows ++ more) | None => None end
      | None => None
      end
  end.

Definition csv_text (c : cfg) (o : opts) (rs : list rec) : option text :=
  match csvw_run c o cstate0 rs with
  | Some rows => Some (csv_write 44 (resolve_term c (o_term o)) rows)
  | None => None
  end.
Definition csv_out (c : cfg) (o : opts) (rs : list rec) : option (list N) :=
  match csv_text c o rs with Some t => utf8 (g_csv_se c) t | None => None end.

(* the layout the property demands: a header row exactly when the record's descriptor differs from the
   previous record's, then the value row *)
Definition header_of (o : opts) (r : rec) : row := map i_key (selected o r).
Definition value_row (o : opts) (r : rec) : row := map cell_of (selected o r).
Fixpoint layout_prev (c : cfg) (o : opts) (prev : option desc) (rs : list rec) : list row :=
  match rs with
  | [] => []
  | r :: t =>
      (match prev with
       | Some d0 => if desc_eqb d0 (rec_desc c r) then [] else [header_of o r]
       | None => [header_of o r]
       end) ++ value_row o r :: layout_prev c o (Some (rec_desc c r)) t
  end.

(* maximal runs of records with equal descriptors *)
Fixpoint group_runs (c : cfg) (rs : list rec) : list (list rec) :=
  match rs with
  | [] => []
  | r :: t =>
      match group_runs c t with
      | (r' :: run) :: more =>
          if desc_eqb (rec_desc c r) (rec_desc c r') then (r :: r' :: run) :: more
          else [r] :: (r' :: run) :: more
      | _ => [[r]]
      end
  end.
Definition run_rows (o : opts) (run : list rec) : list row :=
  match run with [] => [] | r :: _ => header_of o r :: map (value_row o) run end.
Definition layout_runs (c : cfg) (o : opts) (rs : list rec) : list row :=
  flat_map (run_rows o) (group_runs c rs).

(* ------------------------------------------------------------------------------------------ *)
(* LineWriter *)

Definition NONE_TEXT : text := [78; 111; 110; 101].     (* format(None, "") *)
Definition value_text (it : item) : text := match i_str it with Some s => s | None => NONE_TEXT end.

Definition vkey (c : cfg) (verbose : bool) (it : item) : text :=
  if verbose then i_key it ++ g_vkey_mid c ++ i_type it ++ g_vkey_end c else i_key it.
Definition line_width (c : cfg) (verbose : bool) (d : list item) : nat :=
  if verbose then (list_max (map (fun it => List.length (i_key it ++ i_type it)) d) + g_vwidth_extra c)%nat
  else list_max (map (fun it => List.length (i_key it)) d).
Definition line_of (c : cfg) (verbose : bool) (w : nat) (it : item) : text :=
  rjust w (vkey c verbose it) ++ g_line_sep c ++ value_text it ++ g_line_end c.
Definition block_header (c : cfg) (n : N) : text := g_hdr_pre c ++ dec n ++ g_hdr_suf c.
Definition line_block (c : cfg) (o : opts) (n : N) (r : rec) : text :=
  let d := selected o r in
  block_header c n ++ flat_map (line_of c (o_verbose o) (line_width c (o_verbose o) d)) d.

(* the writer as a state machine over its counter *)
Fixpoint line_run (c : cfg) (o : opts) (count : N) (rs : list rec) : text :=
  match rs with
  | [] => []
  | r :: t => line_block c o (count + 1) r ++ line_run c o (count + 1) t
  end.
Definition line_text (c : cfg) (o : opts) (rs : list rec) : text := line_run c o 0 rs.
Definition line_out (c : cfg) (o : opts) (rs : list rec) : option (list N) := utf8 (g_line_se c) (line_text c o rs).

(* ------------------------------------------------------------------------------------------ *)
(* TextWriter *)

(* Record.__repr__ / GroupedRecord.__repr__ *)
Definition plain_repr (c : cfg) (p : prec) : text :=
  [60] ++ p_name p ++ [32]
  ++ join [32] (map (fun it => i_key it ++ [61] ++ i_repr it) (user_items c (p_items p))) ++ [62].
Definition rec_repr (c : cfg) (r : rec) : text :=
  match r with
  | Plain p => plain_repr c p
  | Grouped n ms => [60] ++ n ++ [32; 91] ++ join [44; 32] (map (plain_repr c) ms) ++ [93; 62]
  end.

(* str.format_map template grammar, restricted to what this model supports: literal text with {{ }}
   escapes and replacement fields {name}, {name!c}, {name:spec}, {name!c:spec}; the name is a plain key
   (no '.', '[' , not empty, not a number), the spec holds no nested field.  Anything else: None. *)
Inductive titem := TLit (s : text) | TField (name : text) (conv : option N) (spec : text).
Inductive tmode := MLit | MOpen | MClose | MName | MConv | MConvDone | MSpec.
Record tstate := { t_mode : tmode; t_acc : text; t_name : text; t_conv : option N; t_items : list titem }.

Definition LB : N := 123.
Definition RB : N := 125.
Definition is_digit (c : N) : bool := (48 <=? c) && (c <=? 57).
Definition name_ok (n : text) : bool :=
  match n with [] => false | _ => negb (forallb is_digit n) end.
Definition push_lit (acc : text) (items : list titem) : list titem :=
  match acc with [] => items | _ => TLit (rev acc) :: items end.
Definition emit_field (st : tstate) (name : text) (conv : option N) (spec : text) : option tstate :=
  if name_ok name
  then Some {| t_mode := MLit; t_acc := []; t_name := []; t_conv := None;
               t_items := TField name conv spec :: t_items st |}
  else None.
Definition with_mode (st : tstate) (m : tmode) (acc : text) : tstate :=
  {| t_mode := m; t_acc := acc; t_name := t_name st; t_conv := t_conv st; t_items := t_items st |}.

Definition name_step (st : tstate) (c : N) : option tstate :=
  if c =? RB then emit_field st (rev (t_acc st)) None []
  else if c =? 58 then
    Some {| t_mode := MSpec; t_acc := []; t_name := rev (t_acc st); t_conv := None; t_items := t_items st |}
  else if c =? 33 then
    Some {| t_mode := MConv; t_acc := []; t_name := rev (t_acc st); t_conv := None; t_items := t_items st |}
  else if (c =? LB) || (c =? 91) || (c =? 46) then None
  else Some (with_mode st MName (c :: t_acc st)).

Definition tstep (st : tstate) (c : N) : option tstate :=
  match t_mode st with
  | MLit =>
      if c =? LB then Some (with_mode st MOpen (t_acc st))
      else if c =? RB then Some (with_mode st MClose (t_acc st))
      else Some (with_mode st MLit (c :: t_acc st))
  | MOpen =>
      if c =? LB then Some (with_mode st MLit (LB :: t_acc st))
      else name_step {| t_mode := MName; t_acc := []; t_name := []; t_conv := None;
                        t_items := push_lit (t_acc st) (t_items st) |} c
  | MClose => if c =? RB then Some (with_mode st MLit (RB :: t_acc st)) else None
  | MName => name_step st c
  | MConv =>
      if (c =? 114) || (c =? 115) || (c =? 97)
      then Some {| t_mode := MConvDone; t_acc := []; t_name := t_name st; t_conv := Some c; t_items := t_items st |}
      else None
  | MConvDone =>
      if c =? RB then emit_field st (t_name st) (t_conv st) []
      else if c =? 58 then Some (with_mode st MSpec [])
      else None
  | MSpec =>
      if c =? RB then emit_field st (t_name st) (t_conv st) (rev (t_acc st))
      else if c =? LB then None
      else Some (with_mode st MSpec (c :: t_acc st))
  end.

Fixpoint trun (st : tstate) (s : text) : option tstate :=
  match s with
  | [] => Some st
  | c :: t => match tstep st c with Some st' => trun st' t | None => None end
  end.
Definition tstate0 : tstate := {| t_mode := MLit; t_acc := []; t_name := []; t_conv := None; t_items := [] |}.
Definition parse_template (s : text) : option (list titem) :=
  match trun tstate0 s with
  | Some st => match t_mode st with MLit => Some (rev (push_lit (t_acc st) (t_items st))) | _ => None end
  | None => None
  end.

(* format(value, spec) / conversions that are not plain str()/repr(): a table supplied from outside
   (environment: the __format__ methods of the value types) keyed by (name, conversion, spec);
   the entry is None when formatting raises *)
Definition fmt_tbl := list (text * option N * text * option text).
Definition conv_eqb (a b : option N) : bool :=
  match a, b with None, None => true | Some x, Some y => x =? y | _, _ => false end.
Fixpoint fmt_lookup (tbl : fmt_tbl) (n : text) (cv : option N) (sp : text) : option (option text) :=
  match tbl with
  | [] => None
  | (n', cv', sp', res) :: t =>
      if text_eqb n n' && conv_eqb cv cv' && text_eqb sp sp' then Some res else fmt_lookup t n cv sp
  end.

Inductive outcome := Ok (t : text) | Raises | NoPrediction.

(* DefaultMissing(rec._asdict()): a key the record lacks renders as "{key}" *)
Definition missing_text (n : text) : text := [LB] ++ n ++ [RB].
Definition plain_conv (cv : option N) : bool := match cv with None => true | Some c => c =? 115 end.
Definition render_item (items : list item) (tbl : fmt_tbl) (it : titem) : outcome :=
  match it with
  | TLit s => Ok s
  | TField n cv sp =>
      let via_table := match fmt_lookup tbl n cv sp with
                       | Some (Some t) => Ok t | Some None => Raises | None => NoPrediction end in
      match find_item n items, sp with
      | Some x, [] => if plain_conv cv then Ok (value_text x)
                      else if conv_eqb cv (Some 114) then Ok (i_repr x) else via_table
      | None, [] => if plain_conv cv then Ok (missing_text n) else via_table
      | _, _ => via_table
      end
  end.
Fixpoint render (items : list item) (tbl : fmt_tbl) (l : list titem) : outcome :=
  match l with
  | [] => Ok []
  | it :: t =>
      match render_item items tbl it, render items tbl t with
      | Ok a, Ok b => Ok (a ++ b)
      | Raises, _ => Raises
      | Ok _, Raises => Raises
      | _, _ => NoPrediction
      end
  end.

Definition resolve_spec (c : cfg) (arg : option text) : option text :=
  match arg with
  | Some (x :: t) => match replace_all (g_text_repl c) (x :: t) with [] => None | s => Some s end
  | _ => None
  end.

(* one write(): the text before encoding *)
Definition text_line (c : cfg) (spec : option text) (tbl : fmt_tbl) (r : rec) : outcome :=
  match spec with
  | None => Ok (rec_repr c r ++ g_text_end c)
  | Some s =>
      match parse_template s with
      | None => NoPrediction
      | Some tpl => match render (dedup (rec_items r)) tbl tpl with
                    | Ok t => Ok (t ++ g_text_end c) | x => x end
      end
  end.
Fixpoint text_run (c : cfg) (spec : option text) (rs : list (rec * fmt_tbl)) : outcome :=
  match rs with
  | [] => Ok []
  | (r, tbl) :: t =>
      match text_line c spec tbl r, text_run c spec t with
      | Ok a, Ok b => Ok (a ++ b)
      | Raises, _ => Raises
      | Ok _, Raises => Raises
      | _, _ => NoPrediction
      end
  end.
Definition text_text (c : cfg) (o : opts) (rs : list (rec * fmt_tbl)) : outcome :=
  text_run c (resolve_spec c (o_spec o)) rs.

(* ------------------------------------------------------------------------------------------ *)
(* normalize_fieldname and CsvfileReader *)

Record ncfg := {
  n_chars : list N;          (* the character class of the re.sub pattern *)
  n_sub : text;              (* its replacement *)
  n_prefix : text            (* what is prepended to an empty name / a name starting with "_" or a decimal *)
}.
Definition in_ranges (rs : list (N * N)) (c : N) : bool :=
  existsb (fun p => (fst p <=? c) && (c <=? snd p)) rs.

Definition normalize (reserved : list text) (nc : ncfg) (isdec : N -> bool) (name : text) : text :=
  if mem name reserved then name
  else
    let n' := flat_map (fun c => if existsb (N.eqb c) (n_chars nc) then n_sub nc else [c]) name in
    match n' with
    | [] => n_prefix nc ++ n'
    | c :: _ => if (c =? 95) || isdec c then n_prefix nc ++ n' else n'
    end.

(* RE_VALID_FIELD_NAME = ^_?[a-zA-Z][a-zA-Z0-9_]*$ on text without line breaks *)
Definition is_alpha (c : N) : bool := ((65 <=? c) && (c <=? 90)) || ((97 <=? c) && (c <=? 122)).
Definition is_word (c : N) : bool := is_alpha c || is_digit c || (c =? 95).
Definition valid_body (s : text) : bool :=
  match s with c :: t => is_alpha c && forallb is_word t | [] => false end.
Definition valid_field_name (s : text) : bool :=
  match s with
  | c :: t => if c =? 95 then valid_body t else valid_body s
  | [] => false
  end.

(* the same pattern ending in `$` instead of `\Z`: `$` also matches before ONE trailing line feed *)
Definition valid_field_name_dollar (s : text) : bool :=
  valid_field_name s || match rev s with 10 :: r => valid_field_name (rev r) | _ => false end.

(* dict(zip(fields, row)) then init_from_dict: per descriptor field the LAST cell zipped with that name,
   None when there is none *)
Fixpoint zip_lookup (k : text) (names : list text) (cells : row) (acc : option text) : option text :=
  match names, cells with
  | n :: ns, v :: vs => zip_lookup k ns vs (if text_eqb n k then Some v else acc)
  | _, _ => acc
  end.

(* CsvfileReader: (field names of the descriptor, per row the (name, value) pairs); None when the
   input has no header row *)
Definition csv_read (reserved : list text) (nc : ncfg) (isdec : N -> bool) (d : N)
           (fields : option text) (inp : text) : option (list text * list (list (text * option text))) :=
  let rows := csv_parse d inp in
  let hdr_rows := match fields with
                  | Some s => Some (split_comma s, rows)
                  | None => match rows with h :: t => Some (h, t) | [] => None end
                  end in
  match hdr_rows with
  | None => None
  | Some (h, body) =>
      let names := map (normalize reserved nc isdec) h in
      let fs := filter (fun n => match n with 95 :: _ => false | _ => true end) names in
      Some (fs, map (fun rw => map (fun k => (k, zip_lookup k names rw None)) fs) body)
  end.

(* CsvfileReader's choice of the dialect: when the first row of the sample (the first [sample] characters), read as
   plain comma-separated values, is not empty and consists of field names (after normalize_fieldname), the file is
   read in the writer's own dialect; otherwise csv.Sniffer guesses ([sniff]: environment, an oracle).
   [excel_on_names] is the GENERATED / observed fact that the reader does so. *)
Definition header_is_field_names (reserved : list text) (nc : ncfg) (isdec : N -> bool) (h : row) : bool :=
  match h with
  | [] => false
  | _ :: _ => forallb (fun c => valid_field_name (normalize reserved nc isdec c)) h
  end.
Definition first_row (rows : list row) : row := match rows with r :: _ => r | [] => [] end.
Definition reader_delimiter (excel_on_names : bool) (reserved : list text) (nc : ncfg) (isdec : N -> bool)
           (sample : N) (sniff : text -> N) (inp : text) : N :=
  if excel_on_names
     && header_is_field_names reserved nc isdec (first_row (csv_parse 44 (firstn (N.to_nat sample) inp)))
  then 44 else sniff inp.

(* ------------------------------------------------------------------------------------------ *)
(* vocabulary of the property statements *)

(* records paired with their 1-based position *)
Fixpoint number_from (n : N) (rs : list rec) : list (N * rec) :=
  match rs with [] => [] | r :: t => (n, r) :: number_from (n + 1) t end.

(* every run is non-empty and all its records have the descriptor of the first *)
Definition run_uniform (c : cfg) (run : list rec) : Prop :=
  match run with
  | [] => False
  | r :: t => Forall (fun r' => desc_eqb (rec_desc c r) (rec_desc c r') = true) t
  end.
(* consecutive runs have different descriptors (the runs are maximal) *)
Fixpoint adjacent_differ (c : cfg) (runs : list (list rec)) : Prop :=
  match runs with
  | [] => True
  | run1 :: rest =>
      match run1, rest with
      | r1 :: _, (r2 :: _) :: _ => desc_eqb (rec_desc c r1) (rec_desc c r2) = false
      | _, _ => True
      end /\ adjacent_differ c rest
  end.

(* records with equal descriptors have the same selected field names (true of real records: the
   slots of a record class are a function of its descriptor) *)
Definition keys_agree (c : cfg) (o : opts) (rs : list rec) : Prop :=
  forall r r', In r rs -> In r' rs -> desc_eqb (rec_desc c r) (rec_desc c r') = true ->
    map i_key (selected o r) = map i_key (selected o r').

(* all text of a record is encodable under the error handler *)
Definition item_ok (se : bool) (it : item) : bool :=
  forallb (cp_ok se) (i_key it) && forallb (cp_ok se) (i_type it)
  && forallb (cp_ok se) (value_text it) && forallb (cp_ok se) (cell_of it) && forallb (cp_ok se) (i_repr it).
Definition prec_ok (se : bool) (p : prec) : bool := forallb (cp_ok se) (p_name p) && forallb (item_ok se) (p_items p).
Definition rec_ok (se : bool) (r : rec) : bool :=
  match r with
  | Plain p => prec_ok se p
  | Grouped n ms => forallb (cp_ok se) n && forallb (prec_ok se) ms
  end.

Definition lf_count (s : text) : nat := count_occ_N LF s.
Definition sum_nat (l : list nat) : nat := fold_right Nat.add O l.
Definition starts_with_underscore (s : text) : bool := match s with 95 :: _ => true | _ => false end.
Definition simple_name_char (nc : ncfg) (c : N) : bool := is_word c || existsb (N.eqb c) (n_chars nc).
Fixpoint N_range (lo : N) (len : nat) : list N :=
  match len with O => [] | S k => lo :: N_range (lo + 1) k end.

(* printing a parsed template back to template syntax, and the templates for which that is exact *)
Definition esc_brace (c : N) : text := if c =? LB then [LB; LB] else if c =? RB then [RB; RB] else [c].
Definition unparse_item (it : titem) : text :=
  match it with
  | TLit s => flat_map esc_brace s
  | TField n cv sp =>
      [LB] ++ n ++ (match cv with Some c => [33; c] | None => [] end)
      ++ (match sp with [] => [] | _ :: _ => 58 :: sp end) ++ [RB]
  end.
Definition name_char (c : N) : bool :=
  negb ((c =? RB) || (c =? 58) || (c =? 33) || (c =? LB) || (c =? 91) || (c =? 46)).
Definition spec_char (c : N) : bool := negb ((c =? RB) || (c =? LB)).
Definition conv_ok (cv : option N) : bool :=
  match cv with None => true | Some c => (c =? 114) || (c =? 115) || (c =? 97) end.
Definition is_lit (it : titem) : bool := match it with TLit _ => true | _ => false end.
Definition item_canon (it : titem) : bool :=
  match it with
  | TLit s => match s with [] => false | _ => true end
  | TField n cv sp => name_ok n && forallb name_char n && conv_ok cv && forallb spec_char sp
  end.
(* no empty literal, no two literals in a row, well-formed fields *)
Fixpoint tpl_canon (l : list titem) : bool :=
  match l with
  | [] => true
  | it :: t => item_canon it && tpl_canon t
               && match it, t with TLit _, TLit _ :: _ => false | _, _ => true end
  end.

(* ------------------------------------------------------------------------------------------ *)
(* literals and checkers used by the correspondence cases *)

Fixpoint tx (s : String.string) : text :=
  match s with
  | String.EmptyString => []
  | String.String a r => Ascii.N_of_ascii a :: tx r
  end.

Arguments tx _%string_scope.

Definition hexval (c : N) : N :=
  if (48 <=? c) && (c <=? 57) then c - 48 else if (97 <=? c) && (c <=? 102) then c - 87 else 0.
Fixpoint unhex_aux (l : text) : list N :=
  match l with
  | a :: b :: r => (16 * hexval a + hexval b) :: unhex_aux r
  | _ => []
  end.
Definition unhex (s : String.string) : list N := unhex_aux (tx s).
Arguments unhex _%string_scope.

Fixpoint row_eqb (x y : row) : bool :=
  match x, y with
  | [], [] => true
  | u :: x', v :: y' => text_eqb u v && row_eqb x' y'
  | _, _ => false
  end.
Fixpoint rows_eqb (a b : list row) : bool :=
  match a, b with
  | [], [] => true
  | x :: a', y :: b' => row_eqb x y && rows_eqb a' b'
  | _, _ => false
  end.
Definition opt_bytes_eqb (a b : option (list N)) : bool :=
  match a, b with Some x, Some y => text_eqb x y | None, None => true | _, _ => false end.

(* the values the pinned tree has (used when the generated facts are unavailable; props/C20.v proves
   gen_cfg = pinned_cfg) *)
Section Pinned.
Import String.
Open Scope list_scope.
Definition pinned_cfg : cfg := {|
  g_reserved := [tx "_source"; tx "_classification"; tx "_generated"; tx "_version"];
  g_default_term := CRLF;
  g_term_repl := [([92; 114], [CR]); ([92; 110], [LF]); ([92; 116], [9])];
  g_csv_se := true;
  g_hdr_pre := tx "--[ RECORD ";
  g_hdr_suf := tx " ]--" ++ [LF];
  g_line_sep := tx " = ";
  g_line_end := [LF];
  g_vkey_mid := tx " (";
  g_vkey_end := tx ")";
  g_vwidth_extra := 3%nat;
  g_line_se := true;
  g_text_repl := [([92; 114], [CR]); ([92; 110], [LF]); ([92; 116], [9])];
  g_text_end := [LF];
  g_text_se := true
|}.
(* a configuration with another error handler for the CSV file (what the tree was before the file was opened
   with errors=surrogateescape; used for the witness against the flipped fact) *)
Definition set_csv_se (c : cfg) (b : bool) : cfg := {|
  g_reserved := g_reserved c; g_default_term := g_default_term c; g_term_repl := g_term_repl c;
  g_csv_se := b;
  g_hdr_pre := g_hdr_pre c; g_hdr_suf := g_hdr_suf c; g_line_sep := g_line_sep c; g_line_end := g_line_end c;
  g_vkey_mid := g_vkey_mid c; g_vkey_end := g_vkey_end c; g_vwidth_extra := g_vwidth_extra c;
  g_line_se := g_line_se c; g_text_repl := g_text_repl c; g_text_end := g_text_end c; g_text_se := g_text_se c
|}.
Definition pinned_ncfg : ncfg := {| n_chars := [32; 40; 41; 45]; n_sub := [95]; n_prefix := tx "x_" |}.
End Pinned.

(* implementation outputs: Some bytes, or None when the writer raised *)
Definition chk_csv (c : cfg) (o : opts) (rs : list rec) (impl : option (list N)) (pyrows : option (list row)) : bool :=
  opt_bytes_eqb (csv_out c o rs) impl &&
  match pyrows, csv_text c o rs with
  | Some pr, Some t => rows_eqb (csv_parse 44 t) pr
  | None, _ => true
  | Some _, None => false
  end.
Definition chk_line (c : cfg) (o : opts) (rs : list rec) (impl : option (list N)) : bool :=
  opt_bytes_eqb (line_out c o rs) impl.
Definition chk_text (c : cfg) (o : opts) (rs : list (rec * fmt_tbl)) (impl : option (list N)) : bool :=
  match text_text c o rs with
  | Ok t => opt_bytes_eqb (utf8 (g_text_se c) t) impl
  | Raises => match impl with None => true | Some _ => false end
  | NoPrediction => false
  end.
Definition opt_text_eqb (a b : option text) : bool :=
  match a, b with Some x, Some y => text_eqb x y | None, None => true | _, _ => false end.
Fixpoint kv_eqb (a b : list (text * option text)) : bool :=
  match a, b with
  | [], [] => true
  | (k, v) :: a', (k', v') :: b' => text_eqb k k' && opt_text_eqb v v' && kv_eqb a' b'
  | _, _ => false
  end.
Fixpoint kvs_eqb (a b : list (list (text * option text))) : bool :=
  match a, b with
  | [], [] => true
  | x :: a', y :: b' => kv_eqb x y && kvs_eqb a' b'
  | _, _ => false
  end.
Definition chk_read (reserved : list text) (nc : ncfg) (isdec : N -> bool) (d : N) (fields : option text) (inp : text)
           (impl : option (list text * list (list (text * option text)))) : bool :=
  match csv_read reserved nc isdec d fields inp, impl with
  | Some (f, rows), Some (f', rows') => row_eqb f f' && kvs_eqb rows rows'
  | None, None => true
  | _, _ => false
  end.
