(* Model of flow/record/adapter/avro.py.

   - descriptor_to_schema / schema_to_descriptor / avro_type_to_flow_type over the GENERATED tables
     (AVRO_TYPE_MAP, RECORD_TYPE_MAP, RESERVED_FIELDS, the datetime union literal, the doc-detection affixes,
     the reader's guard constant), the descriptor JSON text as json.dumps prints it and a parser for that text;
   - fastavro as the adapter meets it (environment model, validated by execution): how a datum is matched against
     a union (write_union/_validate incl. the int32/int64 ranges, bool is not an int, the tuple notation that
     rejects a digest's 3-tuple), logical-type preparation and reading (timestamp-micros / -millis), the single
     precision conversion as an ORACLE [to_f32] on binary64 bit patterns, the block buffer: a record that is
     refused after some of its fields were encoded leaves those bytes in the buffer, the block count is not
     incremented; flush writes a block whenever the buffer is non-empty; the reader decodes `count` records
     from a block and ignores what follows them;
   - AvroWriter.write/flush/close as an interpreter of the statement lists GENERATED from the method bodies,
     AvroReader.__iter__ (guard for plain-long datetime columns, conversion through the record class).

   Definitions only; proofs are in proofs/Avro_proofs.v. *)
From Coq Require Import List Bool String Ascii ZArith NArith.
Import ListNotations.
Open Scope list_scope.
Open Scope string_scope.

(* ------------------------------------------------------------------------------------------ *)
(* text helpers (Python str methods used by the adapter, on ASCII names) *)

Fixpoint starts_with (p s : string) : bool :=
  match p, s with
  | EmptyString, _ => true
  | String a p', String b s' => Ascii.eqb a b && starts_with p' s'
  | _, _ => false
  end.

(* some tail of s equals suf *)
Fixpoint ends_with (suf s : string) : bool :=
  String.eqb s suf || match s with EmptyString => false | String _ t => ends_with suf t end.

Fixpoint contains (sub s : string) : bool :=
  starts_with sub s || match s with EmptyString => false | String _ t => contains sub t end.

Fixpoint drop_prefix (p s : string) : option string :=
  match p, s with
  | EmptyString, _ => Some s
  | String a p', String b s' => if Ascii.eqb a b then drop_prefix p' s' else None
  | _, _ => None
  end.

Fixpoint has_char (c : ascii) (s : string) : bool :=
  match s with EmptyString => false | String a t => Ascii.eqb a c || has_char c t end.

Fixpoint replace_char (a b : ascii) (s : string) : string :=
  match s with EmptyString => EmptyString | String c t => String (if Ascii.eqb c a then b else c) (replace_char a b t) end.

Fixpoint lstrip_char (c : ascii) (s : string) : string :=
  match s with String a t => if Ascii.eqb a c then lstrip_char c t else s | EmptyString => EmptyString end.

Fixpoint rstrip_char (c : ascii) (s : string) : string :=
  match s with
  | EmptyString => EmptyString
  | String a t => let t' := rstrip_char c t in
                  if Ascii.eqb a c && String.eqb t' EmptyString then EmptyString else String a t'
  end.

Definition strip_char (c : ascii) (s : string) : string := rstrip_char c (lstrip_char c s).

(* s.rpartition(c): Some (before the LAST c, after it) ; None when c does not occur *)
Fixpoint rpart (c : ascii) (s : string) : option (string * string) :=
  match s with
  | EmptyString => None
  | String a t =>
      match rpart c t with
      | Some (x, y) => Some (String a x, y)
      | None => if Ascii.eqb a c then Some (EmptyString, t) else None
      end
  end.

(* text up to the first c, and what follows that c *)
Fixpoint take_until (c : ascii) (s : string) : option (string * string) :=
  match s with
  | EmptyString => None
  | String a t => if Ascii.eqb a c then Some (EmptyString, t)
                  else match take_until c t with Some (x, y) => Some (String a x, y) | None => None end
  end.

Fixpoint join (sep : string) (l : list string) : string :=
  match l with
  | [] => EmptyString
  | [x] => x
  | x :: t => x ++ sep ++ join sep t
  end.

Fixpoint lookup {A} (k : string) (l : list (string * A)) : option A :=
  match l with [] => None | (k', v) :: t => if String.eqb k k' then Some v else lookup k t end.

Definition slash : ascii := "/"%char.
Definition dot : ascii := "."%char.
Definition dquote : ascii := """"%char.
Definition underscore : ascii := "_"%char.

(* ------------------------------------------------------------------------------------------ *)
(* descriptors; their JSON text (json.dumps(desc._pack()) on plain ASCII names) and its parser *)

Record descriptor := Desc { d_name : string; d_fields : list (string * string) }.   (* (typename, fieldname) *)

Definition pair_eqb (a b : string * string) : bool := String.eqb (fst a) (fst b) && String.eqb (snd a) (snd b).
Fixpoint fields_eqb (a b : list (string * string)) : bool :=
  match a, b with
  | [], [] => true
  | x :: a', y :: b' => pair_eqb x y && fields_eqb a' b'
  | _, _ => false
  end.
(* RecordDescriptor.__eq__: name and field tuples *)
Definition desc_eqb (a b : descriptor) : bool := String.eqb (d_name a) (d_name b) && fields_eqb (d_fields a) (d_fields b).

Definition jq (s : string) : string := String dquote (s ++ String dquote EmptyString).
Definition json_field (f : string * string) : string := "[" ++ jq (fst f) ++ ", " ++ jq (snd f) ++ "]".
Definition json_of_desc (d : descriptor) : string :=
  "[" ++ jq (d_name d) ++ ", [" ++ join ", " (map json_field (d_fields d)) ++ "]]".

Definition obind {A B} (o : option A) (f : A -> option B) : option B := match o with Some a => f a | None => None end.

Definition parse_jstr (s : string) : option (string * string) :=
  obind (drop_prefix (String dquote EmptyString) s) (take_until dquote).

Definition parse_field (s : string) : option ((string * string) * string) :=
  obind (drop_prefix "[" s) (fun s1 =>
  obind (parse_jstr s1) (fun '(t, s2) =>
  obind (drop_prefix ", " s2) (fun s3 =>
  obind (parse_jstr s3) (fun '(n, s4) =>
  obind (drop_prefix "]" s4) (fun s5 => Some ((t, n), s5)))))).

(* the elements of a non-empty JSON list of fields, after its "[" up to and including its "]" *)
Fixpoint parse_fields (fuel : nat) (s : string) : option (list (string * string) * string) :=
  match fuel with
  | O => None
  | S k =>
      obind (parse_field s) (fun '(f, r) =>
        match drop_prefix ", " r with
        | Some r' => obind (parse_fields k r') (fun '(fs, r'') => Some (f :: fs, r''))
        | None => obind (drop_prefix "]" r) (fun r' => Some ([f], r'))
        end)
  end.

Definition parse_desc (s : string) : option descriptor :=
  obind (drop_prefix "[" s) (fun s1 =>
  obind (parse_jstr s1) (fun '(name, s2) =>
  obind (drop_prefix ", [" s2) (fun s3 =>
    match drop_prefix "]" s3 with
    | Some s4 => if String.eqb s4 "]" then Some (Desc name []) else None
    | None => obind (parse_fields (String.length s3) s3) (fun '(fs, s4) =>
                if String.eqb s4 "]" then Some (Desc name fs) else None)
    end))).

(* ------------------------------------------------------------------------------------------ *)
(* Avro schemas as far as the adapter builds and inspects them *)

Inductive atype :=
| APrim (n : string)                                (* "string" *)
| ADict (prim : string) (logical : option string)   (* {"type": prim, "logicalType": logical} *)
| AArray (item : atype).                            (* {"type": "array", "items": item} *)

Fixpoint atype_eqb (a b : atype) : bool :=
  match a, b with
  | APrim x, APrim y => String.eqb x y
  | ADict p l, ADict q m => String.eqb p q && match l, m with
                                              | None, None => true
                                              | Some x, Some y => String.eqb x y
                                              | _, _ => false end
  | AArray x, AArray y => atype_eqb x y
  | _, _ => false
  end.
Fixpoint union_eqb (a b : list atype) : bool :=
  match a, b with
  | [], [] => true
  | x :: a', y :: b' => atype_eqb x y && union_eqb a' b'
  | _, _ => false
  end.

Record schema := Schema {
  s_namespace : string;
  s_name : string;
  s_doc : option string;
  s_fields : list (string * list atype) }.

Definition opt_string_eqb (a b : option string) : bool :=
  match a, b with None, None => true | Some x, Some y => String.eqb x y | _, _ => false end.
Fixpoint sfields_eqb (a b : list (string * list atype)) : bool :=
  match a, b with
  | [], [] => true
  | (n, u) :: a', (m, v) :: b' => String.eqb n m && union_eqb u v && sfields_eqb a' b'
  | _, _ => false
  end.
Definition schema_eqb (a b : schema) : bool :=
  String.eqb (s_namespace a) (s_namespace b) && String.eqb (s_name a) (s_name b)
  && opt_string_eqb (s_doc a) (s_doc b) && sfields_eqb (s_fields a) (s_fields b).
Definition opt_schema_eqb (a b : option schema) : bool :=
  match a, b with None, None => true | Some x, Some y => schema_eqb x y | _, _ => false end.

(* generated facts *)
Record config := Config {
  cfg_avro_map : list (string * string);        (* AVRO_TYPE_MAP, in source order *)
  cfg_record_map : list (string * string);      (* RECORD_TYPE_MAP, in source order *)
  cfg_reserved : list (string * string);        (* RESERVED_FIELDS as (typename, fieldname) *)
  cfg_datetime_union : list atype;              (* the literal of the `field_type == "datetime"` branch *)
  cfg_null_branch : atype;                      (* second member of [avro_type, "null"] *)
  cfg_has_doc : bool;                           (* schema["doc"] == json.dumps(desc._pack()) on the probes *)
  cfg_doc_prefix : string;                      (* doc.startswith(...) *)
  cfg_doc_suffix : string;                      (* doc.endswith(...) *)
  cfg_guard : Z;                                (* `value > GUARD` in AvroReader.__iter__ *)
  cfg_epoch_us : Z }.                           (* EPOCH as microseconds since 1970-01-01T00:00:00Z *)

Definition all_fields (cfg : config) (d : descriptor) : list (string * string) := (d_fields d ++ cfg_reserved cfg)%list.

Definition field_union (cfg : config) (t : string) : option (list atype) :=
  if String.eqb t "datetime" then Some (cfg_datetime_union cfg)
  else match lookup t (cfg_avro_map cfg) with
       | Some a => if String.eqb a EmptyString then None else Some [APrim a; cfg_null_branch cfg]
       | None => None
       end.

Fixpoint field_schemas (cfg : config) (fs : list (string * string)) : option (list (string * list atype)) :=
  match fs with
  | [] => Some []
  | (t, n) :: rest =>
      match field_union cfg t, field_schemas cfg rest with
      | Some u, Some l => Some ((n, u) :: l)
      | _, _ => None
      end
  end.

Definition split_name (n : string) : string * string :=
  match rpart slash n with Some (a, b) => (a, b) | None => (EmptyString, n) end.

(* None = Exception("Unsupported Avro type") *)
Definition descriptor_to_schema (cfg : config) (d : descriptor) : option schema :=
  match field_schemas cfg (all_fields cfg d) with
  | Some fl => Some (Schema (fst (split_name (d_name d))) (snd (split_name (d_name d)))
                            (if cfg_has_doc cfg then Some (json_of_desc d) else None) fl)
  | None => None
  end.

(* fastavro.parse_schema as stored in the file header and returned by reader.writer_schema: the name becomes the
   full name, the namespace key is dropped *)
Definition stored_schema (s : schema) : schema :=
  Schema EmptyString
         (if String.eqb (s_namespace s) EmptyString then s_name s else s_namespace s ++ "." ++ s_name s)
         (s_doc s) (s_fields s).

Definition known_prim (p : string) : bool :=
  existsb (String.eqb p) ["null"; "boolean"; "int"; "long"; "float"; "double"; "string"; "bytes"].
Fixpoint atype_parses (a : atype) : bool :=
  match a with APrim p => known_prim p | ADict p _ => known_prim p | AArray i => atype_parses i end.
Definition schema_parses (s : schema) : bool := forallb (fun f => forallb atype_parses (snd f)) (s_fields s).

Definition empty_schema : schema := Schema EmptyString "empty" None [].

(* avro_type_to_flow_type: None = TypeError *)
Fixpoint flow_type_of_atype (cfg : config) (a : atype) : option (option string) :=
  (* Some (Some t): return t; Some None: `continue`; None: raises *)
  match a with
  | AArray i => match flow_type_of_atype cfg i with
                | Some (Some t) => Some (Some (t ++ "[]"))
                | _ => None            (* the recursive call ran out of candidates: TypeError *)
                end
  | ADict _ (Some l) => if contains "time" l || contains "date" l then Some (Some "datetime") else None
  | ADict _ None => None               (* `t in RECORD_TYPE_MAP` with a dict: TypeError (unhashable) *)
  | APrim p => if String.eqb p "null" then Some None
               else match lookup p (cfg_record_map cfg) with Some t => Some (Some t) | None => Some None end
  end.

Fixpoint flow_type_of_union (cfg : config) (u : list atype) : option string :=
  match u with
  | [] => None
  | a :: rest => match flow_type_of_atype cfg a with
                 | Some (Some t) => Some t
                 | Some None => flow_type_of_union cfg rest
                 | None => None
                 end
  end.

Fixpoint fallback_fields (cfg : config) (fs : list (string * list atype)) : option (list (string * string)) :=
  match fs with
  | [] => Some []
  | (n, u) :: rest =>
      if starts_with "_" n then fallback_fields cfg rest
      else match flow_type_of_union cfg u, fallback_fields cfg rest with
           | Some t, Some l => Some ((t, n) :: l)
           | _, _ => None
           end
  end.

Definition doc_detected (cfg : config) (doc : string) : bool :=
  negb (String.eqb doc EmptyString) && starts_with (cfg_doc_prefix cfg) doc && ends_with (cfg_doc_suffix cfg) doc.

(* schema_to_descriptor on what the reader hands over; None = it raises *)
Definition schema_to_descriptor (cfg : config) (s : schema) : option descriptor :=
  match s_doc s with
  | Some doc => if doc_detected cfg doc then parse_desc doc
                else option_map (Desc (strip_char slash (replace_char dot slash (s_namespace s ++ "/" ++ s_name s))))
                                (fallback_fields cfg (s_fields s))
  | None => option_map (Desc (strip_char slash (replace_char dot slash (s_namespace s ++ "/" ++ s_name s))))
                       (fallback_fields cfg (s_fields s))
  end.

(* ------------------------------------------------------------------------------------------ *)
(* values *)

(* a field value as Record._packdict hands it to fastavro *)
Inductive value :=
| VNone
| VBool (b : bool)
| VInt (z : Z)
| VFloat (bits : N)            (* IEEE-754 binary64 bit pattern *)
| VText (cps : list N)         (* str: code points *)
| VBytes (bs : list N)
| VTime (us off : Z)           (* aware datetime: instant in microseconds since the epoch, UTC offset in microseconds *)
| VDigest                      (* digest._pack(): a 3-tuple *)
| VMissing.                    (* the dict has no such key (GroupedRecord._packdict() is empty) *)

(* an Avro datum inside a union: branch index and content *)
Inductive raw :=
| RNull | RBool (b : bool) | RInt (z : Z) | RLong (z : Z) | RFloat (bits : N) | RDouble (bits : N)
| RString (cps : list N) | RBytes (bs : list N).
Definition stored := (nat * raw)%type.

Fixpoint ns_eqb (a b : list N) : bool :=
  match a, b with
  | [], [] => true
  | x :: a', y :: b' => N.eqb x y && ns_eqb a' b'
  | _, _ => false
  end.

Definition value_eqb (a b : value) : bool :=
  match a, b with
  | VNone, VNone => true
  | VBool x, VBool y => Bool.eqb x y
  | VInt x, VInt y => Z.eqb x y
  | VFloat x, VFloat y => N.eqb x y
  | VText x, VText y => ns_eqb x y
  | VBytes x, VBytes y => ns_eqb x y
  | VTime u o, VTime u' o' => Z.eqb u u' && Z.eqb o o'
  | VDigest, VDigest => true
  | VMissing, VMissing => true
  | _, _ => false
  end.
Fixpoint values_eqb (a b : list value) : bool :=
  match a, b with
  | [], [] => true
  | x :: a', y :: b' => value_eqb x y && values_eqb a' b'
  | _, _ => false
  end.

Inductive werr :=
| EUnsupported      (* Exception("Unsupported Avro type: ...") *)
| EParse            (* fastavro.parse_schema refuses the schema *)
| EAppend           (* fastavro: the file already has content and is not opened for appending *)
| EMixed            (* Exception("Mixed record types") *)
| ENoWriter         (* AttributeError: self.writer is None *)
| ENoSchema         (* TypeError: fastavro.schemaless_writer handed self.parsed_schema = None *)
| EValue            (* ValueError: the datum matches no branch of the union *)
| EEncode           (* UnicodeEncodeError: surrogates not allowed *)
| ECode.            (* a generated statement list uses something the interpreter does not have *)

Definition int32_ok (z : Z) : bool := ((-2147483648 <=? z) && (z <=? 2147483647))%Z.
Definition int64_ok (z : Z) : bool := ((-9223372036854775808 <=? z) && (z <=? 9223372036854775807))%Z.

(* datetime.min / datetime.max as UTC instants in microseconds *)
Definition py_min_us : Z := (-62135596800000000)%Z.
Definition py_max_us : Z := 253402300799999999%Z.
Definition in_py_range (us : Z) : bool := ((py_min_us <=? us) && (us <=? py_max_us))%Z.

Definition is_surrogate (c : N) : bool := ((55296 <=? c) && (c <=? 57343))%N.

Inductive lkind := LNone | LMicros | LMillis.
(* fastavro's LOGICAL_WRITERS / LOGICAL_READERS keys "long-timestamp-micros" and "long-timestamp-millis" *)
Definition lkind_of (a : atype) : lkind :=
  match a with
  | ADict p (Some l) => if String.eqb p "long" && String.eqb l "timestamp-micros" then LMicros
                        else if String.eqb p "long" && String.eqb l "timestamp-millis" then LMillis
                        else LNone
  | _ => LNone
  end.
Definition prim_of (a : atype) : string :=
  match a with APrim p => p | ADict p _ => p | AArray _ => "array" end.

Section Fastavro.
  (* ORACLES (environment): C conversion double -> float -> double on bit patterns; int -> double *)
  Variable to_f32 : N -> N.
  Variable of_int : Z -> N.

  (* LOGICAL_WRITERS[...](datum): only datetime objects are converted *)
  Definition prepare (a : atype) (v : value) : value :=
    match lkind_of a, v with
    | LMicros, VTime us _ => VInt us
    | LMillis, VTime us _ => VInt (us / 1000)
    | _, _ => v
    end.

  (* _validate(datum, candidate) *)
  Definition validate (a : atype) (v : value) : bool :=
    let p := prim_of a in
    match prepare a v with
    | VNone => String.eqb p "null"
    | VBool _ => String.eqb p "boolean"
    | VInt z => (String.eqb p "int" && int32_ok z) || (String.eqb p "long" && int64_ok z)
                || String.eqb p "float" || String.eqb p "double"
    | VFloat _ => String.eqb p "float" || String.eqb p "double"
    | VText _ => String.eqb p "string"
    | VBytes _ => String.eqb p "bytes"
    | VTime _ _ => false
    | VDigest => false
    | VMissing => false
    end.

  Fixpoint first_valid (u : list atype) (v : value) (i : nat) : option (nat * atype) :=
    match u with
    | [] => None
    | a :: rest => if validate a v then Some (i, a) else first_valid rest v (S i)
    end.
  Fixpoint first_double (u : list atype) (i : nat) : option (nat * atype) :=
    match u with
    | [] => None
    | a :: rest => if String.eqb (prim_of a) "double" then Some (i, a) else first_double rest (S i)
    end.
  (* write_union: the first branch that validates; a "float" match is replaced by a later "double" branch *)
  Definition choose (u : list atype) (v : value) : option (nat * atype) :=
    match first_valid u v 0 with
    | Some (i, a) =>
        if String.eqb (prim_of a) "float"
        then match first_double (skipn (S i) u) (S i) with Some x => Some x | None => Some (i, a) end
        else Some (i, a)
    | None => None
    end.

  Definition has_surrogate (cps : list N) : bool := existsb is_surrogate cps.

  Inductive fenc := FOk (s : stored) | FBad (e : werr) (index_written : bool).

  (* write_union for a datum that is there: union index, then the datum *)
  Definition enc_present (u : list atype) (v : value) : fenc :=
    match v with
    | VDigest => FBad EValue false               (* tuple notation: `name, datum = datum` fails on a 3-tuple *)
    | _ =>
      match choose u v with
      | None => FBad EValue false
      | Some (i, a) =>
          let p := prim_of a in
          match prepare a v with
          | VNone => FOk (i, RNull)
          | VBool b => FOk (i, RBool b)
          | VInt z => if String.eqb p "int" then FOk (i, RInt z)
                      else if String.eqb p "long" then FOk (i, RLong z)
                      else if String.eqb p "float" then FOk (i, RFloat (to_f32 (of_int z)))
                      else FOk (i, RDouble (of_int z))
          | VFloat b => if String.eqb p "float" then FOk (i, RFloat (to_f32 b)) else FOk (i, RDouble b)
          | VText c => if has_surrogate c then FBad EEncode true else FOk (i, RString c)
          | VBytes b => FOk (i, RBytes b)
          | VTime _ _ => FBad EValue false
          | VDigest => FBad EValue false
          | VMissing => FBad EValue false
          end
      end
    end.

  (* one field of write_record: a key the datum lacks counts as None when the STRING "null" is a member of the
     field's union, else ValueError("no value and no default") *)
  Definition enc_field (u : list atype) (v : value) : fenc :=
    match v with
    | VMissing => if existsb (atype_eqb (APrim "null")) u then enc_present u VNone else FBad EValue false
    | _ => enc_present u v
    end.

  Inductive encres := EncOk (l : list stored) | EncFail (e : werr) (junk : bool).

  (* write_record over the schema's fields in order; [written]: some byte of this record is already in the buffer *)
  Fixpoint enc_fields (us : list (list atype)) (vs : list value) (written : bool) : encres :=
    match us with
    | [] => EncOk []
    | u :: us' =>
        match enc_field u (hd VNone vs) with
        | FBad e wi => EncFail e (written || wi)
        | FOk s => match enc_fields us' (tl vs) true with
                   | EncOk l => EncOk (s :: l)
                   | EncFail e j => EncFail e j
                   end
        end
    end.

  (* read_union + logical readers; None = the reader raises (OverflowError: date value out of range) *)
  Definition load (u : list atype) (s : stored) : option value :=
    match nth_error u (fst s) with
    | None => None
    | Some a =>
        match snd s with
        | RNull => Some VNone
        | RBool b => Some (VBool b)
        | RInt z => Some (VInt z)
        | RLong z => match lkind_of a with
                     | LMicros => if in_py_range z then Some (VTime z 0) else None
                     | LMillis => if in_py_range (z * 1000) then Some (VTime (z * 1000) 0) else None
                     | LNone => Some (VInt z)
                     end
        | RFloat b => Some (VFloat b)
        | RDouble b => Some (VFloat b)
        | RString c => Some (VText c)
        | RBytes b => Some (VBytes b)
        end
    end.

  Fixpoint load_fields (us : list (list atype)) (ss : list stored) : option (list value) :=
    match us, ss with
    | [], _ => Some []
    | u :: us', s :: ss' => match load u s, load_fields us' ss' with
                            | Some v, Some l => Some (v :: l)
                            | _, _ => None
                            end
    | _ :: _, [] => None
    end.

  (* -------------------------------------------------------------------------------------- *)
  (* the container: what reaches the file, in order *)
  Inductive item :=
  | IRec (l : list stored)     (* one encoded record, counted in its block *)
  | IJunk                      (* bytes of a refused record left in the block buffer, not counted *)
  | IBlockEnd.                 (* the block was written out *)

  Inductive rend :=
  | REnd          (* all blocks read *)
  | RFail         (* decoding a value raised (OverflowError) *)
  | RCorrupt.     (* a counted record lies behind uncounted bytes: what is decoded there is unspecified *)

  (* fastavro.reader over the blocks; [dirty]: uncounted bytes precede in the current block *)
  Fixpoint read_items (us : list (list atype)) (its : list item) (dirty : bool) : list (list value) * rend :=
    match its with
    | [] => ([], REnd)
    | IBlockEnd :: rest => read_items us rest false
    | IJunk :: rest => read_items us rest true
    | IRec ss :: rest =>
        if dirty then ([], RCorrupt)
        else match load_fields us ss with
             | None => ([], RFail)
             | Some vs => let '(l, e) := read_items us rest false in (vs :: l, e)
             end
    end.

  Record file := File { f_header : option schema; f_items : list item }.

  (* fastavro.reader(fp) directly: writer schema and the data *)
  Inductive rawres := RawOpenFail | RawRead (s : schema) (recs : list (list value)) (e : rend).
  Definition read_raw (f : file) : rawres :=
    match f_header f with
    | None => RawOpenFail
    | Some s => let '(l, e) := read_items (map snd (s_fields s)) (f_items f) false in RawRead (stored_schema s) l e
    end.

  (* -------------------------------------------------------------------------------------- *)
  (* AvroReader: guard for integers in datetime columns, then the record class converts every value *)
  Variable cfg : config.

  Definition mem (x : string) (l : list string) : bool := existsb (String.eqb x) l.

  (* None = the conversion raises *)
  Definition flow_convert (t : string) (v : value) : option value :=
    match v with
    | VNone => Some VNone
    | _ =>
      if mem t ["string"; "wstring"; "uri"] then match v with VText _ => Some v | _ => None end
      else if mem t ["varint"; "filesize"; "unix_file_mode"] then
        match v with VInt _ => Some v | VBool b => Some (VInt (if b then 1 else 0)) | _ => None end
      else if String.eqb t "uint16" then
        match v with VInt z => if ((0 <=? z) && (z <=? 65535))%Z then Some v else None | _ => None end
      else if String.eqb t "uint32" then
        match v with VInt z => if ((0 <=? z) && (z <=? 4294967295))%Z then Some v else None | _ => None end
      else if String.eqb t "boolean" then
        match v with
        | VBool _ => Some v
        | VInt z => if ((0 <=? z) && (z <=? 1))%Z then Some (VBool (Z.eqb z 1)) else None
        | _ => None end
      else if String.eqb t "float" then
        match v with VFloat _ => Some v | VInt z => Some (VFloat (of_int z)) | _ => None end
      else if String.eqb t "bytes" then match v with VBytes _ => Some v | _ => None end
      else if String.eqb t "datetime" then
        match v with
        | VTime _ _ => Some v
        | VInt z =>
            (* AvroReader.__iter__: value > GUARD -> EPOCH + timedelta(microseconds=value); else the datetime
               field type takes the integer as seconds (fromtimestamp) *)
            if (cfg_guard cfg <? z)%Z
            then (if in_py_range (cfg_epoch_us cfg + z) then Some (VTime (cfg_epoch_us cfg + z) 0) else None)
            else (if in_py_range (z * 1000000) then Some (VTime (z * 1000000) 0) else None)
        | _ => None
        end
      else None
    end.

  Fixpoint convert_fields (fs : list (string * string)) (vs : list value) : option (list value) :=
    match fs with
    | [] => Some []
    | (t, _) :: fs' => match flow_convert t (hd VNone vs), convert_fields fs' (tl vs) with
                       | Some v, Some l => Some (v :: l)
                       | _, _ => None
                       end
    end.

  Fixpoint convert_records (fs : list (string * string)) (recs : list (list value)) : list (list value) * bool :=
    match recs with
    | [] => ([], true)
    | r :: rest => match convert_fields fs r with
                   | None => ([], false)
                   | Some vs => let '(l, ok) := convert_records fs rest in (vs :: l, ok)
                   end
    end.

  Inductive flowres := FlowOpenFail | FlowRead (d : descriptor) (recs : list (list value)) (e : rend).
  Definition read_flow (f : file) : flowres :=
    match read_raw f with
    | RawOpenFail => FlowOpenFail
    | RawRead s recs e =>
        match schema_to_descriptor cfg s with
        | None => FlowOpenFail
        | Some d => let '(l, ok) := convert_records (all_fields cfg d) recs in
                    FlowRead d l (if ok then e else RFail)
        end
    end.

  (* -------------------------------------------------------------------------------------- *)
  (* AvroWriter *)
  Record record := Rec { r_desc : descriptor; r_vals : list value }.   (* values of all_fields, in order *)

  Inductive wkind := WNone | WEmpty | WSchema (s : schema).
  Record wstate := WState {
    w_desc : option descriptor;       (* self.desc *)
    w_schema : option schema;         (* self.schema *)
    w_writer : wkind;                 (* self.writer *)
    w_fp : bool;                      (* self.fp is an open file *)
    w_header : option schema;         (* the header fastavro wrote to self.fp *)
    w_committed : list item;          (* blocks written to self.fp *)
    w_pending : list item }.          (* fastavro's block buffer *)

  Definition w_init : wstate := WState None None WNone true None [] [].

  Inductive wcond := CNoDesc | CDescDiffers | CNoWriter | CHasWriter | CHasFp | CHasFpNotStdout.
  Inductive wact :=
  | SetDesc | MakeSchema | ParseSchema | MakeWriter | RaiseMixed | DryRun | WriterWrite
  | MakeEmptyWriter | WriterFlush | CallFlush | FpClose | SetFpNone | SetWriterNone.
  Inductive wstmt := Do (a : wact) | When (c : wcond) (body : list wstmt).
  Record wcode := WCode { code_write : list wstmt; code_flush : list wstmt; code_close : list wstmt }.

  Inductive wres := WOk (st : wstate) | WRaise (e : werr) (st : wstate).

  Definition set_desc st d := WState (Some d) (w_schema st) (w_writer st) (w_fp st) (w_header st) (w_committed st) (w_pending st).
  Definition set_schema st s := WState (w_desc st) (Some s) (w_writer st) (w_fp st) (w_header st) (w_committed st) (w_pending st).
  Definition set_writer st k h := WState (w_desc st) (w_schema st) k (w_fp st) h (w_committed st) (w_pending st).
  Definition set_fp st b := WState (w_desc st) (w_schema st) (w_writer st) b (w_header st) (w_committed st) (w_pending st).
  Definition add_pending st it := WState (w_desc st) (w_schema st) (w_writer st) (w_fp st) (w_header st) (w_committed st) (w_pending st ++ [it])%list.
  Definition commit st :=
    match w_pending st with
    | [] => st
    | p => WState (w_desc st) (w_schema st) (w_writer st) (w_fp st) (w_header st) (w_committed st ++ p ++ [IBlockEnd])%list []
    end.

  Definition cond_holds (c : wcond) (arg : option record) (st : wstate) : bool :=
    match c with
    | CNoDesc => match w_desc st with None => true | Some _ => false end
    | CDescDiffers => match w_desc st, arg with
                      | Some d, Some r => negb (desc_eqb d (r_desc r))
                      | _, _ => true
                      end
    | CNoWriter => match w_writer st with WNone => true | _ => false end
    | CHasWriter => match w_writer st with WNone => false | _ => true end
    | CHasFp => w_fp st
    | CHasFpNotStdout => w_fp st
    end.

  (* actions that do not call other methods *)
  Definition act_basic (a : wact) (arg : option record) (st : wstate) : wres :=
    match a with
    | SetDesc => match arg with Some r => WOk (set_desc st (r_desc r)) | None => WRaise ECode st end
    | MakeSchema => match w_desc st with
                    | Some d => match descriptor_to_schema cfg d with
                                | Some s => WOk (set_schema st s)
                                | None => WRaise EUnsupported st
                                end
                    | None => WRaise ECode st
                    end
    | ParseSchema => match w_schema st with
                     | Some s => if schema_parses s then WOk st else WRaise EParse st
                     | None => WRaise ECode st
                     end
    | MakeWriter => match w_schema st with
                    | Some s => match w_header st with
                                | Some _ => WRaise EAppend st       (* fp.tell() != 0 on a file opened "wb" *)
                                | None => WOk (set_writer st (WSchema s) (Some s))
                                end
                    | None => WRaise ECode st
                    end
    | RaiseMixed => WRaise EMixed st
    | DryRun =>
        (* fastavro.schemaless_writer(io.BytesIO(), self.parsed_schema, r._packdict()): the record is encoded into a
           scratch buffer; a record fastavro refuses raises here and nothing of the writer has changed *)
        match arg with
        | None => WRaise ECode st
        | Some r =>
            match w_schema st with
            | None => WRaise ENoSchema st
            | Some s => if schema_parses s
                        then match enc_fields (map snd (s_fields s)) (r_vals r) false with
                             | EncOk _ => WOk st
                             | EncFail e _ => WRaise e st
                             end
                        else WRaise ENoSchema st
            end
        end
    | WriterWrite =>
        match arg with
        | None => WRaise ECode st
        | Some r =>
            match w_writer st with
            | WNone => WRaise ENoWriter st
            | WEmpty => WOk (add_pending st (IRec []))        (* a record of the field-less schema "empty" *)
            | WSchema s => match enc_fields (map snd (s_fields s)) (r_vals r) false with
                           | EncOk l => WOk (add_pending st (IRec l))
                           | EncFail e junk => WRaise e (if junk then add_pending st IJunk else st)
                           end
            end
        end
    | MakeEmptyWriter => match w_header st with
                         | Some _ => WRaise EAppend st
                         | None => WOk (set_writer st WEmpty (Some empty_schema))
                         end
    | WriterFlush => match w_writer st with WNone => WRaise ENoWriter st | _ => WOk (commit st) end
    | CallFlush => WRaise ECode st
    | FpClose => WOk st
    | SetFpNone => WOk (set_fp st false)
    | SetWriterNone => WOk (set_writer st WNone (w_header st))
    end.

  Fixpoint run_stmt (act : wact -> wstate -> wres) (arg : option record) (s : wstmt) (st : wstate) : wres :=
    match s with
    | Do a => act a st
    | When c body =>
        if cond_holds c arg st
        then (fix go (l : list wstmt) (st : wstate) : wres :=
                match l with
                | [] => WOk st
                | x :: rest => match run_stmt act arg x st with WOk st' => go rest st' | r => r end
                end) body st
        else WOk st
    end.
  Fixpoint run_stmts (act : wact -> wstate -> wres) (arg : option record) (l : list wstmt) (st : wstate) : wres :=
    match l with
    | [] => WOk st
    | x :: rest => match run_stmt act arg x st with WOk st' => run_stmts act arg rest st' | r => r end
    end.

  Variable code : wcode.

  Definition do_flush (st : wstate) : wres := run_stmts (fun a => act_basic a None) None (code_flush code) st.
  Definition act_full (arg : option record) (a : wact) (st : wstate) : wres :=
    match a with CallFlush => do_flush st | _ => act_basic a arg st end.
  Definition do_write (r : record) (st : wstate) : wres := run_stmts (act_full (Some r)) (Some r) (code_write code) st.
  Definition do_close (st : wstate) : wres := run_stmts (act_full None) None (code_close code) st.

  Inductive op := OWrite (r : record) | OFlush.
  Inductive outcome := Accepted | Refused (e : werr).

  Definition step (st : wstate) (o : op) : wstate * outcome :=
    match (match o with OWrite r => do_write r st | OFlush => do_flush st end) with
    | WOk st' => (st', Accepted)
    | WRaise e st' => (st', Refused e)
    end.

  Fixpoint run_ops (st : wstate) (ops : list op) : wstate * list outcome :=
    match ops with
    | [] => (st, [])
    | o :: rest => let '(st1, x) := step st o in
                   let '(st2, xs) := run_ops st1 rest in (st2, x :: xs)
    end.

  Definition file_of (st : wstate) : file := File (w_header st) (w_committed st).

  (* a whole session: operations, then close(); the file as it is on disk afterwards *)
  Definition session (ops : list op) : file * list outcome * outcome :=
    let '(st, outs) := run_ops w_init ops in
    match do_close st with
    | WOk st' => (file_of st', outs, Accepted)
    | WRaise e st' => (file_of st', outs, Refused e)
    end.

End Fastavro.

(* ------------------------------------------------------------------------------------------ *)
(* what the property demands of a read-back value *)
Definition normalise (to_f32 : N -> N) (v : value) : value :=
  match v with
  | VFloat b => VFloat (to_f32 b)
  | VTime us _ => VTime us 0
  | _ => v
  end.

(* ------------------------------------------------------------------------------------------ *)
(* vocabulary of the property statements *)

(* what a typed flow record can hold in a field of type t (as _packdict hands it over) *)
Definition well_typed (t : string) (v : value) : bool :=
  if String.eqb t "digest" then match v with VDigest => true | _ => false end
  else match v with
  | VNone => true
  | VBool _ => String.eqb t "boolean"
  | VInt z => mem t ["varint"; "filesize"; "unix_file_mode"]
              || (String.eqb t "uint16" && (0 <=? z)%Z && (z <=? 65535)%Z)
              || (String.eqb t "uint32" && (0 <=? z)%Z && (z <=? 4294967295)%Z)
  | VFloat _ => String.eqb t "float"
  | VText _ => mem t ["string"; "wstring"; "uri"]
  | VBytes _ => String.eqb t "bytes"
  | VTime us off => String.eqb t "datetime" && in_py_range (us + off)          (* wall clock within year 1..9999 *)
                    && (-86400000000 <? off)%Z && (off <? 86400000000)%Z        (* |utcoffset| < 1 day *)
  | VDigest => false
  | VMissing => false
  end.

(* "integer outside the schema's range": the range of the Avro type AVRO_TYPE_MAP gives the field *)
Definition int_range_of (a : string) (z : Z) : bool :=
  if String.eqb a "int" then int32_ok z else if String.eqb a "long" then int64_ok z else true.

(* the Avro mapping can represent the value: integers within the mapped type's range, text that has a UTF-8
   encoding, not the 3-tuple of a digest *)
Definition representable (cfg : config) (t : string) (v : value) : bool :=
  match v with
  | VInt z => match lookup t (cfg_avro_map cfg) with Some a => int_range_of a z | None => false end
  | VText c => negb (has_surrogate c)
  | VDigest => false
  | _ => true
  end.

Definition time_ok (v : value) : bool := match v with VTime us _ => in_py_range us | _ => true end.

Fixpoint all2 {A B} (p : A -> B -> bool) (l : list A) (m : list B) : bool :=
  match l, m with
  | [], [] => true
  | a :: l', b :: m' => p a b && all2 p l' m'
  | _, _ => false
  end.

Definition well_typed_rec (cfg : config) (d : descriptor) (vs : list value) : bool :=
  all2 (fun f v => well_typed (fst f) v) (all_fields cfg d) vs.
Definition representable_rec (cfg : config) (d : descriptor) (vs : list value) : bool :=
  all2 (fun f v => representable cfg (fst f) v) (all_fields cfg d) vs.
Definition times_ok (vs : list value) : bool := forallb time_ok vs.

Definition mappable (cfg : config) (d : descriptor) : bool :=
  match descriptor_to_schema cfg d with Some _ => true | None => false end.

(* (for the witness against a writer WITHOUT the dry run) a session on the file of descriptor d in which no write
   is accepted behind a value-refused write of the same block (a flush in between starts a new block); [dirty]: such
   a refusal happened since the last flush *)
Fixpoint safe_session (cfg : config) (d : descriptor) (dirty : bool) (ops : list op) : bool :=
  match ops with
  | [] => true
  | OFlush :: rest => safe_session cfg d false rest
  | OWrite r :: rest =>
      if desc_eqb d (r_desc r)
      then (if representable_rec cfg d (r_vals r) then negb dirty && safe_session cfg d false rest
            else safe_session cfg d true rest)
      else safe_session cfg d dirty rest
  end.

(* the records of d the mapping can represent, in order, and the decision the property expects per operation *)
Fixpoint accepted (cfg : config) (d : descriptor) (ops : list op) : list record :=
  match ops with
  | [] => []
  | OFlush :: rest => accepted cfg d rest
  | OWrite r :: rest => if desc_eqb d (r_desc r) && representable_rec cfg d (r_vals r)
                        then r :: accepted cfg d rest else accepted cfg d rest
  end.
Definition is_accepted (o : outcome) : bool := match o with Accepted => true | Refused _ => false end.
Definition expected_decision (cfg : config) (d : descriptor) (o : op) : bool :=
  match o with
  | OFlush => true
  | OWrite r => desc_eqb d (r_desc r) && representable_rec cfg d (r_vals r)
  end.

(* names: no JSON escaping needed; a field-less descriptor's name must survive namespace.name -> path *)
Definition plain_name (s : string) : bool := negb (has_char dquote s).
Definition name_ok (n : string) : bool :=
  negb (has_char dot n) && negb (starts_with "/" n) && negb (ends_with "/" n).
Definition wf_descriptor (d : descriptor) : bool :=
  plain_name (d_name d) && forallb (fun f => plain_name (fst f) && plain_name (snd f)) (d_fields d)
  && match d_fields d with [] => name_ok (d_name d) | _ => true end.
