(* Model of Python's rich-comparison / membership protocol restricted to pairs in which one operand is
   the selector's missing-field sentinel (flow.record.selector.NONE_OBJECT), and of the way the two
   selector engines evaluate an ast.Compare node.  Definitions only; proofs are in proofs/Cmp_proofs.v. *)
From Coq Require Import List Bool String.
Import ListNotations.

Inductive cmpop := Eq | NotEq | Lt | LtE | Gt | GtE | In_ | NotIn.

Definition cmpop_eqb (a b : cmpop) : bool :=
  match a, b with
  | Eq, Eq | NotEq, NotEq | Lt, Lt | LtE, LtE | Gt, Gt | GtE, GtE | In_, In_ | NotIn, NotIn => true
  | _, _ => false
  end.

(* what a special method does when called with a foreign argument *)
Inductive mres := NotImpl | Ret (b : bool) | Raises.

(* result of evaluating a comparison *)
Inductive res := RVal (b : bool) | RTypeError (mentions_nonetype : bool) | RErr.

(* The sentinel's own method table: [None] = the class does not define the method (object's default
   applies), [Some b] = defined and returns the constant b.  This record is GENERATED from the class
   body of NoneObject (coq/gen/Gen_selector.v). *)
Record sentinel := {
  s_eq : option bool; s_ne : option bool; s_lt : option bool; s_le : option bool;
  s_gt : option bool; s_ge : option bool; s_contains : option bool }.

(* how the interpreted engine's In / NotIn lambdas guard the sentinel; GENERATED from AST_COMPARATORS *)
Record in_guard := { g_left : bool; g_right : bool; g_value : bool }.

(* The other operand, observed through what its own methods do with the sentinel as argument. *)
Inductive other :=
| Other (o_eq o_ne o_ord : mres) (o_is_none : bool) (o_cont : cont)
with cont :=
| CSeq (elems : list elem)        (* list / tuple: membership = identity or == per element *)
| CRes (r : mres)                 (* container with its own __contains__ / not a container: probed result
                                     (Raises = TypeError, e.g. str/bytes/int/None) *)
with elem :=
| ESent                           (* the element IS the sentinel (NONE_OBJECT is a singleton) *)
| EOther (o : other).

Inductive operand := OSent | OOth (o : other).

Definition o_eq_of (o : other) := match o with Other a _ _ _ _ => a end.
Definition o_ne_of (o : other) := match o with Other _ a _ _ _ => a end.
Definition o_ord_of (o : other) := match o with Other _ _ a _ _ => a end.
Definition o_none_of (o : other) := match o with Other _ _ _ a _ => a end.
Definition o_cont_of (o : other) := match o with Other _ _ _ _ a => a end.

Definition swap (op : cmpop) : cmpop :=
  match op with Lt => Gt | Gt => Lt | LtE => GtE | GtE => LtE | x => x end.

Section WithSentinel.
Variable S : sentinel.

Definition opt_m (o : option bool) : mres := match o with Some b => Ret b | None => NotImpl end.

(* sentinel.__op__(x);  [same] = x is the sentinel itself *)
Definition sent_method (op : cmpop) (same : bool) : mres :=
  match op with
  | Eq => match s_eq S with Some b => Ret b | None => if same then Ret true else NotImpl end
  | NotEq =>
      match s_ne S with
      | Some b => Ret b
      | None => (* object.__ne__: invert __eq__ unless NotImplemented *)
          match s_eq S with Some b => Ret (negb b) | None => if same then Ret false else NotImpl end
      end
  | Lt => opt_m (s_lt S) | LtE => opt_m (s_le S) | Gt => opt_m (s_gt S) | GtE => opt_m (s_ge S)
  | In_ | NotIn => NotImpl
  end.

Definition oth_method (o : other) (op : cmpop) : mres :=
  match op with
  | Eq => o_eq_of o | NotEq => o_ne_of o
  | Lt | LtE | Gt | GtE => o_ord_of o
  | In_ | NotIn => NotImpl
  end.

Definition is_sent (a : operand) := match a with OSent => true | _ => false end.
Definition is_none (a : operand) := match a with OOth o => o_none_of o | _ => false end.

Definition method (a : operand) (op : cmpop) (b : operand) : mres :=
  match a with
  | OSent => sent_method op (is_sent b)
  | OOth o => oth_method o op
  end.

(* PyObject_RichCompare for the six rich operators (neither type is a subclass of the other) *)
Definition rich (op : cmpop) (a b : operand) : res :=
  match method a op b with
  | Ret x => RVal x
  | Raises => RErr
  | NotImpl =>
      match method b (swap op) a with
      | Ret x => RVal x
      | Raises => RErr
      | NotImpl =>
          let same := is_sent a && is_sent b in
          match op with
          | Eq => RVal same
          | NotEq => RVal (negb same)
          | _ => RTypeError (is_none a || is_none b)
          end
      end
  end.

(* element == sentinel as list.__contains__ does it: identity first *)
Definition elem_matches (e : elem) : res :=
  match e with
  | ESent => RVal true
  | EOther o => rich Eq (OOth o) OSent
  end.

Fixpoint seq_contains (es : list elem) : res :=
  match es with
  | [] => RVal false
  | e :: es' =>
      match elem_matches e with
      | RVal true => RVal true
      | RVal false => seq_contains es'
      | r => r
      end
  end.

(* operator.contains(container, item) where at least one of them is the sentinel *)
Definition contains (container item : operand) : res :=
  match container with
  | OSent => match s_contains S with Some b => RVal b | None => RTypeError false end
  | OOth o =>
      match o_cont_of o with
      | CSeq es => seq_contains es
      | CRes (Ret b) => RVal b
      | CRes NotImpl => RTypeError false
      | CRes Raises => RTypeError false
      end
  end.

Definition neg_res (r : res) : res := match r with RVal b => RVal (negb b) | x => x end.

(* the compiled engine: plain Python evaluation *)
Definition compiled_cmp (op : cmpop) (l r : operand) : res :=
  match op with
  | In_ => contains r l
  | NotIn => neg_res (contains r l)
  | _ => rich op l r
  end.

(* the interpreted engine: AST_COMPARATORS[type(op)](left, right) *)
Variable G_in G_notin : in_guard.

Definition guarded (g : in_guard) (l r : operand) : bool :=
  (g_left g && is_sent l) || (g_right g && is_sent r).

Definition interp_cmp (op : cmpop) (l r : operand) : res :=
  match op with
  | In_ => if guarded G_in l r then RVal (g_value G_in) else contains r l
  | NotIn => if guarded G_notin l r then RVal (g_value G_notin)
             else match contains r l with RVal b => RVal (negb b) | x => x end
  | _ => rich op l r
  end.

End WithSentinel.

(* boolean contexts of the property's grammar *)
Inductive bctx := Bare | CNot | CAndTrue | COrFalse | CTrueAnd.

Definition in_ctx (interpreted : bool) (c : bctx) (r : res) : res :=
  match c, r with
  | Bare, x => x
  | CNot, RVal b => RVal (negb b)
  | CNot, x => x
  | (CAndTrue | COrFalse | CTrueAnd), RVal b => RVal b
  | (CAndTrue | COrFalse | CTrueAnd), RTypeError true =>
      (* the interpreted BoolOp swallows a TypeError whose text mentions NoneType *)
      if interpreted then RVal false else RTypeError true
  | _, x => x
  end.

Inductive side := SLeft | SRight.
Definition place (sd : side) (o : operand) : operand * operand :=
  match sd with SLeft => (OSent, o) | SRight => (o, OSent) end.

(* ---- helpers: the skip-missing loop shared by field_equals / field_contains / field_regex ---- *)
Section Helpers.
Context {V : Type}.
Variable getf : string -> option V.      (* getattr(r, field, NONE_OBJECT) *)
Variable test : V -> bool.
Fixpoint helper_loop (fs : list string) : bool :=
  match fs with
  | [] => false
  | f :: fs' =>
      match getf f with
      | None => helper_loop fs'
      | Some v => if test v then true else helper_loop fs'
      end
  end.
End Helpers.

(* ---- filtering one source: an exception aborts the source (record_stream swallows it and goes on
   with the next source), so the rest of the source is lost ---- *)
Section Filtering.
Context {R : Type}.
Variable sel : R -> res.
Fixpoint read_with (rs : list R) : list R * bool (* aborted *) :=
  match rs with
  | [] => ([], false)
  | r :: rs' =>
      match sel r with
      | RVal true => let (out, ab) := read_with rs' in (r :: out, ab)
      | RVal false => read_with rs'
      | _ => ([], true)
      end
  end.
End Filtering.
